"""C04: conditional requests. (1) the If-Match x If-None-Match truth table on every tree of the DavTree instance,
judged by DavJudge; (2) TLC-simulated histories mixing writes, reads and conditional requests, with the announced
entity tags threaded by the judge; (3) announcements / helpers / hand-over over doubles, judged by CondJudge."""
import copy, json, os
import vlib
from vlib import Machinery, log
import checks_dav


def _tag_canary(ctx, obs):
    """Corrupt the tag of a repeated announcement in a recorded history: the judge must report a C04 reject."""
    for f in obs:
        if "hist" not in f:
            continue
        lines = open(f).read().splitlines()
        last = {}
        for i, line in enumerate(lines):
            if line.startswith('{"k":"tree"'):
                last = {}
                continue
            e = json.loads(line)
            if not e["same"] or e.get("touched") or e.get("skip"):
                last = {}
            if e["req"]["m"] in ("GET", "HEAD") and e["st"] == 200 and e["rep"]["tag"]:
                key = "/".join(e["req"]["p"])
                if key in last and last[key][1] == e["rep"]["tag"]:
                    c = copy.deepcopy(e)
                    c["rep"]["tag"] = '"corrupt"'
                    rows = lines[: i] + [json.dumps(c, separators=(",", ":"))]
                    # keep only this history: cut at the preceding tree line
                    start = max(j for j in range(i) if lines[j].startswith('{"k":"tree"'))
                    rows = rows[start:]
                    p = ctx.path("canary", "tagcanary.ndjson")
                    open(p, "w").write("\n".join(rows) + "\n")
                    rej, _ = ctx.judge("DavJudge", [p], par=1)
                    ok = any(ln == len(rows) and s.startswith("C04 ") for _, ln, s in rej)
                    ctx.cov["canaries_total"] += 1
                    if not ok:
                        raise Machinery("judge accepted a corrupted entity-tag announcement")
                    ctx.cov["canaries_rejected"] += 1
                    log("[canary] corrupted tag announcement rejected")
                    return
                last[key] = (i, e["rep"]["tag"])
    raise Machinery("no repeated tag announcement found in the histories to build the tag canary from")


def _helper_canaries(ctx, f):
    rows = vlib.read_ndjson(f)
    out = []
    for e in rows:
        c = copy.deepcopy(e)
        if e["k"] == "ann" and len(out) < 40:
            c["propfind"] = c["propfind"] + "x"; out.append(c)
        elif e["k"] == "helper" and len(out) < 400:
            c["match"] = not c["match"]; out.append(c)
        elif e["k"] == "pass" and len(out) < 600:
            c2 = copy.deepcopy(e); c2["gotifm"] = c2["gotifm"] + " "; out.append(c2)
            c["called"] = 0; out.append(c)
    p = ctx.path("canary", "cond-canary.ndjson")
    vlib.write_ndjson(p, out)
    rej, _ = ctx.judge("CondJudge", [p], par=1)
    ctx.cov["canaries_total"] += len(out)
    ctx.cov["canaries_rejected"] += len(rej)
    if len(rej) != len(out):
        raise Machinery("CondJudge accepted %d of %d corrupted observations" % (len(out) - len(rej), len(out)))


def run(ctx, binp, trees, env, product, hists, obs, inputs, info_all, ntrees):
    q = ctx.quick()
    if q:
        product("cond", env["CONDOUT"], treemod=2, treerem=ctx.seed % 2)
        hists(80, 24, ctx.seed, condmix=True)
    else:
        product("cond", env["CONDOUT"])
        product("cond-special", env["CONDOUT"], treemod=4, treerem=ctx.seed % 4, conc="special")
        for i in range(4):
            hists(250, 30, ctx.seed * 10 + i, condmix=True)
    # (3) doubles
    c04 = ctx.go_build("c04rec")
    of = ctx.path("obs", "c04", "helpers.ndjson")
    r = ctx.run([c04, "-out", of, "-seed", str(ctx.seed)])
    n3 = json.loads(r.stdout.strip().splitlines()[-1])["recorded"]
    rej3, tot3 = ctx.judge("CondJudge", [of], par=1)
    _helper_canaries(ctx, of)
    _tag_canary(ctx, obs)
    extra = vlib.group_rejects([(f, ln, s[4:]) for f, ln, s in rej3 if s.startswith("C04 ")])
    for s, g in extra.items():
        g["record"] = {"case": {"kind": "c04rec"}, "observed": g["record"]}
    nreq = sum(1 for _ in open(env["CONDOUT"]))
    return checks_dav.judge_and_finish(ctx, binp, obs, inputs, info_all, ntrees, nreq, tags=("C01", "C04"), extra_sigs=extra,
                                       extra_cov={"helper_and_handover_events": n3,
                                                  "rule": "If-Match x If-None-Match classes {unset,*,current,stale,other,malformed}^2 x {PUT,DELETE} x every path on every tree of the "
                                                          "bounded instance (outcome = DavTree.CondOK truth table); TLC-simulated histories with announced tags threaded by the judge; "
                                                          "announcement/helper/hand-over table over doubles with adversarial tag strings"})

"""C13: servers answer every request without panicking; malformed input gets 4xx and reaches no mutating backend call.
Robust.tla classifies requests (Malformed / grey / not malformed) and defines structure-aware XML mutation; RobustGen
enumerates the request universe with its classification and the single-edit mutants of representative valid documents;
robrec sends them (plus every truncation of the valid documents and seeded random bytes) to the real handlers."""
import copy, json, os, random
import vlib
from vlib import Machinery, log


def _rec(ctx, binp, args):
    r = ctx.run([binp] + [str(a) for a in args], timeout=1800)
    return json.loads(r.stdout.strip().splitlines()[-1])["recorded"]


def run(ctx, replay=None):
    q = ctx.quick()
    binp = ctx.go_build("robrec")
    gen = os.path.dirname(ctx.path("robgen", ".x"))
    modes = [("reqs", "robust.ndjson"), ("mutants", "mutants.ndjson"), ("fuzz", "")]
    if replay:
        case = json.load(open(replay))["record"]["case"]
        of = ctx.path("obs", "replay.ndjson")
        if case["mode"] == "fuzz":
            _rec(ctx, binp, ["-mode", "fuzz", "-out", of, "-seed", case["seed"], "-n", case["n"], "-scratch", ctx.scratch])
        else:
            one = os.path.join(gen, "one.ndjson")
            vlib.write_ndjson(one, [case["case"]])
            _rec(ctx, binp, ["-mode", case["mode"], "-in", one, "-out", of, "-seed", case["seed"], "-scratch", ctx.scratch])
        rej, _ = ctx.judge("RobustJudge", [of], par=1)
        known, new = ctx.classify({s[4:]: {} for _, _, s in rej if case["mode"] != "fuzz" or s[4:] == json.load(open(replay))["signature"]})
        for s in new:
            print("VIOLATION property=C13 replay=%s signature=%s" % (replay, s))
        print("REPLAY property=C13 rejected=%d (known findings: %d)" % (len(new), len(known)))
        return 1 if new else 0
    out, st = ctx.model_check("RobustGen", "RobustGen" if q else "RobustGen_thorough", env={"OUT": gen}, workers=1, timeout=3000)
    counts = [int(x) for x in out.split('<<"COUNTS", ')[1].split(">>")[0].split(", ")]
    # the documents the wire specifications (CalWire / CardWire, C08 / C09) classify as outside the RFC: 4xx, no backend call
    inv = []
    for proto, genmod in (("cal", "CalWireGen"), ("card", "CardWireGen")):
        d = os.path.join(gen, "wire-" + proto)
        os.makedirs(d, exist_ok=True)
        ctx.model_check(genmod, genmod, env={"OUT": d}, workers=1, timeout=3000)
        for row in vlib.read_ndjson(os.path.join(d, "invalid.ndjson")):
            inv.append({"srv": proto, "m": "REPORT", "level": 3, "doc": row["doc"], "want": "4xx", "what": row["kind"]})
    vlib.write_ndjson(os.path.join(gen, "invalid-docs.ndjson"), inv)
    modes.insert(2, ("mutants", "invalid-docs.ndjson"))
    nfuzz = 20000 if q else 2000000
    files = []
    total = 0
    universes = []
    for mode, inf in modes:
        of = ctx.path("obs", mode + "-" + (inf or "x") + ".ndjson")
        args = ["-mode", mode, "-out", of, "-seed", ctx.seed, "-scratch", ctx.scratch, "-n", nfuzz]
        if inf:
            args += ["-in", os.path.join(gen, inf)]
        n = _rec(ctx, binp, args)
        total += n
        files.append((of, mode, inf))
        universes.append({"universe": mode, "observations": n})
    rej, tot = ctx.judge("RobustJudge", [f for f, _, _ in files])
    ctx.cov["traces_validated_against_impl"] += tot
    # canaries
    rnd = random.Random(ctx.seed)
    rows = vlib.read_ndjson(files[0][0])
    bad = {ln for f, ln, _ in rej if f == files[0][0]}
    idx = [i for i in range(len(rows)) if (i + 1) not in bad and rows[i]["want"] == "4xx"]
    rnd.shuffle(idx)
    can = []
    for i in idx[:300]:
        c = copy.deepcopy(rows[i])
        ch = rnd.randrange(4)
        if ch == 0:
            c["st"] = 500
        elif ch == 1:
            c["st"] = 207
        elif ch == 2:
            c["mut"] = 1
        else:
            c["panic"] = True
            c["panicin"] = "x"
        can.append(c)
    cf = ctx.path("canary", "rob.ndjson")
    vlib.write_ndjson(cf, can)
    crej, _ = ctx.judge("RobustJudge", [cf], par=1)
    got = {ln for _, ln, _ in crej}
    ctx.cov["canaries_total"] += len(can)
    ctx.cov["canaries_rejected"] += len(got)
    if len(got) != len(can) or not can:
        raise Machinery("RobustJudge accepted %d of %d corrupted observations" % (len(can) - len(got), len(can)))
    ctx.cov["samples"] += rows[:2]
    sigs = {}
    if rej:
        meta = {f: (m, i) for f, m, i in files}
        again = {}
        cases = {}
        for f, ln, s in rej:
            mode, inf = meta[f]
            sig = s[4:]
            g = sigs.setdefault(sig, {"count": 0, "record": None})
            g["count"] += 1
            if g["record"] is None:
                if f not in again:
                    f2 = f + ".again"
                    args = ["-mode", mode, "-out", f2, "-seed", ctx.seed, "-scratch", ctx.scratch, "-n", nfuzz]
                    if inf:
                        args += ["-in", os.path.join(gen, inf)]
                    _rec(ctx, binp, args)
                    again[f] = open(f2).read().splitlines()
                line = open(f).read().splitlines()[ln - 1]
                if again[f][ln - 1] != line:
                    raise Machinery("re-execution observed something different for %s" % sig)
                obs = json.loads(line)
                if mode == "fuzz":
                    case = {"mode": "fuzz", "seed": ctx.seed, "n": nfuzz}
                else:
                    if inf not in cases:
                        cases[inf] = vlib.read_ndjson(os.path.join(gen, inf))
                    case = {"mode": mode, "seed": ctx.seed, "case": cases[inf][obs["ci"] - 1]}
                g["record"] = {"case": case, "observed": obs}
    extra = {"evaluations": total, "distinct_nontrivial": total, "universes": universes, "request_universe": counts[0], "mutants": counts[1],
             "malformed_requests": counts[2], "exhaustive": True,
             "rule": "every (server: WebDAV / CalDAV / CardDAV / principal helper, method incl. unknown ones, hierarchy level, Depth class, Content-Type class, body class) request, "
                     "COPY/MOVE x Depth x Overwrite x Destination classes; every single-edit mutant (delete / duplicate / rename an element, swap its namespace, drop / rename / "
                     "corrupt an attribute, alter text) at every node of representative valid calendar-query, calendar-multiget, addressbook-query, addressbook-multiget, "
                     "propfind and mkcol documents in two lexical styles; every truncation of the valid documents and seeded random bytes; classified by Robust.Expect"}
    ctx.assumptions += ["recording backend doubles never fail (so 5xx is never right for a mutated query document)", "TLC and the CommunityModules Json reader"]
    return ctx.finish(sigs, extra=extra)

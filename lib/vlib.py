"""Shared plumbing for /verif/bin/check: scratch space, TLC runs (model check, generate, judge),
harness builds from /repo's working tree, known-findings mapping, evidence and replay files.

Exit codes: 0 = everything explored was accepted (or is a listed known finding);
            1 = at least one violation not listed (VIOLATION lines printed);
            2 = machinery failure (never prints VIOLATION).
"""
import atexit, concurrent.futures, json, os, re, shutil, subprocess, sys, tempfile, time

VERIF = os.path.dirname(os.path.dirname(os.path.abspath(__file__)))
REPO = os.environ.get("VERIF_REPO", "/repo")
# development runs against a scratch copy of the repository (seeded / benign changes) leave evidence/ and replays/ of /verif alone
OUTBASE = VERIF if REPO == "/repo" else "/tmp/verif-alt"
SPEC = os.path.join(VERIF, "spec")
HARNESS = os.path.join(VERIF, "harness")
TLA_CP = "/opt/veriftools/tla/tla2tools.jar:/opt/veriftools/tla/CommunityModules-deps.jar"
NCPU = os.cpu_count() or 4


class Machinery(Exception):
    """A failure of the checking machinery itself (exit 2)."""


def log(*a):
    print(*a, file=sys.stderr, flush=True)


def goenv():
    e = dict(os.environ)
    e.update(GOFLAGS="-mod=mod", GOPROXY="off", GOSUMDB="off", GOTOOLCHAIN="local", CGO_ENABLED=e.get("CGO_ENABLED", "1"))
    return e


class Ctx:
    def __init__(self, prop, tier, seed):
        self.prop, self.tier, self.seed = prop, tier, seed
        self.t0 = time.time()
        base = "/dev/shm" if os.path.isdir("/dev/shm") and os.access("/dev/shm", os.W_OK) else tempfile.gettempdir()
        self.scratch = tempfile.mkdtemp(prefix="verif-%s-" % prop, dir=base)
        atexit.register(self.cleanup)
        self.cov = {"states": 0, "transitions": 0, "traces_validated_against_impl": 0, "samples": [],
                    "tlc_runs": [], "judged_events": 0, "canaries_rejected": 0, "canaries_total": 0}
        self.assumptions = []
        self.rejects = []       # dicts: sig, obs, replay case
        self.known_hits = {}
        self.extras = {}        # (file, line, signature) -> extra field printed by the judge after the signature
        self.counter = 0

    def cleanup(self):
        if os.environ.get("VERIF_KEEP"):
            log("scratch kept:", self.scratch)
            return
        shutil.rmtree(self.scratch, ignore_errors=True)

    def path(self, *a):
        p = os.path.join(self.scratch, *a)
        os.makedirs(os.path.dirname(p), exist_ok=True)
        return p

    def quick(self):
        return self.tier == "quick"

    # ------------------------------------------------------------------ TLC
    def _speccopy(self):
        d = self.path("spec", ".x")
        d = os.path.dirname(d)
        if not os.path.exists(os.path.join(d, ".copied")):
            for f in os.listdir(SPEC):
                if f.endswith((".tla", ".cfg")):
                    shutil.copy(os.path.join(SPEC, f), d)
            open(os.path.join(d, ".copied"), "w").close()
        return d

    def tlc(self, module, cfg=None, env=None, workers=1, args=(), timeout=900, heap="4g", allow_fail=False, dfs=False):
        """Run TLC on spec/<module>.tla with spec/<cfg>.cfg in a scratch copy. Returns (stdout, stats)."""
        d = self._speccopy()
        self.counter += 1
        meta = self.path("meta", "m%d" % self.counter)
        e = dict(os.environ)
        if env:
            e.update({k: str(v) for k, v in env.items()})
        jopts = ["-XX:+UseParallelGC", "-Xmx" + heap, "-Xss64m"]
        if dfs:
            jopts.append("-Dtlc2.tool.queue.IStateQueue=StateDeque")
        cmd = ["java"] + jopts + ["-cp", TLA_CP, "tlc2.TLC", "-metadir", meta, "-workers", str(workers),
                                  "-config", (cfg or module) + ".cfg"] + list(args) + [module + ".tla"]
        t = time.time()
        try:
            r = subprocess.run(cmd, cwd=d, env=e, stdout=subprocess.PIPE, stderr=subprocess.STDOUT, timeout=timeout, text=True, errors="replace")
        except subprocess.TimeoutExpired:
            raise Machinery("TLC timeout on %s/%s after %ss" % (module, cfg, timeout))
        finally:
            shutil.rmtree(meta, ignore_errors=True)
        out = r.stdout
        st = parse_tlc_stats(out)
        st.update(module=module, cfg=cfg or module, wall_s=round(time.time() - t, 2), exit=r.returncode)
        if r.returncode != 0 and not allow_fail:
            tail = "\n".join(out.splitlines()[-40:])
            raise Machinery("TLC failed on %s/%s (exit %d):\n%s" % (module, cfg, r.returncode, tail))
        return out, st

    def model_check(self, module, cfg=None, workers=None, timeout=1800, heap="8g", args=(), env=None):
        """F0: model-check a specification; accumulates states/transitions into the evidence."""
        out, st = self.tlc(module, cfg, workers=workers or min(NCPU, 8), timeout=timeout, heap=heap, args=args, env=env, allow_fail=True)
        if st["exit"] != 0 or "Model checking completed. No error has been found." not in out:
            tail = "\n".join(out.splitlines()[-60:])
            raise Machinery("design check %s/%s did not pass (a property of the SPECIFICATION is violated or TLC failed):\n%s" % (module, cfg, tail))
        self.cov["states"] += st.get("distinct", 0)
        self.cov["transitions"] += st.get("generated", 0)
        self.cov["tlc_runs"].append({k: st[k] for k in ("module", "cfg", "generated", "distinct", "depth", "wall_s") if k in st})
        log("[F0] %s/%s: %s generated, %s distinct, %.1fs" % (module, cfg or module, st.get("generated"), st.get("distinct"), st["wall_s"]))
        return out, st

    def emitted(self, out, tag):
        """Parse lines <<"TAG", "json">> printed by PrintT(<<"TAG", ToJson(x)>>)."""
        res = []
        pre = '<<"%s", "' % tag
        for line in out.splitlines():
            if line.startswith(pre) and line.endswith('">>'):
                s = line[len(pre):-3]
                s = s.replace('\\"', '"').replace("\\\\", "\\")
                res.append(json.loads(s))
        return res

    # ------------------------------------------------------------------ Go harness
    def go_build(self, pkg, race=False, tags="verif"):
        """Build /verif/harness/cmd/<pkg> against /repo's current working tree."""
        out = self.path("bin", pkg + ("-race" if race else ""))
        cmd = ["go", "build", "-tags", tags, "-o", out]
        if race:
            cmd.append("-race")
        self._sync_gosum()
        if REPO != "/repo":
            # development aid (seed regressions in parallel on scratch copies of the repository): the same harness module with its
            # replace directive pointed at VERIF_REPO. The registered commands never set VERIF_REPO.
            mf = self.path("bin", "go.alt.mod")
            open(mf, "w").write(open(os.path.join(HARNESS, "go.mod")).read().replace("=> /repo", "=> " + REPO))
            open(self.path("bin", "go.alt.sum"), "w").write(open(os.path.join(HARNESS, "go.sum")).read())
            cmd.append("-modfile=" + mf)
        cmd.append("./cmd/" + pkg)
        r = subprocess.run(cmd, cwd=HARNESS, env=goenv(), stdout=subprocess.PIPE, stderr=subprocess.STDOUT, text=True)
        if r.returncode != 0:
            raise Machinery("go build of harness %s failed (does /repo still compile?):\n%s" % (pkg, r.stdout[-4000:]))
        return out

    def _sync_gosum(self):
        src, dst = os.path.join(REPO, "go.sum"), os.path.join(HARNESS, "go.sum")
        try:
            a = open(src).read()
            b = open(dst).read() if os.path.exists(dst) else ""
            if not set(a.splitlines()) <= set(b.splitlines()):
                open(dst, "w").write("\n".join(sorted(set(a.splitlines()) | set(b.splitlines()))) + "\n")
        except OSError:
            pass

    def run(self, cmd, timeout=1800, env=None, cwd=None, ok=(0,), stdin=None):
        e = goenv()
        if env:
            e.update({k: str(v) for k, v in env.items()})
        try:
            r = subprocess.run(cmd, cwd=cwd or self.scratch, env=e, stdout=subprocess.PIPE, stderr=subprocess.PIPE, timeout=timeout, text=True, errors="replace", input=stdin)
        except subprocess.TimeoutExpired:
            raise Machinery("timeout after %ss: %s" % (timeout, " ".join(cmd[:4])))
        if r.returncode not in ok:
            raise Machinery("command failed (exit %d): %s\n%s\n%s" % (r.returncode, " ".join(cmd[:6]), r.stdout[-3000:], r.stderr[-3000:]))
        return r

    # ------------------------------------------------------------------ judge
    def judge(self, module, obs_files, cfg=None, env=None, timeout=1800, heap="3g", par=None, envs=None):
        """F3: run the TLC trace specification over each observation shard (parallel processes).
        The judge prints <<"REJECT", lineNo, "signature">> per unexplained line and <<"DONE", lines, bad>> at the end.
        Returns list of (file, lineNo, signature)."""
        obs_files = [f for f in obs_files if os.path.getsize(f) > 0]
        rej = []
        total = 0

        def one(f):
            e = dict(env or {})
            e.update((envs or {}).get(f, {}))
            e["OBS"] = f
            out, st = self.tlc(module, cfg, env=e, workers=1, timeout=timeout, heap=heap)
            return f, out, st

        with concurrent.futures.ThreadPoolExecutor(max_workers=par or NCPU) as ex:
            results = list(ex.map(one, obs_files))
        for f, out, st in results:
            nlines = sum(1 for _ in open(f))
            done = None
            bad = 0
            for line in out.splitlines():
                m = re.match(r'^"REJECT\|(\d+)\|([^|]*)(?:\|(.*))?"$', line)
                if m:
                    sig = m.group(2).replace('\\"', '"').replace("\\\\", "\\")
                    rej.append((f, int(m.group(1)), sig))
                    if m.group(3) is not None:
                        self.extras[(f, int(m.group(1)), sig)] = m.group(3)
                    bad += 1
                    continue
                m = re.match(r'^<<"DONE", (\d+), (\d+)>>$', line)
                if m:
                    done = (int(m.group(1)), int(m.group(2)))
            if done is None or done[0] != nlines or done[1] != bad:
                tail = "\n".join(out.splitlines()[-30:])
                raise Machinery("judge %s did not consume %s completely (done=%s lines=%d rejects=%d):\n%s" % (module, f, done, nlines, bad, tail))
            total += nlines
            self.cov["tlc_runs"].append({"module": module, "cfg": cfg or module, "judged_lines": nlines, "rejects": bad, "wall_s": st["wall_s"]})
        return rej, total

    # ------------------------------------------------------------------ verdicts
    def load_known(self):
        p = os.path.join(VERIF, "known_findings.json")
        if not os.path.exists(p):
            return []
        k = json.load(open(p))
        return [f for f in k.get("findings", []) if f.get("property") == self.prop]

    def classify(self, sigs):
        """sigs: dict signature -> example record. Returns (known: dict sig->finding, new: dict sig->example)."""
        known = self.load_known()
        kn, new = {}, {}
        for s, ex in sigs.items():
            hit = None
            for f in known:
                if s == f.get("signature") or s in f.get("signatures", []) or (f.get("pattern") and re.fullmatch(f["pattern"], s)):
                    hit = f
                    break
            if hit:
                kn[s] = hit
            else:
                new[s] = ex
        return kn, new

    def write_replay(self, sig, record):
        d = os.path.join(OUTBASE, "replays", self.prop)
        os.makedirs(d, exist_ok=True)
        name = re.sub(r"[^A-Za-z0-9_.=-]+", "_", sig)[:120] or "case"
        p = os.path.join(d, name + ".json")
        json.dump({"property": self.prop, "signature": sig, "seed": self.seed, "tier": self.tier, "record": record}, open(p, "w"), indent=1)
        return p

    def finish(self, sigs, counts=None, level="model_checking", extra=None, rule=None):
        """sigs: dict signature -> {"count": n, "record": example}. Prints verdict lines, writes evidence, returns exit code."""
        kn, new = self.classify(sigs)
        for s, f in sorted(kn.items()):
            print("KNOWN-FINDING: property=%s %s (%d events) -- %s" % (self.prop, s, sigs[s].get("count", 1), f.get("what", "")))
        nviol = 0
        for s, ex in sorted(new.items()):
            rp = self.write_replay(s, ex.get("record"))
            print("VIOLATION property=%s replay=%s signature=%s events=%d" % (self.prop, rp, s, ex.get("count", 1)))
            nviol += 1
        cov = dict(self.cov)
        if counts:
            cov.update(counts)
        if extra:
            cov.update(extra)
        if rule:
            cov["rule"] = rule
        cov["known_findings_hit"] = sorted(kn.keys())
        cov["samples"] = cov["samples"][:6]
        if not cov["samples"]:
            cov["samples"] = ["(none recorded)"]
        cov["states"] = max(1, cov["states"])
        cov["transitions"] = max(1, cov["transitions"])
        ev = {"property_id": self.prop, "tier": self.tier, "seed": self.seed, "level": level, "coverage": cov,
              "assumptions": self.assumptions, "wall_s": round(time.time() - self.t0, 2), "violations": nviol}
        os.makedirs(os.path.join(OUTBASE, "evidence"), exist_ok=True)
        json.dump(ev, open(os.path.join(OUTBASE, "evidence", self.prop + ".json"), "w"), indent=1, default=str)
        print("RESULT property=%s tier=%s seed=%d violations=%d known=%d wall=%.1fs" % (self.prop, self.tier, self.seed, nviol, len(kn), time.time() - self.t0))
        return 1 if nviol else 0


def parse_tlc_stats(out):
    st = {}
    m = None
    for m in re.finditer(r"(\d+) states generated, (\d+) distinct states found, (\d+) states left on queue", out):
        pass
    if m:
        st["generated"], st["distinct"], st["queue"] = int(m.group(1)), int(m.group(2)), int(m.group(3))
    m = re.search(r"The depth of the complete state graph search is (\d+)", out)
    if m:
        st["depth"] = int(m.group(1))
    return st


def read_ndjson(path):
    with open(path) as f:
        return [json.loads(l) for l in f if l.strip()]


def write_ndjson(path, rows):
    with open(path, "w") as f:
        for r in rows:
            f.write(json.dumps(r, separators=(",", ":")) + "\n")


def group_rejects(rej, cache=None):
    """rej: list of (file, lineNo, sig) -> dict sig -> {"count", "record"} with the first observation as example."""
    sigs = {}
    cache = cache if cache is not None else {}
    for f, ln, s in rej:
        g = sigs.setdefault(s, {"count": 0, "record": None, "where": (f, ln)})
        g["count"] += 1
    for s, g in sigs.items():
        f, ln = g["where"]
        if f not in cache:
            cache[f] = open(f).read().splitlines()
        try:
            g["record"] = json.loads(cache[f][ln - 1])
        except Exception:
            g["record"] = None
        g["file"] = f
        del g["where"]
    return sigs


_linecache = {}


def _line(f, ln):
    if f not in _linecache:
        _linecache[f] = open(f).read().splitlines()
    return _linecache[f][ln - 1]

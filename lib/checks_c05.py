"""C05: WebDAV client and server agree on names, metadata and content."""
import checks_c10
import checks_clihist


def run(ctx, replay, generic):
    return generic(ctx, replay, "c05", "C05Gen", "C05Judge", "c05.ndjson",
                   "every (call: Stat / ReadDir +-recursive / Open / Create / Mkdir / RemoveAll / Copy / Move, endpoint URL without path, '/', '/p', '/p/', '/p/q/', "
                   "absolute or relative name, option combination, backend: LocalFileSystem on disk or an in-memory double with arbitrary metadata) case enumerated by TLC; "
                   "results compared with the backend's own records (path, kind, size up to 2^40, time to the second from sub-second non-UTC values, MIME type with "
                   "parameters, tags with quotes / non-ASCII, bytes incl. 300 kB and binary), backend calls compared with the resolved names and flags, every ReadDir entry "
                   "re-addressed; names concretised with spaces, %, #, ?, ;, +, quotes, XML metacharacters, non-ASCII. "
                   "Plus client-driven histories: DavSim (ClientMix) simulates call sequences (Create / RemoveAll / Mkdir / Copy / Move with every option / Open / Stat / "
                   "ReadDir +-recursive) over evolving trees; every call is made on a real webdav.Client whose request crosses a wire-format round trip to the real Handler "
                   "over LocalFileSystem; DavJudge threads the model tree and requires that the request sent is the one the call denotes (method, target, Destination, "
                   "Depth, Overwrite, content, PROPFIND body), that the call fails iff the server refused, and that Stat / ReadDir / Open return exactly the tree's content, "
                   "each member once",
                   checks_c10._mut, ["hostile", "webby"] if ctx.quick() else ["hostile", "webby", "plain"],
                   ["in-memory FileSystem double; in-process transport", "TLC and the CommunityModules Json reader"], more=checks_clihist)

"""C15 (raw XML values preserve the element tree) and C16 (wire primitives round-trip and reject).
Both reach package-internal types: the recorders are test files injected into the repository's packages at test-build
time with `go test -overlay` (nothing is written into /repo)."""
import copy, json, os, random, re
import vlib
from vlib import Machinery, log

OVERLAY = os.path.join(vlib.HARNESS, "overlay")


def _overlay(ctx):
    p = ctx.path("overlay.json")
    json.dump({"Replace": {
        os.path.join(vlib.REPO, "internal", "zz_verif_test.go"): os.path.join(OVERLAY, "internal_verif_test.go.txt"),
        os.path.join(vlib.REPO, "internal", "zz_verif_prims_test.go"): os.path.join(OVERLAY, "internal_prims_test.go.txt"),
        os.path.join(vlib.REPO, "caldav", "zz_verif_test.go"): os.path.join(OVERLAY, "caldav_verif_test.go.txt")}}, open(p, "w"))
    return p


def _gotest(ctx, ov, pkg, mode, infile, outfile):
    r = ctx.run(["go", "test", "-v", "-tags", "verif", "-vet=off", "-count=1", "-overlay", ov, "-run", "TestVerifRecord", pkg], cwd=vlib.REPO,
                env={"VERIF_IN": infile, "VERIF_OUT": outfile, "VERIF_MODE": mode}, timeout=1800, ok=(0, 1))
    m = re.search(r"VERIF-RECORDED (\d+)", r.stdout)
    if r.returncode != 0 or not m:
        raise Machinery("overlay recorder failed in %s (does /repo still compile?):\n%s\n%s" % (pkg, r.stdout[-3000:], r.stderr[-2000:]))
    return int(m.group(1))


def _finish_generic(ctx, judgemod, obsfile, cases, rej, env, mutate, record_case, rerun, extra, extra_sigs=None):
    rnd = random.Random(ctx.seed)
    rows = vlib.read_ndjson(obsfile)
    bad = {ln for _, ln, _ in rej}
    idx = [i for i in range(len(rows)) if (i + 1) not in bad]
    rnd.shuffle(idx)
    can = []
    for i in idx:
        c = mutate(copy.deepcopy(rows[i]), rnd)
        if c is not None and c != rows[i]:
            can.append(c)
        if len(can) >= 200:
            break
    cf = ctx.path("canary", "c.ndjson")
    vlib.write_ndjson(cf, can)
    crej, _ = ctx.judge(judgemod, [cf], env=env, par=1)
    got = {ln for _, ln, _ in crej}
    ctx.cov["canaries_total"] += len(can)
    ctx.cov["canaries_rejected"] += len(got)
    if len(got) != len(can) or not can:
        raise Machinery("%s accepted %d of %d corrupted observations" % (judgemod, len(can) - len(got), len(can)))
    ctx.cov["samples"] += rows[:2]
    sigs = {}
    if rej:
        again = rerun()
        for f, ln, s in rej:
            sig = s[4:]
            g = sigs.setdefault(sig, {"count": 0, "record": None})
            g["count"] += 1
            if g["record"] is None:
                line = open(f).read().splitlines()[ln - 1]
                if again[ln - 1] != line:
                    raise Machinery("re-execution observed something different for %s" % sig)
                obs = json.loads(line)
                g["record"] = {"case": record_case(obs), "observed": obs}
    for k, v in (extra_sigs or {}).items():
        sigs.setdefault(k, v)
    ctx.assumptions += ["encoding/xml's tokenizer underlies the independent reader", "overlay-injected recorder inside the repository's packages (go test -overlay)",
                        "TLC and the CommunityModules Json reader"]
    return ctx.finish(sigs, extra=extra)


def run_c15(ctx, replay):
    q = ctx.quick()
    gen = os.path.dirname(ctx.path("xmlgen", ".x"))
    ov = _overlay(ctx)
    cases_path = os.path.join(gen, "xml.ndjson")
    if replay:
        rec = json.load(open(replay))
        case = rec["record"]["case"]
        if case.get("typed") == "namesake":
            hit = [k for k in _namesakes(ctx) if k == rec["signature"]]
            for k in hit:
                print("VIOLATION property=C15 replay=%s signature=%s" % (replay, k))
            print("REPLAY property=C15 rejected=%d" % len(hit))
            return 1 if hit else 0
        vlib.write_ndjson(cases_path, [case["case"]] if case.get("case") else [])
        of = ctx.path("obs", "replay.ndjson")
        _gotest(ctx, ov, "./internal", "c15", cases_path, of)
        rej, _ = ctx.judge("XmlJudge", [of], env={"CASES": cases_path}, par=1)
        known, new = ctx.classify({s[4:]: {} for _, _, s in rej})
        for s in new:
            print("VIOLATION property=C15 replay=%s signature=%s" % (replay, s))
        print("REPLAY property=C15 rejected=%d (known findings: %d)" % (len(new), len(known)))
        return 1 if new else 0
    out, st = ctx.model_check("XmlGen", "XmlGen" if q else "XmlGen_thorough", env={"OUT": gen}, workers=1, timeout=3000)
    ntrees = int(out.split('<<"COUNTS", ')[1].split(">>")[0].split(", ")[0])
    of = ctx.path("obs", "c15.ndjson")
    n = _gotest(ctx, ov, "./internal", "c15", cases_path, of)
    rej, tot = ctx.judge("XmlJudge", [of], env={"CASES": cases_path}, par=1, heap="6g")
    ctx.cov["traces_validated_against_impl"] += tot

    def mutate(e, rnd):
        if e["k"] == "typed":
            if e["derr"] and e["rerr"]:
                e["rerr"] = False      # both ways failed: a canary must break the agreement, the values do not count here
            else:
                e["viaraw"] = e["viaraw"] + " "
            return e
        ch = rnd.randrange(5)
        if ch == 4 and e.get("reused"):
            e["reused"][0]["name"] = e["reused"][0]["name"] + "x"
            return e
        if ch == 0 and e["marshal"]:
            e["marshal"][0]["ns"] = e["marshal"][0]["ns"] + "x"
        elif ch == 1 and e["second"] and e["second"][0]["kids"]:
            e["second"][0]["kids"] = e["second"][0]["kids"][:-1]
        elif ch == 2:
            e["tokens"] = e["tokens"][:-1]
        else:
            e["finite"] = False
        return e

    cases = None

    def record_case(obs):
        nonlocal cases
        if obs["k"] != "raw":
            return {"case": None, "typed": obs.get("name")}
        if cases is None:
            cases = vlib.read_ndjson(cases_path)
        return {"case": cases[obs["i"] - 1]}

    def rerun():
        f2 = of + ".again"
        _gotest(ctx, ov, "./internal", "c15", cases_path, f2)
        return open(f2).read().splitlines()

    extra = {"evaluations": n, "distinct_nontrivial": ntrees, "lexical_trees": ntrees, "exhaustive": True,
             "rule": "every well-formed lexical element tree of the instance (root / child / grandchild with each kind of namespace declaration: none, default U1/U2, "
                     "undeclaration, prefix bound to U1/U2, a second prefix; prefixed and unprefixed elements and attributes; text, CDATA, comments, mixed content): "
                     "rendered, captured as RawXMLValue, written out by xml.Marshal, through TokenReader into a second value, and embedded in a typed DAV:prop; every output "
                     "re-read by the independent reader must equal Canon(Expand(lexical)); token stream finite, balanced and equal to the model's; typed decoding via the raw "
                     "value equals direct decoding for 14 typed property documents"}
    return _finish_generic(ctx, "XmlJudge", of, cases_path, rej, {"CASES": cases_path}, mutate, record_case, rerun, extra, extra_sigs=_namesakes(ctx))


def _namesakes(ctx):
    """typed decoding of two property types that bear the same Go name in two packages (caldav / carddav max-resource-size,
    supported sets, home sets) in ONE process, in both orders: discovery documents from the independent writer read by both clients"""
    clirec = ctx.go_build("clirec")
    col = {"path": "c1", "name": "n1", "desc": "t1", "max": 2, "sup": "one"}
    def case(srv, layout):
        return {"k": "doc", "srv": srv, "call": "cols", "layout": layout, "objs": [], "cols": [col]}
    sigs = {}
    for order in (("card", "cal"), ("cal", "card")):
        cf = ctx.path("gen", "namesake-%s.ndjson" % order[0])
        vlib.write_ndjson(cf, [case(order[0], "plain"), case(order[1], "plain"), case(order[0], "split"), case(order[1], "prefixes")])
        of = ctx.path("obs", "namesake-%s.ndjson" % order[0])
        ctx.run([clirec, "-mode", "c10", "-in", cf, "-out", of, "-seed", str(ctx.seed), "-conc", "hostile", "-scratch", ctx.scratch], timeout=600)
        rej, tot = ctx.judge("C10Judge", [of], par=1)
        ctx.cov["traces_validated_against_impl"] += tot
        for f, ln, s in rej:
            obs = json.loads(open(f).read().splitlines()[ln - 1])
            sig = "typed-namesake first=%s %s" % (order[0], s[4:])
            g = sigs.setdefault(sig, {"count": 0, "record": {"case": {"case": None, "typed": "namesake", "order": list(order)}, "observed": obs}})
            g["count"] += 1
    return sigs


def run_c16(ctx, replay):
    q = ctx.quick()
    gen = os.path.dirname(ctx.path("primgen", ".x"))
    ov = _overlay(ctx)
    cases_path = os.path.join(gen, "prims.ndjson")

    def record(of):
        a, b = of + ".a", of + ".b"
        n = _gotest(ctx, ov, "./internal", "c16", cases_path, a) + _gotest(ctx, ov, "./caldav", "c16", cases_path, b)
        open(of, "w").write(open(a).read() + open(b).read())
        return n
    if replay:
        case = json.load(open(replay))["record"]["case"]
        vlib.write_ndjson(cases_path, [case["case"]])
        of = ctx.path("obs", "replay.ndjson")
        record(of)
        rej, _ = ctx.judge("PrimsJudge", [of], par=1)
        for _, _, s in rej:
            print("VIOLATION property=C16 replay=%s signature=%s" % (replay, s[4:]))
        print("REPLAY property=C16 rejected=%d" % len(rej))
        return 1 if rej else 0
    out, st = ctx.model_check("Prims", "Prims" if q else "Prims_thorough", env={"OUT": gen}, workers=1, timeout=3000)
    ncases = int(out.split('<<"COUNTS", ')[1].split(">>")[0].split(", ")[0])
    of = ctx.path("obs", "c16.ndjson")
    n = record(of)
    rej, tot = ctx.judge("PrimsJudge", [of], par=1)
    ctx.cov["traces_validated_against_impl"] += tot

    def mutate(e, rnd):
        if e["k"] == "reject":
            if rnd.random() < 0.5:
                e["err"] = False
            else:
                e["zero"] = False
        else:
            if rnd.random() < 0.5:
                e["back"] = e["back"] + "x"
            else:
                e["err"] = True
        return e
    cases = None

    def record_case(obs):
        nonlocal cases
        if cases is None:
            cases = vlib.read_ndjson(cases_path)
        return {"case": cases[obs["ci"] - 1]}

    def rerun():
        f2 = of + ".again"
        record(f2)
        return open(f2).read().splitlines()
    extra = {"evaluations": n, "distinct_nontrivial": ncases, "cases": ncases, "exhaustive": True,
             "rule": "Depth and Overwrite exhaustively; status codes (20 representative in quick, all of 100-999 in thorough) x 5 reason-phrase classes; entity tags and href "
                     "segments as every sequence of up to 2 (thorough 3) character classes out of 15 (quotes, backslashes, %, #, ?, non-ASCII, control, XML metacharacters ...), "
                     "each class concretised two ways, tags through the header form and through XML; HTTP dates and iCalendar UTC date-times over 7 instants x 5 zones; 56 "
                     "near-miss texts that each decoder must refuse with an error and no value"}
    return _finish_generic(ctx, "PrimsJudge", of, cases_path, rej, None, mutate, record_case, rerun, extra)


def run(ctx, replay=None):
    return run_c15(ctx, replay) if ctx.prop == "C15" else run_c16(ctx, replay)

"""C10: calendars, address books and their objects reach the client unchanged."""
import random
import checks_store


def _mut(e, rnd):
    if e["got"]:
        g = e["got"][rnd.randrange(len(e["got"]))]
        k = sorted(g.keys())[rnd.randrange(len(g))]
        g[k] = (g[k] + "x") if isinstance(g[k], str) else (not g[k] if isinstance(g[k], bool) else g[k] + 1)
        return e
    if e["want"]:
        return None
    e["err"] = "boom"
    return e


def run(ctx, replay, generic):
    return generic(ctx, replay, "c10", "C10Gen", "C10Judge", "c10.ndjson",
                   "backend contents over token alphabets (collections with name / description / size limit / supported set; objects with path, tag, time, payload; "
                   "per-href multiget outcomes ok/404/403/500; PUT exchanges) enumerated by TLC; real client <-> real handler <-> backend double in process; the server's raw "
                   "multiget answers read by the independent parser; conformant multi-status documents in 7 layouts (split propstats, unknown extras, 404 propstats, "
                   "misleading prefixes, whitespace, CDATA) fed to the real clients; tokens concretised to hostile strings (XML metacharacters, quotes, non-ASCII, blanks, "
                   "escaped / folded / multi-valued iCalendar and vCard payloads, sub-second non-UTC times); judged by got = want",
                   _mut, ["hostile"] if ctx.quick() else ["hostile", "plain"],
                   ["go-ical / go-vcard encode and compare the payloads (their own fidelity is outside go-webdav)", "backend doubles and in-process transport", "TLC and the CommunityModules Json reader",
                    "store histories: the backend double (an in-memory map; queries answered by the library's own Filter) is the store the model describes"],
                   more=checks_store)

"""C08 (CalDAV) and C09 (CardDAV): queries cross the wire without loss, in RFC form.
The RFC request grammar is a TLA+ module (CalWire / CardWire: independent writer + reader over abstract XML); TLC checks
reader(writer(q)) = q over the bounded universe and emits every query with its document (F0/F1); the harness renders the
documents in several lexical styles into the real handler and asks the real client to send every query (F2); TLC judges
what the backend received and what the client put on the wire (F3)."""
import copy, json, os, random
import vlib
from vlib import Machinery, log

PROTO = {"C08": ("cal", "CalWireGen", "CalWireJudge"), "C09": ("card", "CardWireGen", "CardWireJudge")}


def _rec(ctx, binp, args):
    r = ctx.run([binp] + [str(a) for a in args], timeout=1800)
    return json.loads(r.stdout.strip().splitlines()[-1])["recorded"]


def _mutations(e, rnd):
    c = copy.deepcopy(e)
    k = e["k"]
    if k == "srv":
        if e["got"]:
            g = c["got"][0]
            choice = rnd.randrange(3)
            if choice == 0:
                c["st"] = 500
            elif choice == 1:
                c["got"] = []
            else:
                f = g.get("filter") or g
                if "name" in f:
                    f["name"] = f["name"] + "X"
                elif "test" in f:
                    f["test"] = "allof" if f["test"] != "allof" else "anyof"
            return c
        c["st"] = 207 if c["st"] != 207 else 500
        return c
    if k == "cli":
        if e["doc"]:
            d = c["doc"][0]
            if d["kids"]:
                if rnd.random() < 0.5:
                    d["kids"] = d["kids"][::-1] if len(d["kids"]) > 1 else []
                else:
                    d["kids"][-1]["ns"] = "DAV:" if d["kids"][-1]["ns"] != "DAV:" else "urn:x"
                return c
        return None
    if k == "mgsrv":
        if e["paths"]:
            c["paths"] = c["paths"][:-1]
            return c
        return None
    if k == "mgcli":
        if e["doc"]:
            c["doc"][0]["kids"] = c["doc"][0]["kids"][:-1]
            return c
        return None
    if k == "bad":
        c["st"] = 207
        return c
    return None


def run(ctx, replay=None):
    if ctx.prop == "C13":
        import checks_robust
        return checks_robust.run(ctx, replay)
    proto, genmod, judgemod = PROTO[ctx.prop]
    q = ctx.quick()
    binp = ctx.go_build("wirerec")
    gen = os.path.dirname(ctx.path("wiregen", ".x"))
    if replay:
        case = json.load(open(replay))["record"]["case"]
        for name in ("queries", "multigets", "invalid"):
            vlib.write_ndjson(os.path.join(gen, name + ".ndjson"), case.get(name, []))
        of = ctx.path("obs", "replay.ndjson")
        _rec(ctx, binp, ["-proto", proto, "-dir", gen, "-out", of, "-conc", case.get("conc", "meta"), "-zone", case.get("zone", 0)])
        rej, _ = ctx.judge(judgemod, [of], env={"DIR": gen}, par=1)
        for _, _, s in rej:
            print("VIOLATION property=%s replay=%s signature=%s" % (ctx.prop, replay, s[4:]))
        print("REPLAY property=%s rejected=%d" % (ctx.prop, len(rej)))
        return 1 if rej else 0
    out, st = ctx.model_check(genmod, genmod if q else genmod + "_thorough", env={"OUT": gen}, workers=1, timeout=3000)
    counts = [int(x) for x in out.split('<<"COUNTS", ')[1].split(">>")[0].split(", ")]
    nq, nm, nbad = counts
    variants = [("meta", 0), ("odd", 10800), ("empty", 0)] if q else [("plain", 0), ("meta", 0), ("odd", 10800), ("meta", -34200), ("empty", 3600)]
    if proto == "card":
        variants = [(c, 0) for c in dict.fromkeys(c for c, _ in variants)]
    # large universes are judged in chunks (each judge process reads its chunk's cases and observations only)
    CH = 20000
    qlines = open(os.path.join(gen, "queries.ndjson")).read().splitlines()
    dirs = [gen]
    if len(qlines) > CH:
        dirs = []
        for k in range(0, len(qlines), CH):
            d = os.path.join(gen, "chunk%02d" % (k // CH))
            os.makedirs(d, exist_ok=True)
            open(os.path.join(d, "queries.ndjson"), "w").write("\n".join(qlines[k:k + CH]) + "\n")
            for name in ("multigets", "invalid"):
                src = open(os.path.join(gen, name + ".ndjson")).read().splitlines()
                # the small universes ride along with the first chunk; the others keep one case so that the file is a valid sequence
                open(os.path.join(d, name + ".ndjson"), "w").write("\n".join(src if k == 0 else src[:1]) + "\n")
            dirs.append(d)
    total = 0
    universes = []
    obsfiles = []
    fdir = {}
    for conc, zone in variants:
        n = 0
        for di, d in enumerate(dirs):
            of = ctx.path("obs", "%s-%s-%d-%02d.ndjson" % (proto, conc, zone, di))
            n += _rec(ctx, binp, ["-proto", proto, "-dir", d, "-out", of, "-conc", conc, "-zone", zone])
            obsfiles.append((of, conc, zone))
            fdir[of] = d
        total += n
        universes.append({"concretisation": conc, "zone_offset_s": zone, "observations": n})
    rej, tot = ctx.judge(judgemod, [f for f, _, _ in obsfiles], envs={f: {"DIR": fdir[f]} for f in fdir})
    ctx.cov["traces_validated_against_impl"] += tot
    meta = {f: (c, z) for f, c, z in obsfiles}
    # canaries
    rnd = random.Random(ctx.seed)
    rows = vlib.read_ndjson(obsfiles[0][0])
    rejected_lines = {ln for f, ln, _ in rej if f == obsfiles[0][0]}
    rnd2 = list(range(len(rows)))
    rnd.shuffle(rnd2)
    can = []
    for i in rnd2:
        if (i + 1) in rejected_lines:
            continue
        c = _mutations(rows[i], rnd)
        if c is not None:
            can.append(c)
        if len(can) >= 300:
            break
    cf = ctx.path("canary", "wire.ndjson")
    vlib.write_ndjson(cf, can)
    crej, _ = ctx.judge(judgemod, [cf], env={"DIR": fdir[obsfiles[0][0]]}, par=1)
    ctx.cov["canaries_total"] += len(can)
    ctx.cov["canaries_rejected"] += len({ln for _, ln, _ in crej})
    if len({ln for _, ln, _ in crej}) != len(can):
        missed = sorted(set(range(1, len(can) + 1)) - {ln for _, ln, _ in crej})[0]
        raise Machinery("%s accepted %d of %d corrupted observations, e.g. %s" % (judgemod, len(can) - len(crej), len(can), json.dumps(can[missed - 1])[:300]))
    ctx.cov["samples"].append(rows[0])
    ctx.cov["samples"].append(rows[1])
    sigs = {}
    if rej:
        casesof = {}
        kindfile = {"srv": "queries", "cli": "queries", "mgsrv": "multigets", "mgcli": "multigets", "bad": "invalid"}
        again = {}
        for f, ln, s in rej:
            conc, zone = meta[f]
            if f not in again:
                f2 = f + ".again"
                _rec(ctx, binp, ["-proto", proto, "-dir", fdir[f], "-out", f2, "-conc", conc, "-zone", zone])
                again[f] = open(f2).read().splitlines()
            line = open(f).read().splitlines()[ln - 1] if False else None
            sig = s[4:]
            g = sigs.setdefault(sig, {"count": 0, "record": None})
            g["count"] += 1
            if g["record"] is None:
                obs_line = _line(f, ln)
                if again[f][ln - 1] != obs_line:
                    raise Machinery("re-execution observed something different for %s" % sig)
                obs = json.loads(obs_line)
                if obs["k"] == "mgself":
                    # not driven by a case file: the recorder makes this observation on every run
                    g["record"] = {"case": {"queries": [], "multigets": [], "invalid": [], "conc": conc, "zone": zone}, "observed": obs}
                    continue
                kf = kindfile[obs["k"]]
                if fdir[f] not in casesof:
                    casesof[fdir[f]] = {n: vlib.read_ndjson(fdir[f] + "/" + n + ".ndjson") for n in ("queries", "multigets", "invalid")}
                cases = casesof[fdir[f]]
                case = {"queries": [], "multigets": [], "invalid": [], "conc": conc, "zone": zone}
                case[kf] = [cases[kf][obs["i"] - 1]]
                g["record"] = {"case": case, "observed": obs}
    extra = {"evaluations": total, "distinct_nontrivial": (2 * nq + 5 * nm + 4 * nbad), "universes": universes,
             "queries": nq, "multigets": nm, "documents_outside_the_rfc": nbad, "lexical_styles": 4, "exhaustive": True,
             "rule": "every query / multiget of the TLC-enumerated universe in both directions (document rendered in 4 lexical styles round-robin into the real handler; "
                     "real client asked to send it and its body re-read by the independent reader), every invalid document in all 4 styles; under several token "
                     "concretisations (blanks, XML metacharacters, CDATA terminators, non-ASCII)" + (" and time zones" if proto == "cal" else "")}
    ctx.assumptions += ["harness renderer / reader (xmlt) built on encoding/xml's tokenizer; exercised by judge canaries", "TLC and the CommunityModules Json reader"]
    return ctx.finish(sigs, extra=extra)


_cache = {}


def _line(f, ln):
    if f not in _cache:
        _cache[f] = open(f).read().splitlines()
    return _cache[f][ln - 1]

"""C06 (CalDAV filter evaluation), C07 (CardDAV filter evaluation, limit, projection), C19 (ValidateCalendarObject):
pure decision procedures. The RFC rules are TLA+ operators (CalFilter, CardFilter); TLC checks their internal laws and
enumerates the complete bounded input spaces (F0/F1); the real Go functions are executed on every case (F2); TLC judges
every verdict (F3)."""
import copy, json, os, random
import vlib
from vlib import Machinery, log


def _rec(ctx, binp, args, timeout=1800):
    r = ctx.run([binp] + [str(a) for a in args], timeout=timeout)
    return json.loads(r.stdout.strip().splitlines()[-1])["recorded"]


def _sample(ctx, f, n=2):
    with open(f) as fh:
        for i, line in enumerate(fh):
            if i < n:
                j = json.loads(line)
                if "vs" in j and len(j["vs"]) > 24:
                    j["vs"] = j["vs"][:24] + ["..."]
                ctx.cov["samples"].append(j)


def _canary(ctx, module, env, src, mutate, want=200, skip=()):
    """corrupt accepted observations (lines in skip were rejected: corrupting those could make them right)"""
    rows = [r for i, r in enumerate(vlib.read_ndjson(src)) if (i + 1) not in skip]
    rnd = random.Random(ctx.seed)
    rnd.shuffle(rows)
    out = []
    for e in rows:
        c = mutate(copy.deepcopy(e), rnd)
        if c is not None:
            out.append(c)
        if len(out) >= want:
            break
    if not out:
        raise Machinery("no canary could be built from %s" % src)
    p = ctx.path("canary", "c%d.ndjson" % (ctx.counter + 1))
    vlib.write_ndjson(p, out)
    rej, _ = ctx.judge(module, [p], env=env, par=1)
    lines = {ln for _, ln, _ in rej}
    ctx.cov["canaries_total"] += len(out)
    ctx.cov["canaries_rejected"] += len(lines)
    if len(lines) != len(out):
        raise Machinery("%s accepted %d of %d corrupted observations" % (module, len(out) - len(lines), len(out)))


def _confirm_same(ctx, first, again):
    """re-execution must observe the same thing: compare the observation lines of two independent recorder runs"""
    a = open(first).read()
    b = open(again).read()
    if a != b:
        raise Machinery("re-execution of %s observed something different: rejects not reported" % os.path.basename(first))


# ------------------------------------------------------------------ C06
def run_c06(ctx, replay):
    q = ctx.quick()
    binp = ctx.go_build("calrec")
    gen = os.path.dirname(ctx.path("calgen", ".x"))
    if replay:
        data = json.load(open(replay))
        case = data["record"]["case"]
        vlib.write_ndjson(os.path.join(gen, "replay.ndjson"), [case["pair"]])
        od = ctx.path("obs", "replay", ".x")
        _rec(ctx, binp, ["-mode", "pairs", "-pairs", os.path.join(gen, "replay.ndjson"), "-out", os.path.dirname(od), "-tag", "replay"] + case.get("args", []))
        rej, _ = ctx.judge("CalJudge", [os.path.join(os.path.dirname(od), "obs-pairs-replay.ndjson")], env={"DIR": gen, "KIND": "replay"}, par=1)
        for _, _, s in rej:
            print("VIOLATION property=C06 replay=%s signature=%s" % (replay, s[4:]))
        print("REPLAY property=C06 rejected=%d" % len(rej))
        return 1 if rej else 0
    out, st = ctx.model_check("CalGen", "CalGen" if q else "CalGen_thorough", env={"OUT": gen}, workers=1)
    counts = [int(x) for x in out.split('<<"COUNTS", ')[1].split(">>")[0].split(", ")]
    nf, nc, nov, nrec, nptr = counts
    rejects = []
    total = 0
    universes = []

    def product(tag, rerun=False):
        od = os.path.dirname(ctx.path("obs", "prod-" + tag + ("-again" if rerun else ""), ".x"))
        n = _rec(ctx, binp, ["-mode", "product", "-filters", gen + "/filters.ndjson", "-cals", gen + "/cals.ndjson", "-out", od, "-shards", vlib.NCPU, "-tag", tag])
        return od, n

    od, n = product("main")
    files = sorted(os.path.join(od, f) for f in os.listdir(od))
    universes.append({"universe": "filter-trees x calendars", "filters": nf, "calendars": nc, "pairs": nf * nc, "lines": n})
    rej, tot = ctx.judge("CalJudge", files, env={"DIR": gen, "KIND": "vec"})
    total += nf * nc
    rejects += [(f, ln, s, "vec", []) for f, ln, s in rej]
    _sample(ctx, files[0], 1)
    ctx.cov["traces_validated_against_impl"] += n

    def mut_vec(e, rnd):
        if e["k"] != "vec":
            return None
        j = rnd.randrange(len(e["vs"]))
        e["vs"][j] = 1 - e["vs"][j] if e["vs"][j] in (0, 1) else 0
        return e
    _canary(ctx, "CalJudge", {"DIR": gen, "KIND": "vec"}, files[0], mut_vec, want=60, skip={ln for f, ln, _ in rej if f == files[0]})

    def mut_fl(e, rnd):
        if e["k"] != "vec" or not e["fl"]:
            return None
        e["fl"] = e["fl"][1:]
        return e
    _canary(ctx, "CalJudge", {"DIR": gen, "KIND": "vec"}, files[1 % len(files)], mut_fl, want=30, skip={ln for f, ln, _ in rej if f == files[1 % len(files)]})

    pair_runs = [("overlap", "overlap", ["-unit", 3600]), ("overlap", "overlap-z3", ["-unit", 3600, "-zone", 10800]),
                 ("overlap", "overlap-z9", ["-unit", 1800, "-zone", -34200]), ("rec", "rec-daily", ["-unit", 43200, "-freq", "DAILY"]),
                 ("rec", "rec-weekly", ["-unit", 302400, "-freq", "WEEKLY"]), ("proptr", "proptr", ["-unit", 3600]),
                 ("proptr", "proptr-z3", ["-unit", 60, "-zone", 10800])]
    pod = os.path.dirname(ctx.path("obs", "pairs", ".x"))
    for kind, tag, args in pair_runs:
        n = _rec(ctx, binp, ["-mode", "pairs", "-pairs", "%s/%s.ndjson" % (gen, kind), "-out", pod, "-tag", tag] + args)
        f = os.path.join(pod, "obs-pairs-%s.ndjson" % tag)
        rej, tot = ctx.judge("CalJudge", [f], env={"DIR": gen, "KIND": kind}, par=1)
        total += n
        universes.append({"universe": tag, "pairs": n})
        rejects += [(f2, ln, s, kind, args) for f2, ln, s in rej]
        ctx.cov["traces_validated_against_impl"] += n
        if tag in ("overlap", "rec-daily", "proptr"):
            def mut_pair(e, rnd):
                e["v"] = 1 - e["v"] if e["v"] in (0, 1) else 0
                return e
            _canary(ctx, "CalJudge", {"DIR": gen, "KIND": kind}, f, mut_pair, want=100, skip={ln for _, ln, _ in rej})
            _sample(ctx, f, 1)

    sigs = {}
    if rejects:
        # confirmation: run the recorders again from scratch, the observations must be identical
        od2, _ = product("main", rerun=True)
        for f in sorted(os.listdir(od)):
            _confirm_same(ctx, os.path.join(od, f), os.path.join(od2, f))
        filters = vlib.read_ndjson(gen + "/filters.ndjson")
        cals = vlib.read_ndjson(gen + "/cals.ndjson")
        for f, ln, s, kind, args in rejects:
            sig = s[4:]
            g = sigs.setdefault(sig, {"count": 0, "record": None})
            g["count"] += 1
            if g["record"] is None:
                obs = json.loads(open(f).read().splitlines()[ln - 1])
                if kind == "vec":
                    extra = ctx.extras.get((f, ln, s), "1 1").split()
                    pair = {"f": filters[obs["f"] - 1], "c": cals[int(extra[0]) - 1]}
                    args = []
                else:
                    pair = vlib.read_ndjson("%s/%s.ndjson" % (gen, kind))[obs["i"] - 1]
                g["record"] = {"case": {"pair": pair, "args": [str(a) for a in args]}, "observed": obs}
    extra = {"evaluations": total, "distinct_nontrivial": total, "universes": universes, "exhaustive": True,
             "rule": "TLC enumerates every filter tree (depth <= 3, is-not-defined / text-match x negate / param-filter at every level) and every calendar of the bounded "
                     "instance; every placement of range start/end, DTSTART and DTEND/DURATION on a six-point line for each way an event states its end (closed, "
                     "open-ended, open-start ranges; three zones); recurring DAILY/WEEKLY x COUNT 1-4 x three durations; property time ranges. "
                     "Each pair is one execution of the real caldav.Match; caldav.Filter is judged on a 60-object prefix per filter."}
    ctx.assumptions += ["go-ical / rrule-go construct and expand the calendar values", "TLC and the CommunityModules Json reader"]
    return ctx.finish(sigs, extra=extra)


# ------------------------------------------------------------------ C07
def run_c07(ctx, replay):
    q = ctx.quick()
    binp = ctx.go_build("cardrec")
    gen = os.path.dirname(ctx.path("cardgen", ".x"))
    if replay:
        case = json.load(open(replay))["record"]["case"]
        od = os.path.dirname(ctx.path("obs", "replay", ".x"))
        if case["kind"] == "f":
            vlib.write_ndjson(gen + "/fcases.ndjson", [case["fcase"]])
            vlib.write_ndjson(gen + "/kinds.ndjson", case["kinds"])
            _rec(ctx, binp, ["-mode", "filter", "-fcases", gen + "/fcases.ndjson", "-kinds", gen + "/kinds.ndjson", "-out", od + "/r.ndjson"] + case.get("args", []))
        else:
            vlib.write_ndjson(gen + "/q1.ndjson", [case["q"]])
            vlib.write_ndjson(gen + "/cards1.ndjson", [case["card"]])
            _rec(ctx, binp, ["-mode", "match", "-queries", gen + "/q1.ndjson", "-cards", gen + "/cards1.ndjson", "-out", od + "/r.ndjson"] + case.get("args", []))
        rej, _ = ctx.judge("CardJudge", [od + "/r.ndjson"], env={"DIR": gen, "KIND": "f" if case["kind"] == "f" else "m1"}, par=1)
        for _, _, s in rej:
            print("VIOLATION property=C07 replay=%s signature=%s" % (replay, s[4:]))
        print("REPLAY property=C07 rejected=%d" % len(rej))
        return 1 if rej else 0
    out, st = ctx.model_check("CardGen", "CardGen" if q else "CardGen_thorough", env={"OUT": gen}, workers=1)
    counts = [int(x) for x in out.split('<<"COUNTS", ')[1].split(">>")[0].split(", ")]
    nq1, nc1, nq2, nc2, nfc, _ = counts
    od = os.path.dirname(ctx.path("obs", "card", ".x"))
    alphas = [("id", []), ("meta", ["-alpha", "a=<&,b=ä "])] if q else [("id", []), ("meta", ["-alpha", "a=<&,b=ä "]), ("case", ["-alpha", "a=A,b=a"]),
                                                                            ("long", ["-alpha", "a=" + "xy" * 40 + ",b=" + "xY" * 40])]
    rejects = []
    total = 0
    universes = []
    for tag, aargs in alphas:
        runs = [("m1", ["-mode", "match", "-queries", gen + "/q1.ndjson", "-cards", gen + "/cards1.ndjson"], nq1 * nc1),
                ("m2", ["-mode", "match", "-queries", gen + "/q2.ndjson", "-cards", gen + "/cards2.ndjson"], nq2 * nc2),
                ("f", ["-mode", "filter", "-fcases", gen + "/fcases.ndjson", "-kinds", gen + "/kinds.ndjson"], nfc)]
        for kind, args, cells in runs:
            f = os.path.join(od, "%s-%s.ndjson" % (kind, tag))
            n = _rec(ctx, binp, args + ["-out", f, "-tag", tag] + aargs)
            rej, _ = ctx.judge("CardJudge", [f], env={"DIR": gen, "KIND": kind}, par=1)
            total += cells
            universes.append({"universe": kind + "/" + tag, "cells": cells, "lines": n})
            rejects += [(f2, ln, s, kind, args, aargs) for f2, ln, s in rej]
            ctx.cov["traces_validated_against_impl"] += n
            if tag == "id":
                _sample(ctx, f, 1)
                if kind == "f":
                    def mut_f(e, rnd):
                        if e["k"] != "filter":
                            return None
                        if e["idx"]:
                            if rnd.random() < 0.5:
                                e["idx"] = e["idx"][:-1]; e["names"] = e["names"][:-1]
                            else:
                                e["names"][0] = e["names"][0] + ["ZZ"]
                        else:
                            e["idx"] = [1]; e["names"] = [["VERSION"]]
                        return e
                    _canary(ctx, "CardJudge", {"DIR": gen, "KIND": kind}, f, mut_f, want=150, skip={ln for _, ln, _ in rej})
                else:
                    def mut_m(e, rnd):
                        if e["k"] != "vec":
                            return None
                        # flip to a verdict that is never acceptable: panic code
                        j = rnd.randrange(len(e["vs"]))
                        e["vs"][j] = 3
                        return e
                    _canary(ctx, "CardJudge", {"DIR": gen, "KIND": kind}, f, mut_m, want=150, skip={ln for _, ln, _ in rej})
    sigs = {}
    if rejects:
        qs = {"m1": vlib.read_ndjson(gen + "/q1.ndjson"), "m2": vlib.read_ndjson(gen + "/q2.ndjson")}
        cs = {"m1": vlib.read_ndjson(gen + "/cards1.ndjson"), "m2": vlib.read_ndjson(gen + "/cards2.ndjson")}
        fcs = vlib.read_ndjson(gen + "/fcases.ndjson")
        kinds = vlib.read_ndjson(gen + "/kinds.ndjson")
        done = set()
        for f, ln, s, kind, args, aargs in rejects:
            if f not in done:
                f2 = f + ".again"
                _rec(ctx, binp, args + ["-out", f2, "-tag", os.path.basename(f).split("-", 1)[1][:-7]] + aargs)
                _confirm_same(ctx, f, f2)
                done.add(f)
            sig = s[4:]
            g = sigs.setdefault(sig, {"count": 0, "record": None})
            g["count"] += 1
            if g["record"] is None:
                obs = json.loads(open(f).read().splitlines()[ln - 1])
                if kind == "f":
                    case = {"kind": "f", "fcase": fcs[obs["c"] - 1], "kinds": kinds, "args": aargs} if obs["k"] == "filter" else {"kind": "f", "fcase": fcs[0], "kinds": kinds, "args": aargs}
                else:
                    j = int(ctx.extras.get((f, ln, s), "1").split()[0])
                    case = {"kind": kind, "q": qs[kind][obs.get("q", 1) - 1], "card": cs[kind][j - 1], "args": aargs}
                g["record"] = {"case": case, "observed": obs}
    extra = {"evaluations": total, "distinct_nontrivial": total, "universes": universes, "exhaustive": True,
             "rule": "TLC enumerates outer test x inner test x match type (each incl. unset and an invalid value) x negate x is-not-defined x presence x texts/values "
                     "over a two-letter alphabet for one prop-filter with up to two text-matches, 0-2 prop-filters over two properties, and card lists of length 0-4 x "
                     "Limit -1..6 x projections; every cell is one execution of the real carddav.Match / carddav.Filter, repeated under several alphabets"}
    ctx.assumptions += ["go-vcard constructs the card values", "TLC and the CommunityModules Json reader"]
    return ctx.finish(sigs, extra=extra)


# ------------------------------------------------------------------ C19
def run_c19(ctx, replay):
    q = ctx.quick()
    binp = ctx.go_build("calrec")
    gen = os.path.dirname(ctx.path("valgen", ".x"))
    valout = gen + "/val.ndjson"
    od = os.path.dirname(ctx.path("obs", "val", ".x"))
    if replay:
        case = json.load(open(replay))["record"]["case"]
        vlib.write_ndjson(valout, [case["cal"]])
        _rec(ctx, binp, ["-mode", "validate", "-cals", valout, "-out", od, "-tag", case.get("tag", "")])
        rej, _ = ctx.judge("ValJudge", [od + "/obs-validate.ndjson"], env={"CALS": valout}, par=1)
        for _, _, s in rej:
            print("VIOLATION property=C19 replay=%s signature=%s" % (replay, s[4:]))
        print("REPLAY property=C19 rejected=%d" % len(rej))
        return 1 if rej else 0
    # both tiers are exhaustive over <= 4 components (108 482 calendars)
    out, st = ctx.model_check("CardGen", "CardGen_thorough", env={"OUT": gen, "VALOUT": valout}, workers=1)
    ncal = int(out.split('<<"COUNTS", ')[1].split(">>")[0].split(", ")[5])
    rejects = []
    total = 0
    universes = []
    tags = ["", "special"] if q else ["", "special", "prefix"]
    for tag in tags:
        d = os.path.join(od, "t" + tag)
        n = _rec(ctx, binp, ["-mode", "validate", "-cals", valout, "-out", d, "-tag", tag])
        if n != ncal:
            raise Machinery("recorder executed %d of %d calendars" % (n, ncal))
        # shard the observation file for parallel judging is not possible (the judge checks order and count): split with offsets instead
        f = d + "/obs-validate.ndjson"
        rej, _ = ctx.judge("ValJudge", [f], env={"CALS": valout}, par=1, heap="6g")
        total += n
        universes.append({"universe": "calendars/" + (tag or "id"), "calendars": n})
        rejects += [(f2, ln, s, tag) for f2, ln, s in rej]
        ctx.cov["traces_validated_against_impl"] += n
        if tag == "":
            _sample(ctx, f, 2)
    # canaries on a prefix of the universe (the judge checks order and count, so keep a prefix)
    cals = []
    with open(valout) as fh:
        for i, line in enumerate(fh):
            if i >= 400:
                break
            cals.append(json.loads(line))
    cp = gen + "/val-prefix.ndjson"
    vlib.write_ndjson(cp, cals)
    rows = []
    tfile = os.path.join(od, "t", "obs-validate.ndjson")
    already = {ln for f2, ln, _, _ in rejects if f2 == tfile}
    with open(tfile) as fh:
        for i, line in enumerate(fh):
            if i >= 400:
                break
            e = json.loads(line)
            if (i + 1) in already:
                pass        # rejected as it stands (a corruption could "repair" it): kept, it must be rejected again
            elif i % 3 == 0:
                e["ok"] = not e["ok"]
            elif i % 3 == 1:
                e["uid"] = "u2" if e["uid"] != "u2" else "u1"
            else:
                e["type"] = "VTODO" if e["type"] != "VTODO" else "VEVENT"
            rows.append(e)
    canf = ctx.path("canary", "val.ndjson")
    vlib.write_ndjson(canf, rows)
    rej, _ = ctx.judge("ValJudge", [canf], env={"CALS": cp}, par=1)
    ctx.cov["canaries_total"] += len(rows)
    ctx.cov["canaries_rejected"] += len({ln for _, ln, _ in rej})
    if len({ln for _, ln, _ in rej}) != len(rows):
        raise Machinery("ValJudge accepted %d corrupted observations" % (len(rows) - len(rej)))
    sigs = {}
    if rejects:
        allc = vlib.read_ndjson(valout)
        for f, ln, s, tag in rejects:
            sig = s[4:]
            g = sigs.setdefault(sig, {"count": 0, "record": None})
            g["count"] += 1
            if g["record"] is None:
                obs = json.loads(open(f).read().splitlines()[ln - 1])
                d2 = os.path.join(od, "again" + tag)
                vlib.write_ndjson(gen + "/one.ndjson", [allc[obs["i"] - 1]])
                _rec(ctx, binp, ["-mode", "validate", "-cals", gen + "/one.ndjson", "-out", d2, "-tag", tag])
                o2 = vlib.read_ndjson(d2 + "/obs-validate.ndjson")[0]
                if any(o2[k] != obs[k] for k in ("ok", "type", "uid", "panic")):
                    raise Machinery("re-execution observed something different for %s" % sig)
                g["record"] = {"case": {"cal": allc[obs["i"] - 1], "tag": tag}, "observed": obs}
    extra = {"evaluations": total, "distinct_nontrivial": ncal, "universes": universes, "exhaustive": True,
             "rule": "every sequence of <= 4 components over {VEVENT,VTODO,VJOURNAL,VFREEBUSY,VTIMEZONE} x UID {absent,u1,u2}, with and without METHOD (108 482 calendars), "
                     "each under several UID concretisations; the judge also checks that every calendar of the instance was executed exactly once, in order"}
    ctx.assumptions += ["go-ical constructs the calendar values", "TLC and the CommunityModules Json reader"]
    return ctx.finish(sigs, extra=extra)


def run(ctx, replay=None):
    return {"C06": run_c06, "C07": run_c07, "C19": run_c19}[ctx.prop](ctx, replay)

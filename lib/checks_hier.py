"""C11 (PROPFIND accounting and Depth scope) and C12 (routing and discovery under any mount prefix).
Hier.tla holds the level / route / scope / accounting rules; HierGen enumerates the request universes and checks the
laws of Scope (F0/F1); hierrec runs them on the real handlers with recording backends and on the real clients over a
real HTTP server (F2); HierJudge judges every observation (F3)."""
import copy, json, os, random
import vlib
from vlib import Machinery, log


def _rec(ctx, binp, args):
    r = ctx.run([binp] + [str(a) for a in args], timeout=1800)
    return json.loads(r.stdout.strip().splitlines()[-1])["recorded"]


def _mutate(e, rnd):
    c = copy.deepcopy(e)
    if e["k"] == "route":
        required = [x for x in e["calls"] if x["path"] == e["reqpath"] and (x["op"].startswith(("Get", "Put", "Delete", "Create", "Query")))]
        if required:
            if rnd.random() < 0.5:
                c["calls"] = [x for x in c["calls"] if x not in required]
            else:
                for x in c["calls"]:
                    if x in required:
                        x["path"] = x["path"] + "x"
            return c
        if e["m"] in ("MKCOL", "OPTIONS", "WELLKNOWN") or (e["m"] == "PROPFIND" and len(e["path"]) <= 2) or (e["m"] == "DELETE" and e["srv"] == "card"):
            c["st"] = 299
            return c
        return None
    if e["k"] == "chain":
        if rnd.random() < 0.5:
            c["principal"] = c["principal"] + "x"
        else:
            c["home"] = c["home"].rstrip("/")
        return c
    if e["k"] == "pf":
        r = c["prop"]["resps"]
        if not r:
            return None
        ch = rnd.randrange(4)
        if ch == 0 and r[0]["props"]:
            r[0]["props"].append(dict(r[0]["props"][0]))
        elif ch == 1:
            c["prop"]["resps"] = r[:-1] if e["res"] != "ROOT" else r + r
        elif ch == 2:
            r[0]["nhref"] = 2
        else:
            c["noform"] = 207
        return c
    return None


def run(ctx, replay=None):
    prop = ctx.prop
    q = ctx.quick()
    binp = ctx.go_build("hierrec")
    gen = os.path.dirname(ctx.path("hiergen", ".x"))
    modes = ["pf"] if prop == "C11" else ["route", "chain"]
    infile = {"route": "route.ndjson", "chain": "chains.ndjson", "pf": "pf.ndjson"}
    if replay:
        case = json.load(open(replay))["record"]["case"]
        vlib.write_ndjson(os.path.join(gen, "one.ndjson"), [case["req"]])
        of = ctx.path("obs", "replay.ndjson")
        _rec(ctx, binp, ["-mode", case["mode"], "-in", os.path.join(gen, "one.ndjson"), "-out", of, "-seg", case["seg"], "-scratch", ctx.scratch])
        rej, _ = ctx.judge("HierJudge", [of], env={"PROP": prop}, par=1)
        for _, _, s in rej:
            print("VIOLATION property=%s replay=%s signature=%s" % (prop, replay, s[4:]))
        print("REPLAY property=%s rejected=%d" % (prop, len(rej)))
        return 1 if rej else 0
    out, st = ctx.model_check("HierGen", "HierGen" if q else "HierGen_thorough", env={"OUT": gen}, workers=1)
    counts = [int(x) for x in out.split('<<"COUNTS", ')[1].split(">>")[0].split(", ")]
    ncase = {"route": counts[0], "chain": counts[1], "pf": counts[2]}
    segs = ["plain", "same", "special", "prefix"]
    files = []
    total = 0
    universes = []
    for mode in modes:
        for seg in segs:
            if mode == "pf" and q and seg == "special":
                continue
            of = ctx.path("obs", "%s-%s.ndjson" % (mode, seg))
            n = _rec(ctx, binp, ["-mode", mode, "-in", os.path.join(gen, infile[mode]), "-out", of, "-seg", seg, "-scratch", ctx.scratch])
            total += n
            files.append((of, mode, seg))
            universes.append({"universe": mode, "segments": seg, "observations": n})
    rej, tot = ctx.judge("HierJudge", [f for f, _, _ in files], env={"PROP": prop})
    ctx.cov["traces_validated_against_impl"] += tot
    # canaries
    rnd = random.Random(ctx.seed)
    can = []
    for f, mode, seg in files[:2]:
        rows = vlib.read_ndjson(f)
        bad = {ln for ff, ln, _ in rej if ff == f}
        idx = list(range(len(rows)))
        rnd.shuffle(idx)
        k = 0
        for i in idx:
            if (i + 1) in bad:
                continue
            c = _mutate(rows[i], rnd)
            if c is not None and c != rows[i]:
                can.append(c)
                k += 1
            if k >= 150:
                break
        ctx.cov["samples"].append(rows[0] if mode != "pf" else {"k": "pf", "srv": rows[0]["srv"], "res": rows[0]["res"], "depth": rows[0]["depth"], "names": rows[0]["names"], "prop": rows[0]["prop"]})
    cf = ctx.path("canary", "hier.ndjson")
    vlib.write_ndjson(cf, can)
    crej, _ = ctx.judge("HierJudge", [cf], env={"PROP": prop}, par=1)
    ctx.cov["canaries_total"] += len(can)
    got = {ln for _, ln, _ in crej}
    ctx.cov["canaries_rejected"] += len(got)
    if len(got) != len(can):
        missed = sorted(set(range(1, len(can) + 1)) - got)[0]
        raise Machinery("HierJudge accepted %d of %d corrupted observations, e.g. %s" % (len(can) - len(got), len(can), json.dumps(can[missed - 1])[:500]))
    sigs = {}
    if rej:
        meta = {f: (m, s) for f, m, s in files}
        cases = {m: vlib.read_ndjson(os.path.join(gen, infile[m])) for m in modes}
        again = {}
        for f, ln, s in rej:
            mode, seg = meta[f]
            sig = s[4:]
            g = sigs.setdefault(sig, {"count": 0, "record": None})
            g["count"] += 1
            if g["record"] is None:
                if f not in again:
                    f2 = f + ".again"
                    _rec(ctx, binp, ["-mode", mode, "-in", os.path.join(gen, infile[mode]), "-out", f2, "-seg", seg, "-scratch", ctx.scratch])
                    again[f] = open(f2).read().splitlines()
                line = open(f).read().splitlines()[ln - 1]
                if again[f][ln - 1] != line:
                    raise Machinery("re-execution observed something different for %s" % sig)
                per = 2 if mode == "chain" else 1
                g["record"] = {"case": {"mode": mode, "seg": seg, "req": cases[mode][(ln - 1) // per]}, "observed": json.loads(line)}
    extra = {"evaluations": total, "distinct_nontrivial": total, "universes": universes, "exhaustive": True,
             "rule": ("every (server, resource of the hierarchy incl. root and the principal helper and the file server, Depth, requested name list with duplicates / unknown / "
                      "foreign-namespace names, layout) case: propname, allprop, prop, empty-body and no-form requests, parsed by a strict reader"
                      if prop == "C11" else
                      "every (server, prefix of 0-3 segments, prefix spelling, path of level 0-5 on the own and on foreign chains, trailing slash, method, Depth) request with "
                      "recording backends, and the real clients' discovery chain (from the root and via the well-known redirect) for every prefix and layout, under three "
                      "segment concretisations (plain; segments equal to / anagrams of the prefix; spaces, dots, %, non-ASCII)")}
    ctx.assumptions += ["recording backend doubles; harness strict multistatus reader (xmlt)", "TLC and the CommunityModules Json reader"]
    return ctx.finish(sigs, extra=extra)

"""Reads the state graph TLC dumped for the Upload specification and covers every transition with behaviours
(one script per uncovered edge, extended by a seeded walk that prefers uncovered edges)."""
import random, re, collections

VARS = ("cpc", "ci", "wres", "cres", "pend", "rclosed", "wclosed", "tpc", "gpc", "tread")


def parse(dotfile):
    nodes, edges, init = {}, collections.defaultdict(list), []
    node_re = re.compile(r'^(-?\d+) \[label="(.*)"(,style = filled)?\]')
    edge_re = re.compile(r'^(-?\d+) -> (-?\d+) \[label="([A-Za-z]+)"')
    for line in open(dotfile):
        m = edge_re.match(line)
        if m:
            edges[m.group(1)].append((m.group(3), m.group(2)))
            continue
        m = node_re.match(line)
        if m:
            lab = m.group(2).replace('\\"', '"').replace("\\\\", "\\")
            st = {}
            for v in VARS:
                mm = re.search(r'/\\ ' + v + r' = ("?)([A-Za-z0-9]+)\1', lab)
                val = mm.group(2)
                st[v] = int(val) if val.isdigit() else (val == "TRUE" if val in ("TRUE", "FALSE") else val)
            pm = re.search(r'plan = \[readK \|-> (\d+), fin \|-> "(\w+)", wantAll \|-> (TRUE|FALSE)\]', lab)
            st["plan"] = {"readK": int(pm.group(1)), "fin": pm.group(2), "wantAll": pm.group(3) == "TRUE"}
            nodes[m.group(1)] = st
            if m.group(3):
                init.append(m.group(1))
    return nodes, edges, init


def cover(nodes, edges, init, seed, limit=None):
    rnd = random.Random(seed)
    # BFS parents for a shortest path from some initial state to every node
    parent = {}
    dq = collections.deque(init)
    for i in init:
        parent[i] = None
    while dq:
        u = dq.popleft()
        for a, v in edges.get(u, []):
            if v not in parent:
                parent[v] = (u, a)
                dq.append(v)
    alledges = [(u, a, v) for u in edges for a, v in edges[u] if u != v]
    rnd.shuffle(alledges)
    covered = set()
    scripts = []
    for (u, a, v) in alledges:
        if (u, a, v) in covered:
            continue
        # prefix: init -> u
        pre = []
        x = u
        while parent[x] is not None:
            pu, pa = parent[x]
            pre.append((pu, pa, x))
            x = pu
        pre.reverse()
        path = pre + [(u, a, v)]
        x = v
        while True:
            outs = [(aa, vv) for aa, vv in edges.get(x, []) if vv != x]
            if not outs:
                break
            fresh = [(aa, vv) for aa, vv in outs if (x, aa, vv) not in covered]
            aa, vv = rnd.choice(fresh or outs)
            path.append((x, aa, vv))
            x = vv
        for e in path:
            covered.add(e)
        scripts.append(path)
        if limit and len(scripts) >= limit:
            break
    return scripts, len(covered), len(alledges)


def to_script(i, path, nodes, chunk):
    plan = nodes[path[0][0]]["plan"]
    obs = lambda n: {k: nodes[n][k] for k in VARS}
    return {"id": i, "plan": plan, "chunk": chunk, "steps": [{"a": a, "pre": obs(u), "post": obs(v)} for (u, a, v) in path]}

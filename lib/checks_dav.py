"""C01, C02, C03, C04, C17: the WebDAV file server against the DavTree specification."""
import copy, json, os, random
import vlib
from vlib import Machinery, log


def _emit_trees(ctx, out):
    trees = ctx.emitted(out, "TREE")
    if not trees:
        raise Machinery("DavTreeMC emitted no trees")
    p = ctx.path("gen", "trees.ndjson")
    vlib.write_ndjson(p, trees)
    return p, len(trees)


def _record(ctx, binp, outdir, **kw):
    os.makedirs(outdir, exist_ok=True)
    cmd = [binp, "-out", outdir, "-scratch", ctx.scratch, "-seed", str(ctx.seed)]
    for k, v in kw.items():
        cmd += ["-" + k, str(v)]
    r = ctx.run(cmd, timeout=3000)
    info = json.loads(r.stdout.strip().splitlines()[-1])
    files = sorted(os.path.join(outdir, f) for f in os.listdir(outdir) if f.endswith(".ndjson"))
    return files, info


def _gen_hists(ctx, n, length, seed, condmix=False, clientmix=False):
    """F1 (iii): TLC simulation prints request histories as JSON."""
    cfgp = os.path.join(ctx._speccopy(), "DavSim_run.cfg")
    open(cfgp, "w").write(open(os.path.join(vlib.SPEC, "DavSim.cfg")).read().replace("HistLen = 16", "HistLen = %d" % length)
                          .replace("CondMix = FALSE", "CondMix = %s" % ("TRUE" if condmix else "FALSE"))
                          .replace("ClientMix = FALSE", "ClientMix = %s" % ("TRUE" if clientmix else "FALSE")))
    out, st = ctx.tlc("DavSim", "DavSim_run", workers=1, args=["-simulate", "num=%d" % n, "-depth", str(length + 3), "-seed", str(seed)], timeout=1200)
    hs = ctx.emitted(out, "HIST")
    if len(hs) < n // 2:
        raise Machinery("DavSim produced %d histories, expected %d" % (len(hs), n))
    ctx.cov["tlc_runs"].append({"module": "DavSim", "histories": len(hs), "length": length, "wall_s": st["wall_s"]})
    root = [{"p": [], "k": "c", "d": "", "n": 0}]
    p = ctx.path("gen", "hists-%d.ndjson" % seed)
    vlib.write_ndjson(p, [{"init": root, "reqs": h} for h in hs])
    return p, len(hs)


# ------------------------------------------------------------------ canaries
def _corruptions(step):
    """Corrupted variants of an accepted observation; the judge must reject every one (for the tagged property)."""
    out = []
    st = step["st"]
    c = copy.deepcopy(step); c["st"] = 299; out.append(("C01", c))
    if st in (201, 204) and step["req"]["m"] in ("PUT", "MKCOL", "COPY", "MOVE"):
        c = copy.deepcopy(step); c["st"] = 204 if st == 201 else 201; out.append(("C01", c))
    if not step["same"]:
        c = copy.deepcopy(step); c["same"] = True; c["post"] = []; out.append(("C01", c))
        if st < 400:
            c = copy.deepcopy(step); c["st"] = 409; out.append(("C02", c))
        if len(step["post"]) > 1:
            c = copy.deepcopy(step); c["post"] = c["post"][:-1]; out.append(("C01", c))
        fs = [i for i, e in enumerate(step["post"]) if e["k"] == "f"]
        if fs:
            c = copy.deepcopy(step); c["post"][fs[0]]["d"] = "?corrupt"; out.append(("C01", c))
    if step["req"]["m"] == "PROPFIND" and st == 207 and step["rep"]["ms"]:
        c = copy.deepcopy(step); c["rep"]["ms"] = c["rep"]["ms"][:-1]; out.append(("C01", c))
        c = copy.deepcopy(step); c["rep"]["ms"][0]["k"] = "f" if c["rep"]["ms"][0]["k"] == "c" else "c"; out.append(("C01", c))
        c = copy.deepcopy(step); c["rep"]["ms"][0]["nhref"] = 2; out.append(("C01", c))
    if step["req"]["m"] == "GET" and st == 200:
        c = copy.deepcopy(step); c["rep"]["body"] = "?corrupt"; out.append(("C01", c))
        c = copy.deepcopy(step); c["rep"]["clen"] = c["rep"]["clen"] + 1; out.append(("C01", c))
        c = copy.deepcopy(step); c["rep"]["lm"] = False; out.append(("C01", c))
    c = copy.deepcopy(step); c["leak"] = True; out.append(("C17", c))
    c = copy.deepcopy(step); c["outside"] = "changed"; out.append(("C03", c))
    c = copy.deepcopy(step); c["secret"] = True; out.append(("C03", c))
    return out


def _canaries(ctx, obs_files, rejected_lines, want=300):
    """Build a canary trace from accepted observations and require the judge to reject every corrupted line."""
    rnd = random.Random(ctx.seed)
    rows = []
    expect = []
    picked = 0
    for f in obs_files[:4]:
        tree = None
        lines = open(f).read().splitlines()
        idxs = list(range(len(lines)))
        rnd.shuffle(idxs)
        chosen = set(idxs[: max(1, want // 2)])
        for i, line in enumerate(lines):
            if line.startswith('{"k":"tree"'):
                tree = line
                continue
            if i not in chosen or (f, i + 1) in rejected_lines:
                continue
            step = json.loads(line)
            if step.get("from") != "base" or tree is None or step.get("skip"):
                continue
            for tag, c in _corruptions(step):
                rows.append(tree)
                rows.append(json.dumps(c, separators=(",", ":")))
                expect.append((len(rows), tag))
            picked += 1
        if picked >= want:
            break
    if not expect:
        raise Machinery("no accepted observation available to build canaries from")
    p = ctx.path("canary", "canary.ndjson")
    open(p, "w").write("\n".join(rows) + "\n")
    rej, _ = ctx.judge("DavJudge", [p], par=1)
    got = {(ln, sig.split(" ", 1)[0]) for _, ln, sig in rej}
    missed = [e for e in expect if e not in got]
    ctx.cov["canaries_total"] += len(expect)
    ctx.cov["canaries_rejected"] += len(expect) - len(missed)
    if missed:
        ln, tag = missed[0]
        raise Machinery("judge accepted %d of %d corrupted observations, e.g. %s line %s" % (len(missed), len(expect), tag, rows[ln - 1][:400]))
    log("[canary] %d corrupted observations, all rejected" % len(expect))


# ------------------------------------------------------------------ confirmation by re-execution
def _load_case(ctx, rec, inputs):
    """Every case is stored as a history {init, reqs}: a product case is a one-step history from its tree."""
    cid = rec.get("cid", "")
    if cid.startswith("t"):
        ti, ri = cid[1:].rstrip("f").split("r")
        trees = vlib.read_ndjson(inputs["trees"])
        return {"init": trees[int(ti)], "reqs": [dict(rec["req"])], "conc": rec.get("conc", "id")}
    if cid.startswith("x"):
        _, ti = cid[1:].split("t")
        trees = vlib.read_ndjson(inputs["trees"])
        return {"init": trees[int(ti)], "reqs": [dict(rec["req"])], "conc": rec.get("conc", "id")}
    if cid.startswith("h"):
        hi, si = cid[1:].split("s")
        hs = vlib.read_ndjson(inputs["hists"])
        h = hs[int(hi)]
        reqs = h["reqs"][: int(si)] + [dict(rec["req"])]
        return {"init": h["init"], "reqs": reqs, "conc": rec.get("conc", "id")}
    return None


def _replay_cases(ctx, binp, cases):
    """Execute stored cases on the real code (one recorder run per concretisation) and judge them.
    Returns, per case, the list of signatures rejected at its LAST step."""
    res = [None] * len(cases)
    by_conc = {}
    for i, c in enumerate(cases):
        by_conc.setdefault(c.get("conc", "id"), []).append(i)
    for conc, idxs in by_conc.items():
        ctx.counter += 1
        d = os.path.dirname(ctx.path("replay%d" % ctx.counter, ".x"))
        vlib.write_ndjson(os.path.join(d, "hists.ndjson"), [{"init": cases[i]["init"], "reqs": cases[i]["reqs"]} for i in idxs])
        files, _ = _record(ctx, binp, os.path.join(d, "obs"), mode="hist", hists=os.path.join(d, "hists.ndjson"), shards=1, conc=conc, wlimit=4096)
        rej, _ = ctx.judge("DavJudge", files, par=1)
        byline = {}
        for _, ln, s in rej:
            byline.setdefault(ln, []).append(s)
        ln = 0
        for i in idxs:
            ln += 1 + len(cases[i]["reqs"])
            res[i] = byline.get(ln, [])
    return res


def _confirm(ctx, binp, sigs, inputs_of):
    """Keep only rejects that reproduce when their case is executed again from scratch."""
    kn, new = ctx.classify(sigs)
    todo = []
    for s, g in sigs.items():
        if s in kn:
            continue
        rec = g["record"]
        case = _load_case(ctx, rec, inputs_of(g)) if rec else None
        if case is None:
            raise Machinery("cannot rebuild the case of a rejected observation: %s" % s)
        todo.append((s, g, case))
    if todo:
        again = _replay_cases(ctx, binp, [c for _, _, c in todo])
        lost = []
        for (s, g, case), got in zip(todo, again):
            # reproduced: the same request shape is rejected again with the same status; the SIZE of a chaotic effect (how much of
            # a tree a broken transfer destroys or duplicates) may differ between two executions
            shape = s.split(" eff=")[0]
            if not any(g2[4:] == s or g2[4:].split(" eff=")[0] == shape for g2 in got):
                lost.append((s, got[:3]))
                continue
            g["record"] = {"case": case, "observed": g["record"]}
        for s, got in lost:
            log("[note] reject %r did not reproduce on re-execution (got %r): not reported" % (s, got))
            del sigs[s]
        if lost and not [x for x in sigs if x not in kn]:
            raise Machinery("none of the %d rejected observations reproduced on re-execution, e.g. %r" % (len(lost), lost[0]))
    return sigs


def _do_replay(ctx, replay):
    data = json.load(open(replay))
    case = data["record"]["case"]
    binp = ctx.go_build("davrec")
    sigs = _replay_cases(ctx, binp, [case])[0]
    mine = sorted({s for s in sigs if s.startswith(ctx.prop + " ")})
    for s in mine:
        print("VIOLATION property=%s replay=%s signature=%s" % (ctx.prop, replay, s[len(ctx.prop) + 1:]))
    print("REPLAY property=%s rejected=%d" % (ctx.prop, len(mine)))
    return 1 if mine else 0


# ------------------------------------------------------------------ main flow
def run(ctx, replay=None):
    if replay:
        return _do_replay(ctx, replay)
    prop = ctx.prop
    q = ctx.quick()
    binp = ctx.go_build("davrec")

    if prop == "C03":
        import checks_dav_c03
        return checks_dav_c03.run(ctx, binp, [], {}, [])
    # F0 + F1: model-check the bounded instance, emit trees and request universes
    gen = ctx.path("gen", ".x")
    gen = os.path.dirname(gen)
    env = {"REQOUT": os.path.join(gen, "reqs.ndjson"), "FAULTOUT": os.path.join(gen, "fault.ndjson"), "CONDOUT": os.path.join(gen, "cond.ndjson")}
    cfg = "DavTreeMC" if (q or prop not in ("C01",)) else "DavTreeMC_thorough"
    out, st = ctx.model_check("DavTreeMC", cfg, env=env, workers=8)
    trees, ntrees = _emit_trees(ctx, out)
    nreq = sum(1 for _ in open(env["REQOUT"]))
    inputs = {}

    obs = []
    info_all = []
    deep = {}

    def deep_instance():
        """second bounded instance: deeper trees (depth 3, at most 6 nodes) with a slimmer header universe"""
        if not deep:
            denv = {"REQOUT": os.path.join(gen, "deep-reqs.ndjson")}
            dout, _ = ctx.model_check("DavTreeMC", "DavTreeMC_deep", env=denv, workers=8)
            dts = ctx.emitted(dout, "TREE")
            dp = os.path.join(gen, "deep-trees.ndjson")
            vlib.write_ndjson(dp, dts)
            deep.update(trees=dp, reqs=denv["REQOUT"], n=len(dts))
        return deep

    def empty_instance():
        """third bounded instance: zero-length files (content token "") next to non-empty ones, at most 4 nodes"""
        eenv = {"REQOUT": os.path.join(gen, "empty-reqs.ndjson")}
        eout, _ = ctx.model_check("DavTreeMC", "DavTreeMC_empty", env=eenv, workers=8)
        ets = ctx.emitted(eout, "TREE")
        ep = os.path.join(gen, "empty-trees.ndjson")
        vlib.write_ndjson(ep, ets)
        return dict(trees=ep, reqs=eenv["REQOUT"], n=len(ets))

    def big_instance():
        """trees beyond the bounded instances in size only: a collection with 130 members (contents x / y / empty / 200 kB), an
        eight-level chain of collections with a file at every level; every request of the main universe against them"""
        def ent(p, k, d=""):
            return {"p": p, "k": k, "d": d, "n": 0}
        t = [ent([], "c"), ent(["a"], "c"), ent(["b"], "c")]
        for i in range(1, 8):
            t.append(ent(["a"] * (i + 1), "c"))
            t.append(ent(["a"] * i + ["y"], "f", "y"))
        for i in range(130):
            t.append(ent(["b", "m%03d" % i], "f", ["x", "y", "", "x"][i % 4] if i != 77 else "B200000"))
        t2 = [ent([], "c"), ent(["a"], "f", "B1100000"), ent(["b"], "c")] + [ent(["b", "d%02d" % i], "c") for i in range(40)] \
            + [ent(["b", "d%02d" % i, "f"], "f", "x") for i in range(0, 40, 3)]
        bp = os.path.join(gen, "big-trees.ndjson")
        vlib.write_ndjson(bp, [t, t2])
        return bp

    def pairs(conc="id"):
        """DavPairs: every transfer the model carries out on two trees, followed by every write below its source / destination"""
        pp = os.path.join(gen, "pairs.ndjson")
        if not os.path.exists(pp):
            ctx.model_check("DavPairs", "DavPairs", env={"PAIRSOUT": pp}, workers=1)
        files, info = _record(ctx, binp, ctx.path("obs", "pairs-" + conc), mode="hist", hists=pp, shards=vlib.NCPU, conc=conc)
        for f in files:
            inputs[f] = {"hists": pp}
        info["universe"] = "transfer-then-write"
        info_all.append(info)
        obs.extend(files)
        ctx.cov["traces_validated_against_impl"] += info.get("hists", 0)
        log("[F2] transfer-then-write: %s" % info)

    def raw_slice(styles):
        """the same resource under non-canonical spellings (".", "..", empty segments, encoded dots) on the request path and
        in the Destination: the raw universe of C03, judged here for failure atomicity"""
        import checks_dav_c03
        rec, rtrees, rawout, nraw = checks_dav_c03.raw_universe(ctx, binp, obs, inputs, info_all, cfg="DavRaw")
        for stl in styles:
            rec("raw-id-s%d" % stl, mode="product", trees=rtrees, reqs=rawout, style=stl, conc="id")


    def wfault_universe():
        """storage faults: a tree with files longer than DavTree.WLimit and every transfer / upload that has to write one, served while
        no file may grow beyond the limit (RLIMIT_FSIZE, one recorder shard); if the file size limit cannot be set, the universe is empty"""
        def ent(p, k, d=""):
            return {"p": p, "k": k, "d": d, "n": 0}
        t1 = [ent([], "c"), ent(["a"], "f", "B70000"), ent(["b"], "f", "x"), ent(["c"], "c"), ent(["c", "a"], "f", "y"), ent(["c", "b"], "f", "B70000")]
        t2 = [ent([], "c"), ent(["a"], "c"), ent(["a", "a"], "f", "x"), ent(["a", "b"], "f", "B70000"), ent(["a", "c"], "f", "y"), ent(["b"], "c"), ent(["b", "b"], "f", "y")]
        tp = os.path.join(gen, "wfault-trees.ndjson")
        vlib.write_ndjson(tp, [t1, t2])
        base = {"pflag": "ok", "c": "", "cn": 0, "fault": True, "fk": 0, "dform": "na", "dp": [], "depth": "absent", "ow": "absent", "ctype": "none",
                "ifm": "unset", "ifnm": "unset", "pform": "na", "fmode": "wfault"}
        reqs = []
        paths = [["a"], ["b"], ["c"], ["n"], ["c", "a"], ["c", "b"], ["c", "n"], ["a", "b"], ["a", "n"], ["b", "b"], ["b", "n"]]
        for p in paths:
            for h in ("unset", "star"):
                reqs.append(dict(base, m="PUT", p=p, c="B70000", ifnm=h))
        for sp in ([["a"], ["b"], ["c"], ["c", "b"], ["a", "b"], ["a", "a"]]):
            for dp in paths:
                for depth in ("absent", "0", "infinity"):
                    for ow in ("absent", "T", "F"):
                        reqs.append(dict(base, m="COPY", p=sp, dform="path", dp=dp, depth=depth, ow=ow))
                reqs.append(dict(base, m="MOVE", p=sp, dform="path", dp=dp, ow="T"))
        rp = os.path.join(gen, "wfault-reqs.ndjson")
        vlib.write_ndjson(rp, reqs)
        product("wfault", rp, trees=tp, shards=1, wlimit=4096)

    def ctxfault_universe(treemod, treerem):
        """a client that goes away: every transfer, removal and collection creation of the main universe under a request context that
        is cancelled before the handler runs, or reports cancellation from its k-th look on"""
        rp = os.path.join(gen, "ctxfault-reqs.ndjson")
        out = []
        for r in vlib.read_ndjson(env["REQOUT"]):
            if r["m"] in ("COPY", "MOVE", "DELETE", "MKCOL") and r["depth"] != "bad" and r["ow"] != "bad" and r["dform"] in ("na", "path"):
                for fm in ("precancel", "ctxk1", "ctxk2", "ctxk3", "ctxk5"):
                    out.append(dict(r, fmode=fm))
        vlib.write_ndjson(rp, out)
        product("ctxfault", rp, treemod=treemod, treerem=treerem)

    def product(name, reqs, treemod=1, treerem=0, conc="id", trees=trees, rootstyle=0, shards=None, wlimit=0):
        kw = {"wlimit": wlimit} if wlimit else {}
        files, info = _record(ctx, binp, ctx.path("obs", name), mode="product", trees=trees, reqs=reqs, shards=shards or vlib.NCPU,
                              treemod=treemod, treerem=treerem, conc=conc, rootstyle=rootstyle, **kw)
        for f in files:
            inputs[f] = {"trees": trees, "reqs": reqs}
        info["universe"] = name
        info_all.append(info)
        obs.extend(files)
        log("[F2] %s: %s" % (name, info))

    def hists(n, length, seed, conc="id", condmix=False):
        hp, nh = _gen_hists(ctx, n, length, seed, condmix)
        files, info = _record(ctx, binp, ctx.path("obs", "hist-%d-%s" % (seed, conc)), mode="hist", hists=hp, shards=vlib.NCPU, conc=conc)
        for f in files:
            inputs[f] = {"hists": hp}
        info["universe"] = "histories"
        info_all.append(info)
        obs.extend(files)
        ctx.cov["traces_validated_against_impl"] += nh
        log("[F2] histories: %s" % info)

    if prop == "C01":
        if q:
            product("main", env["REQOUT"], treemod=2, treerem=ctx.seed % 2)
            d = deep_instance()
            product("deep", d["reqs"], treemod=4, treerem=ctx.seed % 4, trees=d["trees"])
            e = empty_instance()
            product("empty-files", e["reqs"], treemod=2, treerem=ctx.seed % 2, trees=e["trees"])
            product("big-trees", env["REQOUT"], trees=big_instance())
            pairs()
            product("main-prefixnames", env["REQOUT"], treemod=8, treerem=(ctx.seed + 1) % 8, conc="prefixnames")
            # names with pattern metacharacters next to a sibling the pattern matches; names with a backslash
            product("main-globby", env["REQOUT"], treemod=16, treerem=(ctx.seed + 2) % 16, conc="globby")
            product("main-globby2", env["REQOUT"], treemod=16, treerem=(ctx.seed + 5) % 16, conc="globby2")
            product("main-backslash", env["REQOUT"], treemod=16, treerem=(ctx.seed + 9) % 16, conc="backslash")
            hists(60, 16, ctx.seed)
        else:
            product("main", env["REQOUT"])
            d = deep_instance()
            product("deep", d["reqs"], trees=d["trees"])
            e = empty_instance()
            product("empty-files", e["reqs"], trees=e["trees"])
            product("big-trees", env["REQOUT"], trees=big_instance())
            product("main-space", env["REQOUT"], treemod=4, treerem=ctx.seed % 4, conc="space")
            product("main-special", env["REQOUT"], treemod=4, treerem=(ctx.seed + 1) % 4, conc="special")
            product("main-dots", env["REQOUT"], treemod=4, treerem=(ctx.seed + 2) % 4, conc="dots")
            pairs()
            pairs("special")
            product("main-prefixnames", env["REQOUT"], treemod=2, treerem=ctx.seed % 2, conc="prefixnames")
            product("main-globby", env["REQOUT"], treemod=4, treerem=(ctx.seed + 2) % 4, conc="globby")
            product("main-globby2", env["REQOUT"], treemod=4, treerem=(ctx.seed + 1) % 4, conc="globby2")
            product("main-backslash", env["REQOUT"], treemod=4, treerem=(ctx.seed + 3) % 4, conc="backslash")
            for i in range(4):
                hists(250, 24, ctx.seed * 10 + i, conc=["id", "space", "special", "dots"][i])
    elif prop == "C02":
        if q:
            product("fault", env["FAULTOUT"], treemod=2, treerem=ctx.seed % 2)
            product("main", env["REQOUT"], treemod=4, treerem=ctx.seed % 4)
            product("cond", env["CONDOUT"], treemod=4, treerem=(ctx.seed + 1) % 4)
            d = deep_instance()
            product("deep", d["reqs"], treemod=4, treerem=(ctx.seed + 2) % 4, trees=d["trees"])
            # names that begin or end with dots (not dot segments): containment and path arithmetic must not be fooled by them
            product("main-dots", env["REQOUT"], treemod=8, treerem=ctx.seed % 8, conc="dots")
            raw_slice([ctx.seed % 4])
            product("main-prefixnames", env["REQOUT"], treemod=12, treerem=(ctx.seed + 3) % 12, conc="prefixnames")
            # a sibling named like a scratch file of the target ("a.part", "a.tmp", "a~", ".a.tmp"): a failing upload to "a" must not touch it
            for ci, cn in enumerate(("parts", "tmps", "tildes", "dottmp")):
                product("fault-" + cn, env["FAULTOUT"], treemod=12, treerem=(ctx.seed + 5 * ci) % 12, conc=cn)
            wfault_universe()
            ctxfault_universe(16, (ctx.seed + 1) % 16)
        else:
            wfault_universe()
            ctxfault_universe(4, ctx.seed % 4)
            product("fault", env["FAULTOUT"])
            product("main", env["REQOUT"])
            d = deep_instance()
            product("deep", d["reqs"], trees=d["trees"])
            product("cond", env["CONDOUT"])
            product("main-dots", env["REQOUT"], treemod=2, treerem=ctx.seed % 2, conc="dots")
            product("main-special", env["REQOUT"], treemod=4, treerem=ctx.seed % 4, conc="special")
            hists(300, 24, ctx.seed)
            hists(150, 24, ctx.seed + 7, conc="dots")
            raw_slice([0, 1, 2, 3])
            product("big-trees", env["REQOUT"], trees=big_instance())
            for cn in ("parts", "tmps", "tildes", "dottmp"):
                product("fault-" + cn, env["FAULTOUT"], treemod=2, treerem=ctx.seed % 2, conc=cn)
    elif prop == "C17":
        # OS limits: every request of the universe with a 300-byte segment ("a") against trees that only map "b":
        # provokes ENAMETOOLONG in every file-system call site; only the leak bit is judged for this universe
        lt = os.path.join(gen, "limit-trees.ndjson")
        vlib.write_ndjson(lt, [[{"p": [], "k": "c", "d": "", "n": 0}],
                               [{"p": [], "k": "c", "d": "", "n": 0}, {"p": ["b"], "k": "f", "d": "x", "n": 0}],
                               [{"p": [], "k": "c", "d": "", "n": 0}, {"p": ["b"], "k": "c", "d": "", "n": 0}, {"p": ["b", "b"], "k": "f", "d": "y", "n": 0}]])
        product("oslimits", env["REQOUT"], conc="toolong", trees=lt)
        # storage faults (no file may grow beyond 4096 bytes while the request is served): write errors are a place where paths get into messages
        wfault_universe()
        # broken uploads whose target someone else has removed in the meantime: the clean-up's own failure must not put a path into the answer
        files, info = _record(ctx, binp, ctx.path("obs", "fault-gone"), mode="product", trees=trees, reqs=env["FAULTOUT"], shards=vlib.NCPU,
                              treemod=(8 if q else 2), treerem=(ctx.seed + 2) % (8 if q else 2), gone=1)
        for f in files:
            inputs[f] = {"trees": trees, "reqs": env["FAULTOUT"]}
        info["universe"] = "fault-gone"
        info_all.append(info)
        obs.extend(files)
        # configurations: the served directory spelled with a trailing slash, "/.", a doubled separator, a dot-dot detour
        # (rotating over the recorder's shards); everything else as in the main product
        # a listing beyond a thousand resources (limits are a place where messages get written)
        ht = os.path.join(gen, "huge-tree.ndjson")
        vlib.write_ndjson(ht, [[{"p": [], "k": "c", "d": "", "n": 0}, {"p": ["a"], "k": "c", "d": "", "n": 0}, {"p": ["b"], "k": "f", "d": "x", "n": 0}]
                               + [{"p": ["a", "m%04d" % i], "k": "f", "d": "", "n": 0} for i in range(1100)]])
        hr = os.path.join(gen, "huge-reqs.ndjson")
        vlib.write_ndjson(hr, [r for r in vlib.read_ndjson(env["REQOUT"]) if r["m"] in ("PROPFIND", "COPY", "MOVE", "DELETE", "GET") and r["p"] in ([], ["a"])
                               and r.get("dp", []) in ([], ["a"], ["b"], ["a", "a"], ["b", "a"])])
        product("huge-tree", hr, trees=ht)
        product("rootspell", env["REQOUT"], treemod=(8 if q else 2), treerem=(ctx.seed + 3) % (8 if q else 2), rootstyle=-1)
        if q:
            product("main", env["REQOUT"], treemod=4, treerem=ctx.seed % 4)
            product("fault", env["FAULTOUT"], treemod=8, treerem=ctx.seed % 8)
            product("cond", env["CONDOUT"], treemod=8, treerem=ctx.seed % 8)
            d = deep_instance()
            product("deep", d["reqs"], treemod=8, treerem=ctx.seed % 8, trees=d["trees"])
        else:
            d = deep_instance()
            product("deep", d["reqs"], treemod=2, treerem=ctx.seed % 2, trees=d["trees"])
            product("main", env["REQOUT"])
            product("main-special", env["REQOUT"], treemod=4, treerem=ctx.seed % 4, conc="special")
            product("fault", env["FAULTOUT"], treemod=2, treerem=ctx.seed % 2)
            product("cond", env["CONDOUT"], treemod=2, treerem=ctx.seed % 2)
            hists(300, 24, ctx.seed)
    elif prop == "C04":
        import checks_dav_c04
        return checks_dav_c04.run(ctx, binp, trees, env, product, hists, obs, inputs, info_all, ntrees)
    elif prop == "C03":
        import checks_dav_c03
        return checks_dav_c03.run(ctx, binp, obs, inputs, info_all)

    return judge_and_finish(ctx, binp, obs, inputs, info_all, ntrees, nreq)


def judge_and_finish(ctx, binp, obs, inputs, info_all, ntrees, nreq, extra_sigs=None, extra_cov=None, tags=None):
    prop = ctx.prop
    tags = tags or (prop,)
    rej, total = ctx.judge("DavJudge", obs)
    ctx.cov["judged_events"] = total
    mine = [(f, ln, s[4:]) for f, ln, s in rej if s[:3] in tags]
    others = len(rej) - len(mine)
    rejected_lines = {(f, ln) for f, ln, _ in rej}
    _canaries(ctx, obs, rejected_lines)
    sigs = vlib.group_rejects(mine)
    sigs = _confirm(ctx, binp, sigs, lambda g: inputs[g["file"]])
    if extra_sigs:
        sigs.update(extra_sigs)
    # samples for the evidence file
    for f in obs[:2]:
        with open(f) as fh:
            for i, line in enumerate(fh):
                if i in (1, 7):
                    ctx.cov["samples"].append(json.loads(line))
    recorded = sum(i.get("recorded", 0) for i in info_all)
    ctx.cov["traces_validated_against_impl"] += sum(1 for f in obs for line in open(f) if line.startswith('{"k":"tree"') and "hist" not in f)
    extra = {"evaluations": recorded, "universes": info_all, "model_trees": ntrees, "request_universe": nreq,
             "rejects_for_other_properties_in_same_trace": others, "exhaustive": not ctx.quick(),
             "rule": "every (reachable tree of the bounded DavTree instance) x (request of the TLC-emitted universe) pair executed on the real "
                     "webdav.Handler over LocalFileSystem, plus TLC-simulated request histories; each observation must be an outcome of "
                     "DavTree.Outcomes (judged by TLC). distinct = distinct (tree, request) pairs / history steps."}
    extra["distinct_nontrivial"] = recorded
    if extra_cov:
        extra.update(extra_cov)
    ctx.assumptions += ["TLC and the CommunityModules Json reader", "harness snapshot/concretiser (exercised by judge canaries on every run)",
                        "tmpfs semantics of /dev/shm stand for the host file system"]
    return ctx.finish(sigs, extra=extra)



"""C18: safe concurrent use; uploads always terminate.
Upload half: the Upload specification is model-checked (safety + liveness under fairness), its complete state graph is
dumped, every transition is covered by behaviours that are stepped through the real webdav.Client.Create with a scripted
HTTPClient (replay direction), and uploads over the real net/http transport against a faulty server are validated against
the specification by the UploadTrace trace spec (recorded direction).
Concurrency half: DavConc is model-checked (DisjointIndependence over all interleavings); N goroutines x M operations on
disjoint subtrees through one handler / one client are recorded under the race detector and each client's history is
validated by the DavTree judge."""
import time
import concurrent.futures, copy, json, os, re
import vlib, upgraph
from vlib import Machinery, log


def _run_rec(ctx, cmd, timeout=900):
    """run a -race recorder: a race report is a finding, not a crash"""
    r = ctx.run(cmd, timeout=timeout, ok=(0, 66))
    race = "DATA RACE" in r.stderr
    info = {}
    for line in r.stdout.strip().splitlines()[-1:]:
        try:
            info = json.loads(line)
        except Exception:
            pass
    return info, race, r.stderr


_VARS_TYPED = """VARIABLES
  \\* @type: { readK: Int, fin: Str, wantAll: Bool };
  plan,
  \\* @type: Str;
  cpc,
  \\* @type: Int;
  ci,
  \\* @type: Str;
  wres,
  \\* @type: Str;
  cres,
  \\* @type: Int;
  pend,
  \\* @type: Bool;
  wclosed,
  \\* @type: Bool;
  rclosed,
  \\* @type: Str;
  tpc,
  \\* @type: Int;
  tread,
  \\* @type: Str;
  resp,
  \\* @type: Str;
  gpc,
  \\* @type: Str;
  gres,
  \\* @type: Str;
  done,
  \\* @type: Bool;
  ctx
"""


def _apalache_induction(ctx):
    """Unbounded safety of the Upload design: an inductive invariant (spec/UploadInd.frag) is discharged by Apalache for ANY
    number of chunks of ANY size -- Init => IndInv, IndInv /\\ Next => IndInv', IndInv => Goal (Close result, Close after the
    answer, a successful Write was consumed). The typed module is derived from spec/Upload.tla on the spot, so the two cannot
    drift. Apalache missing or failing for reasons other than a counterexample is logged, not fatal (TLC has checked the
    bounded instances); a counterexample is a defect of the specification and fails the check."""
    import shutil, subprocess
    if not shutil.which("apalache-mc"):
        log("[F0] apalache-mc not found: inductive check skipped")
        return
    src = open(os.path.join(vlib.SPEC, "Upload.tla")).read()
    i, j = src.index("VARIABLES plan"), src.index("vars ==")
    k = src.index("TypeOK ==")
    mod = (src[:i] + _VARS_TYPED + src[j:k]).replace("MODULE Upload -", "MODULE UploadInd -").replace("EXTENDS Naturals, TLC", "EXTENDS Integers") \
        .replace("CONSTANTS NChunks, ChunkSize", "CONSTANTS\n  \\* @type: Int;\n  NChunks,\n  \\* @type: Int;\n  ChunkSize")
    mod += open(os.path.join(vlib.SPEC, "UploadInd.frag")).read()
    d = os.path.dirname(ctx.path("apalache", ".x"))
    open(os.path.join(d, "UploadInd.tla"), "w").write(mod)
    for name, args in (("Init => IndInv", ["--init=Init", "--inv=IndInv", "--length=0"]),
                       ("IndInv /\\ Next => IndInv'", ["--init=IndInit", "--inv=IndInv", "--length=1"]),
                       ("IndInv => Goal", ["--init=IndInit", "--inv=Goal", "--length=0"])):
        t0 = time.time()
        try:
            r = subprocess.run(["apalache-mc", "check", "--cinit=ConstInit"] + args + ["UploadInd.tla"], cwd=d, stdout=subprocess.PIPE, stderr=subprocess.STDOUT, text=True, timeout=900)
        except Exception as e:
            log("[F0] apalache %s: not completed (%s)" % (name, e))
            return
        if "The outcome is: NoError" in r.stdout:
            ctx.cov["tlc_runs"].append({"module": "UploadInd (Apalache, unbounded NChunks / ChunkSize)", "obligation": name, "outcome": "NoError", "wall_s": round(time.time() - t0, 1)})
            log("[F0] apalache %s: NoError, %.1fs" % (name, time.time() - t0))
        elif "invariant" in r.stdout and "violated" in r.stdout:
            raise Machinery("Apalache found a counterexample to %s:\n%s" % (name, r.stdout[-1500:]))
        else:
            log("[F0] apalache %s: no verdict (exit %d), skipped" % (name, r.returncode))
            return


def _validate_real(ctx, rows):
    """one TLC run of UploadTrace per recorded upload; returns ids that the specification does not explain"""
    def one(i_row):
        i, row = i_row
        f = ctx.path("real", "t%03d.ndjson" % i)
        open(f, "w").write(json.dumps(row) + "\n")
        out, st = ctx.tlc("UploadTrace", "UploadTrace", env={"OBS": f}, workers=1, allow_fail=True, heap="1g", timeout=600)
        if "Invariant NotAccepted is violated" in out:
            return row["id"], True, st
        if "Model checking completed. No error has been found." in out:
            return row["id"], False, st
        raise Machinery("UploadTrace failed on %s:\n%s" % (row["id"], "\n".join(out.splitlines()[-20:])))
    with concurrent.futures.ThreadPoolExecutor(max_workers=vlib.NCPU) as ex:
        res = list(ex.map(one, enumerate(rows)))
    for _, _, st in res:
        ctx.cov["states"] += st.get("distinct", 0)
        ctx.cov["transitions"] += st.get("generated", 0)
    return [i for i, ok, _ in res if not ok]


def run(ctx, replay=None):
    q = ctx.quick()
    sigs = {}

    def add(sig, record, n=1):
        g = sigs.setdefault(sig, {"count": 0, "record": record})
        g["count"] += n

    unconfirmed = []
    uprec = ctx.go_build("uprec", race=True)
    if replay:
        case = json.load(open(replay))["record"]["case"]
        bad = 0
        if case["kind"] == "replay":
            sf = ctx.path("replay", "s.ndjson")
            vlib.write_ndjson(sf, [case["script"]])
            of = ctx.path("replay", "o.ndjson")
            ctx.run([uprec, "-mode", "replay", "-scripts", sf, "-out", of, "-unit", str(case.get("unit", 1))], ok=(0, 66))
            r = vlib.read_ndjson(of)[0]
            if not r["ok"]:
                bad = 1
                print("VIOLATION property=C18 replay=%s signature=upload-replay action=%s %s" % (replay, r["action"], r["why"][:80]))
        elif case["kind"] == "real":
            of = ctx.path("replay", "o.ndjson")
            ctx.run([uprec, "-mode", "real", "-out", of, "-only", case["id"]], ok=(0, 66))
            rej = _validate_real(ctx, vlib.read_ndjson(of))
            if rej:
                bad = 1
                print("VIOLATION property=C18 replay=%s signature=upload-real %s" % (replay, case["id"]))
        else:
            print("REPLAY property=C18: concurrency schedules are not replayable deterministically; re-run the check")
            return 2
        print("REPLAY property=C18 rejected=%d" % bad)
        return 1 if bad else 0

    # ---------------- F0: the specifications
    gen = os.path.dirname(ctx.path("up", ".x"))
    dot = os.path.join(gen, "graph")
    ctx.model_check("Upload", "Upload", workers=4, args=["-dump", "dot,actionlabels", dot])
    ctx.model_check("DavConc", "DavConc", workers=8)
    if not q:
        # three clients with at most four requests in total (measured: 6.1 M states, about 1 min); two clients with deeper own subtrees
        ctx.model_check("DavConc", "DavConc3", workers=8, timeout=3000)
        ctx.model_check("DavConc", "DavConcDeep", workers=8, timeout=3000)
        _apalache_induction(ctx)
    nodes, edges, init = upgraph.parse(dot + ".dot")
    scripts, cov, tot = upgraph.cover(nodes, edges, init, ctx.seed)
    tot = len({(u, a, v) for u in edges for a, v in edges[u] if u != v})
    if cov < tot:
        raise Machinery("behaviours cover %d of %d transitions of the Upload state graph" % (cov, tot))
    sf = os.path.join(gen, "scripts.ndjson")
    rows = [upgraph.to_script(i + 1, p, nodes, 2) for i, p in enumerate(scripts)]
    vlib.write_ndjson(sf, rows)
    plans = {json.dumps(r["plan"], sort_keys=True) for r in rows}
    log("[F1] %d behaviours cover all %d transitions (%d states, %d fault plans)" % (len(rows), tot, len(nodes), len(plans)))

    # ---------------- replay direction
    units = [1, 70000] if q else [1, 333, 4096, 70000, 1 << 20]
    replayed = 0
    races = []
    # does the implementation still have the shape of the Upload design (request in flight from Create on, Writes synchronous)?
    pf = os.path.join(gen, "probe.ndjson")
    ctx.run([uprec, "-mode", "probe", "-out", pf], ok=(0, 66))
    probe = vlib.read_ndjson(pf)[0]
    follows = probe["do_at_create"] and probe["write_synchronous"] and not probe["err"]
    ctx.cov["upload_design_probe"] = probe
    if not follows:
        print("NOTE property=C18: the implementation no longer has the shape of the Upload design (%s); the step-by-step replay of the model's behaviours "
              "does not apply and is skipped -- the property is judged on the recorded direction (real transport, UploadTrace) only" % json.dumps(probe))
        units = []
    for u in units:
        of = os.path.join(gen, "replay-%d.ndjson" % u)
        info, race, err = _run_rec(ctx, [uprec, "-mode", "replay", "-scripts", sf, "-out", of, "-unit", str(u)])
        if race:
            races.append(("upload replay unit=%d" % u, err))
        res = vlib.read_ndjson(of)
        replayed += len(res)
        for r in res:
            if not r["ok"]:
                # confirm by executing the single behaviour again from scratch
                one = os.path.join(gen, "one.ndjson")
                vlib.write_ndjson(one, [rows[r["id"] - 1]])
                of2 = os.path.join(gen, "one-out.ndjson")
                ctx.run([uprec, "-mode", "replay", "-scripts", one, "-out", of2, "-unit", str(u)], ok=(0, 66))
                r2 = vlib.read_ndjson(of2)[0]
                if r2["ok"]:
                    # alone it passes: the behaviours share one long-lived client, so run the whole sequence once more -- a failure
                    # of the same behaviour at the same place is a dependence on what earlier uploads left behind in the client
                    of3 = os.path.join(gen, "replay-%d-again.ndjson" % u)
                    if not os.path.exists(of3):
                        ctx.run([uprec, "-mode", "replay", "-scripts", sf, "-out", of3, "-unit", str(u)], ok=(0, 66))
                    r3 = [x for x in vlib.read_ndjson(of3) if x["id"] == r["id"]]
                    if r3 and not r3[0]["ok"] and r3[0]["action"] == r["action"]:
                        why = re.sub(r"[0-9]+", "N", r["why"])[:90]
                        add("upload-replay on a reused client action=%s %s" % (r["action"], why), {"case": {"kind": "replay-sequence", "unit": u, "id": r["id"]}, "observed": r})
                        continue
                    unconfirmed.append("upload behaviour %d failed once (%s) and passed on re-execution" % (r["id"], r["why"]))
                    continue
                why = re.sub(r"[0-9]+", "N", r["why"])[:90]
                add("upload-replay action=%s %s" % (r["action"], why), {"case": {"kind": "replay", "script": rows[r["id"] - 1], "unit": u}, "observed": r})
    ctx.cov["traces_validated_against_impl"] += replayed
    ctx.cov["samples"].append({"behaviour": [s["a"] for s in rows[0]["steps"]], "plan": rows[0]["plan"]})
    # replay canary: a script whose plan claims success while the transport is told to answer 4xx must fail
    can = []
    for r in rows:
        if r["plan"]["fin"] == "s2xx" and any(s["a"] == "CloseReturn" for s in r["steps"]):
            c = copy.deepcopy(r); c["plan"]["fin"] = "s4xx"; can.append(c)
        if len(can) >= 20:
            break
    cf = os.path.join(gen, "canary.ndjson")
    vlib.write_ndjson(cf, can if follows else [])
    cof = os.path.join(gen, "canary-out.ndjson")
    ctx.run([uprec, "-mode", "replay", "-scripts", cf, "-out", cof, "-unit", "1"], ok=(0, 66))
    cres = vlib.read_ndjson(cof)
    ctx.cov["canaries_total"] += len(cres)
    ctx.cov["canaries_rejected"] += sum(1 for r in cres if not r["ok"])
    if any(r["ok"] for r in cres):
        raise Machinery("the replayer accepted a behaviour whose Close result contradicts the transport's answer")

    # ---------------- recorded direction: real transport, validated by UploadTrace
    rf = os.path.join(gen, "real.ndjson")
    info, race, err = _run_rec(ctx, [uprec, "-mode", "real", "-out", rf])
    if race:
        races.append(("upload real transport", err))
    real = vlib.read_ndjson(rf)
    rejected = _validate_real(ctx, real)
    ctx.cov["traces_validated_against_impl"] += len(real)
    ctx.cov["samples"].append(real[3])
    for rid in rejected:
        row = [r for r in real if r["id"] == rid][0]
        # confirm: run the scenario again
        # the real transport is timing dependent: up to three re-executions, one more rejection confirms
        again = False
        for k in range(3):
            of2 = os.path.join(gen, "again-%s-%d.ndjson" % (rid, k))
            ctx.run([uprec, "-mode", "real", "-out", of2, "-only", rid], ok=(0, 66))
            if _validate_real(ctx, vlib.read_ndjson(of2)):
                again = True
                break
        if not again:
            unconfirmed.append("real-transport scenario %s was rejected once and accepted on three re-executions" % rid)
            continue
        kind = "hang" if row["hang"] else "goroutine-leak" if row["leak"] else "results " + ",".join(e["ev"][0] + ":" + e["res"] for e in row["events"][-2:])
        add("upload-real fin=%s %s" % (row["fin"], kind), {"case": {"kind": "real", "id": rid}, "observed": row})
    # canary for the trace spec: flipped Close results must be rejected
    can = []
    # (only from uploads the specification explained: the flipped result of a rejected upload may well be the right one)
    for r in [x for x in real if x["id"] not in rejected][:12]:
        c = copy.deepcopy(r)
        if c["events"] and c["events"][-1]["ev"] == "close":
            c["events"][-1]["res"] = "err" if c["events"][-1]["res"] == "nil" else "nil"
            c["id"] = "canary-" + c["id"]
            can.append(c)
    crej = _validate_real(ctx, can)
    ctx.cov["canaries_total"] += len(can)
    ctx.cov["canaries_rejected"] += len(crej)
    if len(crej) != len(can):
        raise Machinery("UploadTrace accepted %d corrupted traces" % (len(can) - len(crej)))

    # ---------------- concurrency half
    concrec = ctx.go_build("concrec", race=True)
    configs = []
    if q:
        configs = [("handler", 4, 25, 4, 2), ("handler", 8, 15, 16, 2), ("client", 4, 20, 4, 2), ("client", 8, 12, 1, 1)]
    else:
        for mode in ("handler", "client"):
            for cl, ops in ((2, 50), (4, 30), (8, 20)):
                for procs in (1, 2, 4, 16):
                    configs.append((mode, cl, ops, procs, 3))
    conc_files = []
    nconc = 0
    for i, (mode, cl, ops, procs, rounds) in enumerate(configs):
        od = ctx.path("conc", "cfg%d" % i, ".x")
        od = os.path.dirname(od)
        info, race, err = _run_rec(ctx, [concrec, "-mode", mode, "-out", od, "-clients", str(cl), "-ops", str(ops), "-procs", str(procs),
                                         "-rounds", str(rounds), "-seed", str(ctx.seed * 100 + i), "-scratch", ctx.scratch])
        if race:
            races.append(("%s clients=%d GOMAXPROCS=%d" % (mode, cl, procs), err))
        if info.get("hang"):
            add("concurrent use of one client: a call does not return", {"case": {"kind": "conc", "mode": mode, "clients": cl}, "observed": info})
        nconc += info.get("recorded", 0)
        files = sorted(os.path.join(od, f) for f in os.listdir(od) if f.endswith(".ndjson"))
        # one judged file per configuration (each client log starts with its own tree line)
        cat = os.path.join(od, "all.cat")
        with open(cat, "w") as fh:
            for f in files:
                txt = open(f).read()
                if info.get("hang"):
                    # the recorder stopped in the middle of a line: keep the complete observations only
                    good = []
                    for line in txt.splitlines():
                        try:
                            json.loads(line)
                            good.append(line)
                        except ValueError:
                            break
                    txt = "\n".join(good) + ("\n" if good else "")
                fh.write(txt)
        conc_files.append(cat)
        ctx.cov["traces_validated_against_impl"] += len(files)
    # the CalDAV / CardDAV handlers and the principal helper under the same regime: every concurrent answer equals the answer alone
    davx = ctx.go_build("davxrec", race=True)
    for i, (cl, ops, procs) in enumerate([(8, 60, 4), (16, 30, 16)] if q else [(2, 200, 1), (4, 150, 2), (8, 100, 4), (16, 60, 16), (32, 40, 16)]):
        of = ctx.path("conc", "davx-%d.ndjson" % i)
        info, race, err = _run_rec(ctx, [davx, "-out", of, "-clients", str(cl), "-ops", str(ops), "-procs", str(procs)])
        if race:
            races.append(("caldav/carddav/principal handlers clients=%d GOMAXPROCS=%d" % (cl, procs), err))
        rows = vlib.read_ndjson(of)
        nconc += len(rows)
        for r in rows:
            if not r["same"]:
                add("concurrent %s %s answers differently than alone (st=%d alone=%d)" % (r["srv"], r["m"], r["st"], r["alone"]),
                    {"case": {"kind": "davx", "clients": cl, "procs": procs}, "observed": r})
    rej, total = ctx.judge("DavJudge", conc_files)
    for f, ln, s in rej:
        obs = json.loads(open(f).read().splitlines()[ln - 1])
        add("concurrent " + s, {"case": {"kind": "conc", "file": os.path.basename(os.path.dirname(f))}, "observed": obs})
    # judge canary on a concurrent log
    lines = open(conc_files[0]).read().splitlines()
    for i, line in enumerate(lines):
        if line.startswith('{"k":"step"'):
            e = json.loads(line)
            if e["st"] in (201, 204) and not e.get("skip"):
                e["st"] = 299
                cf = ctx.path("canary", "conc.ndjson")
                open(cf, "w").write("\n".join(lines[:i] + [json.dumps(e)]) + "\n")
                crej, _ = ctx.judge("DavJudge", [cf], par=1)
                ctx.cov["canaries_total"] += 1
                if not any(ln == i + 1 for _, ln, _ in crej):
                    raise Machinery("the judge accepted a corrupted concurrent history")
                ctx.cov["canaries_rejected"] += 1
                break
    for where, err in races:
        rp = ctx.path("race", "report.txt")
        m = re.search(r"WARNING: DATA RACE.*?={18}", err, re.S)
        add("data-race", {"case": {"kind": "race", "where": where}, "observed": (m.group(0) if m else err)[:4000]})
    extra = {"evaluations": replayed + len(real) + nconc, "distinct_nontrivial": len(rows) + len(real) + nconc,
             "upload_state_graph": {"states": len(nodes), "transitions": tot, "transitions_covered_by_replayed_behaviours": cov, "fault_plans": len(plans),
                                    "behaviours": len(rows), "unit_sizes": units},
             "real_transport_uploads": len(real), "concurrent_requests_recorded": nconc, "concurrency_configs": configs,
             "race_detector": "all recorder binaries built with -race; %d report(s)" % len(races),
             "rule": "every transition of the TLC state graph of Upload is stepped through the real Client.Create at least once per unit size; "
                     "every real-transport upload trace must be a behaviour of Upload (TLC trace validation, transport steps inferred); "
                     "every per-client log of the concurrent runs must be a sequential DavTree history"}
    # a rejection that does not show again in three re-executions is neither a violation (verdicts come from reproducible
    # behaviour of the real code only) nor a failure of the machinery: it is written to the evidence file and to the log
    for u in unconfirmed:
        log("[note] not reproduced, not reported: %s" % u)
    extra["unconfirmed_rejections_not_reported"] = unconfirmed
    ctx.assumptions += ["Go race detector for the data-race clause (not the specification)", "scripted HTTPClient stands for the transport in the replay direction",
                        "watchdog 10 s for an operation that involves no network and no sleep"]
    return ctx.finish(sigs, extra=extra)

"""Client-driven histories (C05; the server side of the same observations is judged for C01/C02/C17 too).

F1: DavSim (ClientMix) simulates request histories in the vocabulary webdav.Client can express.
F2: clihist performs each as a real client call; the request the client built goes over a wire-format round trip to the
    real Handler over LocalFileSystem; one "cstep" observation per call.
F3: DavJudge threads the model tree and requires (C05) that the request sent is the one the call denotes, that the call
    fails iff the server refused, and that Stat / ReadDir / Open return exactly the model tree's content."""
import copy, json, os, random
import vlib
from vlib import Machinery, log
import checks_dav

KIND = "clihist"


def _record(ctx, binp, hp, conc, outdir, seed):
    os.makedirs(outdir, exist_ok=True)
    r = ctx.run([binp, "-hists", hp, "-out", outdir, "-shards", str(vlib.NCPU), "-seed", str(seed), "-conc", conc, "-scratch", ctx.scratch], timeout=1800)
    info = json.loads(r.stdout.strip().splitlines()[-1])
    files = sorted(os.path.join(outdir, f) for f in os.listdir(outdir) if f.startswith("obs-"))
    return files, info


def _histories(files):
    """split observation files into histories: list of (file, first line number, [lines])"""
    out = []
    for f in files:
        cur = None
        for i, line in enumerate(open(f).read().splitlines()):
            o = json.loads(line)
            if o["k"] == "tree":
                cur = (f, i + 1, [o])
                out.append(cur)
            elif cur is not None:
                cur[2].append(o)
    return out


def _corrupt(step, rnd):
    """corrupted variants of an accepted client step: each must be rejected with a C05 signature"""
    c = copy.deepcopy(step)
    m = step["intent"]["m"]
    ch = rnd.randrange(6)
    if ch == 0:
        c["cres"]["err"] = not c["cres"]["err"]
    elif ch == 1 and m == "GET" and not step["cres"]["err"]:
        c["cres"]["body"] = "?corrupt"
    elif ch == 2 and m == "PROPFIND" and step["cres"]["items"]:
        k = rnd.randrange(3)
        if k == 0:
            c["cres"]["items"] = c["cres"]["items"][:-1]
        elif k == 1:
            c["cres"]["items"].append(copy.deepcopy(c["cres"]["items"][0]))
        else:
            it = c["cres"]["items"][0]
            it["k"] = "f" if it["k"] == "c" else "c"
    elif ch == 3 and m in ("COPY", "MOVE"):
        k = rnd.randrange(2)
        if k == 0:
            c["req"]["ow"] = "F" if c["req"]["ow"] in ("T", "absent") else "T"
        else:
            c["req"]["dp"] = c["req"]["dp"] + ["zz"]
    elif ch == 4 and m in ("COPY", "PROPFIND"):
        c["req"]["depth"] = {"0": "infinity", "1": "0", "infinity": "0", "absent": "0"}[c["req"]["depth"]]
    elif ch == 5:
        c["req"]["p"] = c["req"]["p"] + ["zz"]
    else:
        c["cres"]["sent"] = 2
    return c


def _base(m, p, **kw):
    r = {"m": m, "p": p, "pflag": "ok", "c": "", "cn": 0, "fault": False, "fk": 0, "dform": "na", "dp": [], "depth": "absent", "ow": "absent",
         "ctype": "none", "ifm": "unset", "ifnm": "unset", "pform": "na"}
    r.update(kw)
    return r


def _big_history():
    """one hand-written history over a tree that is large in size only: 130 members, an eight-level chain, a 200 kB file"""
    def ent(p, k, d=""):
        return {"p": p, "k": k, "d": d, "n": 0}
    t = [ent([], "c"), ent(["a"], "c"), ent(["b"], "c")]
    for i in range(1, 8):
        t.append(ent(["a"] * (i + 1), "c"))
        t.append(ent(["a"] * i + ["y"], "f", "y"))
    for i in range(130):
        t.append(ent(["b", "m%03d" % i], "f", ["x", "y", "", "x"][i % 4] if i != 77 else "B200000"))
    pf = lambda p, d: _base("PROPFIND", p, depth=d, pform="fileinfo")
    reqs = [pf([], "infinity"), pf(["b"], "1"), pf(["b", "m077"], "0"), _base("GET", ["b", "m077"]), _base("GET", ["b", "m002"]),
            _base("COPY", ["a"], dform="path", dp=["b", "acopy"], depth="infinity", ow="T"), pf(["b", "acopy"], "infinity"),
            _base("COPY", ["b"], dform="path", dp=["a", "bcopy"], depth="0", ow="F"), pf(["a", "bcopy"], "1"),
            _base("MOVE", ["b", "m001"], dform="path", dp=["a", "moved"], ow="F"), _base("PUT", ["b", "m003"], c="B200000"),
            _base("GET", ["b", "m003"]), pf(["a"], "infinity"), _base("DELETE", ["b"]), pf([], "1"), pf(["b"], "0")]
    return {"init": t, "reqs": reqs}


def collect(ctx):
    """returns (sigs, universes, total observations)"""
    q = ctx.quick()
    binp = ctx.go_build("clihist")
    plans = [(30, 16, "special"), (30, 16, "webby")] if q else [(200, 24, "id"), (200, 24, "space"), (300, 24, "special"), (200, 24, "dots"), (100, 24, "long"), (200, 24, "webby")]
    sigs, universes, total = {}, [], 0
    allfiles = []
    meta = {}
    for i, (n, length, conc) in enumerate(plans):
        seed = ctx.seed * 100 + 50 + i
        hp, nh = checks_dav._gen_hists(ctx, n, length, seed, clientmix=True)
        if i == 0:
            hs0 = vlib.read_ndjson(hp)
            vlib.write_ndjson(hp, hs0 + [_big_history()])
            nh += 1
        outdir = ctx.path("obs", "clihist-%s" % conc, ".x")
        outdir = os.path.dirname(outdir)
        files, info = _record(ctx, binp, hp, conc, outdir, ctx.seed)
        for f in files:
            meta[f] = (hp, conc)
        allfiles += files
        total += info["recorded"]
        universes.append({"universe": "client-driven histories", "concretisation": conc, "histories": nh, "calls": info["recorded"]})
        ctx.cov["traces_validated_against_impl"] += nh
        log("[F2] client histories %s: %s" % (conc, info))
    rej, tot = ctx.judge("DavJudge", allfiles)
    rej05 = [(f, ln, s) for f, ln, s in rej if s.startswith("C05 ")]
    other = sorted({s[:3] for _, _, s in rej if not s.startswith("C05 ")})
    if other:
        log("[F3] note: client-driven histories also show rejects for %s (reported by those properties' own checks)" % ",".join(other))
    # canaries: corrupted accepted steps, each judged from its own pre-state
    rnd = random.Random(ctx.seed)
    hs = _histories(allfiles)
    badlines = {(f, ln) for f, ln, _ in rej}
    can = []
    rnd.shuffle(hs)
    for f, first, lines in hs:
        pre = lines[0]["t"]
        for j, o in enumerate(lines[1:], start=1):
            if (f, first + j) not in badlines and o["k"] == "cstep" and rnd.random() < 0.2:
                c = _corrupt(o, rnd)
                if c != o:
                    can.append({"k": "tree", "t": pre})
                    can.append(c)
            if not o.get("same", True):
                pre = o["post"]
        if len(can) >= 400:
            break
    if not can:
        raise Machinery("no client-step canaries could be built")
    cf = ctx.path("canary", "clihist.ndjson")
    vlib.write_ndjson(cf, can)
    crej, _ = ctx.judge("DavJudge", [cf], par=1)
    got = {ln for _, ln, s in crej if s.startswith("C05 ")}
    want = set(range(2, len(can) + 1, 2))
    ctx.cov["canaries_total"] += len(want)
    ctx.cov["canaries_rejected"] += len(got & want)
    if want - got:
        ex = can[sorted(want - got)[0] - 1]
        raise Machinery("DavJudge accepted %d of %d corrupted client steps, e.g. %s" % (len(want - got), len(want), json.dumps(ex)[:600]))
    # confirmation by re-execution + replay records
    if rej05:
        again = {}      # (hp, conc) -> set of (cid, signature) rejected on re-execution
        for f, ln, s in rej05:
            sig = s[4:]
            g = sigs.setdefault(sig, {"count": 0, "record": None})
            g["count"] += 1
            if g["record"] is None:
                hp, conc = meta[f]
                l1 = open(f).read().splitlines()
                obs = json.loads(l1[ln - 1])
                if (hp, conc) not in again:
                    d2 = os.path.dirname(f) + "-again"
                    files2, _ = _record(ctx, binp, hp, conc, d2, ctx.seed)
                    rej2, _ = ctx.judge("DavJudge", files2)
                    seen = set()
                    for f2, ln2, s2 in rej2:
                        if s2.startswith("C05 "):
                            seen.add((json.loads(vlib._line(f2, ln2))["cid"], s2))
                    again[(hp, conc)] = seen
                # entity tags depend on the file times of the run, so the comparison is by step and signature, not by bytes
                if (obs["cid"], s) not in again[(hp, conc)]:
                    raise Machinery("re-execution did not reproduce the reject %s at %s" % (sig, obs["cid"]))
                start = max(i for i in range(ln) if json.loads(l1[i])["k"] == "tree")
                hi = int(obs["cid"][1:].split("s")[0])
                hist = vlib.read_ndjson(hp)[hi]
                g["record"] = {"case": {"kind": "clihist", "history": hist, "hi": hi, "conc": conc, "seed": ctx.seed, "step": ln - start - 1}, "observed": obs}
    return sigs, universes, total


def replay(ctx, rp):
    rec = json.load(open(rp))
    case = rec["record"]["case"]
    binp = ctx.go_build("clihist")
    hp = ctx.path("gen", "replay-hist.ndjson")
    # keep the history's index parity (endpoint spelling / name form are chosen from it)
    pad = [{"init": case["history"]["init"], "reqs": []}] * case["hi"]
    vlib.write_ndjson(hp, pad + [case["history"]])
    outdir = os.path.dirname(ctx.path("obs", "clihist-replay", ".x"))
    files, _ = _record(ctx, binp, hp, case["conc"], outdir, case["seed"])
    rej, _ = ctx.judge("DavJudge", files)
    hit = [s for _, _, s in rej if s == "C05 " + rec["signature"]]
    for s in sorted(set(hit)):
        print("VIOLATION property=C05 replay=%s signature=%s" % (rp, s[4:]))
    print("REPLAY property=C05 rejected=%d" % len(hit))
    return 1 if hit else 0

"""C14 (clients survive any response), C10 (collections and objects reach the client unchanged), C05 (WebDAV client and
server agree). DavWire.tla holds the client-outcome classification and the value relations; TLC enumerates the cases;
clirec drives the real clients (scripted HTTPClient, in-process servers with backend doubles, LocalFileSystem); TLC judges."""
import copy, json, os, random
import vlib
from vlib import Machinery, log


def _rec(ctx, binp, args):
    r = ctx.run([binp] + [str(a) for a in args], timeout=1800)
    return json.loads(r.stdout.strip().splitlines()[-1])["recorded"]


def _split(path, n):
    """split an observation file into n shards for parallel judging"""
    lines = open(path).read().splitlines()
    out = []
    per = (len(lines) + n - 1) // n
    for i in range(n):
        part = lines[i * per:(i + 1) * per]
        if part:
            p = "%s.%02d" % (path, i)
            open(p, "w").write("\n".join(part) + "\n")
            out.append((p, i * per))
    return out


def _generic(ctx, replay, mode, genmod, judgemod, casefile, rule, mutate, variants, assumptions, countidx=0, more=None):
    prop = ctx.prop
    q = ctx.quick()
    binp = ctx.go_build("clirec")
    gen = os.path.dirname(ctx.path("gen", ".x"))
    if replay:
        case = json.load(open(replay))["record"]["case"]
        if more is not None and case.get("kind") == more.KIND:
            return more.replay(ctx, replay)
        one = os.path.join(gen, "one.ndjson")
        vlib.write_ndjson(one, [case["case"]])
        of = ctx.path("obs", "replay.ndjson")
        _rec(ctx, binp, ["-mode", mode, "-in", one, "-out", of, "-seed", case.get("seed", ctx.seed), "-conc", case.get("conc", "hostile"), "-scratch", ctx.scratch])
        rej, _ = ctx.judge(judgemod, [of], par=1)
        for _, _, s in rej:
            print("VIOLATION property=%s replay=%s signature=%s" % (prop, replay, s[4:]))
        print("REPLAY property=%s rejected=%d" % (prop, len(rej)))
        return 1 if rej else 0
    out, st = ctx.model_check(genmod, genmod if q else genmod + "_thorough", env={"OUT": gen}, workers=1, timeout=3000)
    ncases = int(out.split('<<"COUNTS", ')[1].split(">>")[0].split(", ")[countidx])
    cases_path = os.path.join(gen, casefile)
    files = []
    total = 0
    universes = []
    for conc in variants:
        of = ctx.path("obs", "%s-%s.ndjson" % (mode, conc))
        n = _rec(ctx, binp, ["-mode", mode, "-in", cases_path, "-out", of, "-seed", ctx.seed, "-conc", conc, "-scratch", ctx.scratch])
        total += n
        universes.append({"concretisation": conc, "observations": n})
        files.append((of, conc))
    shards = []
    for f, conc in files:
        for p, off in _split(f, 8 if os.path.getsize(f) > 4 << 20 else 1):
            shards.append((p, off, f, conc))
    rej, tot = ctx.judge(judgemod, [p for p, _, _, _ in shards])
    ctx.cov["traces_validated_against_impl"] += tot
    smeta = {p: (off, f, conc) for p, off, f, conc in shards}
    # canaries
    rnd = random.Random(ctx.seed)
    rows = vlib.read_ndjson(shards[0][0])
    bad = {ln for p, ln, _ in rej if p == shards[0][0]}
    idx = list(range(len(rows)))
    rnd.shuffle(idx)
    can = []
    for i in idx:
        if (i + 1) in bad:
            continue
        c = mutate(copy.deepcopy(rows[i]), rnd)
        if c is not None and c != rows[i]:
            can.append(c)
        if len(can) >= 300:
            break
    if not can:
        raise Machinery("no canaries could be built")
    cf = ctx.path("canary", "cli.ndjson")
    vlib.write_ndjson(cf, can)
    crej, _ = ctx.judge(judgemod, [cf], par=1)
    got = {ln for _, ln, _ in crej}
    ctx.cov["canaries_total"] += len(can)
    ctx.cov["canaries_rejected"] += len(got)
    if len(got) != len(can):
        missed = sorted(set(range(1, len(can) + 1)) - got)[0]
        raise Machinery("%s accepted %d of %d corrupted observations, e.g. %s" % (judgemod, len(can) - len(got), len(can), json.dumps(can[missed - 1])[:400]))
    ctx.cov["samples"] += rows[:2]
    sigs = {}
    if rej:
        again = {}
        for p, ln, s in rej:
            off, f, conc = smeta[p]
            sig = s[4:]
            g = sigs.setdefault(sig, {"count": 0, "record": None})
            g["count"] += 1
            if g["record"] is None:
                if f not in again:
                    f2 = f + ".again"
                    _rec(ctx, binp, ["-mode", mode, "-in", cases_path, "-out", f2, "-seed", ctx.seed, "-conc", conc, "-scratch", ctx.scratch])
                    again[f] = open(f2).read().splitlines()
                line = open(p).read().splitlines()[ln - 1]
                if again[f][off + ln - 1] != line:
                    raise Machinery("re-execution observed something different for %s" % sig)
                obs = json.loads(line)
                case = _case_of(cases_path, obs)
                g["record"] = {"case": {"case": case, "conc": conc, "seed": ctx.seed}, "observed": obs}
    if more is not None:
        msigs, muni, mtotal = more.collect(ctx)
        for k, v in msigs.items():
            sigs.setdefault(k, v)
        universes += muni
        total += mtotal
    extra = {"evaluations": total, "distinct_nontrivial": total, "universes": universes, "cases": ncases, "exhaustive": True, "rule": rule}
    ctx.assumptions += assumptions
    return ctx.finish(sigs, extra=extra)


_cases_cache = {}


def _case_of(path, obs):
    if path not in _cases_cache:
        _cases_cache[path] = vlib.read_ndjson(path)
    cs = _cases_cache[path]
    if "ci" in obs:
        return cs[obs["ci"] - 1]
    keys = [k for k in ("m", "kind", "st", "ct", "body", "place") if k in obs]
    for c in cs:
        if all(c.get(k) == obs.get(k) for k in keys):
            return c
    raise Machinery("cannot find the case of an observation")


def _mut_c14(e, rnd):
    ch = rnd.randrange(4)
    if ch == 0:
        e["err"] = not e["err"]
    elif ch == 1:
        if 200 <= e["st"] <= 299:
            e["panic"] = True
        else:
            e["code"] = 0
    elif ch == 2:
        e["hang"] = True
    else:
        if e["err"]:
            e["items"] = 1
        else:
            e["err"] = True
    return e


def run(ctx, replay=None):
    if ctx.prop == "C14":
        return _generic(ctx, replay, "c14", "DavWireGen", "C14Judge", "c14.ndjson",
                        "every (public client method of the three packages, status, content type, body class, failure placement inside a valid multi-status) case of the "
                        "TLC-enumerated universe (35 representative status codes in quick, all of 100-599 in thorough) executed with a scripted HTTPClient; outcome "
                        "(error or not, carried status code, DAV:error condition, panic, hang, data returned) judged against DavWire.ClientOutcomeOK",
                        _mut_c14, ["hostile"], ["scripted HTTPClient; error code read by reflection from the library's HTTP error type", "TLC and the CommunityModules Json reader"])
    if ctx.prop == "C10":
        import checks_c10
        return checks_c10.run(ctx, replay, _generic)
    import checks_c05
    return checks_c05.run(ctx, replay, _generic)

"""Store histories (C10 over sequences of calls).

F0: Store.tla model-checked on a bounded instance (TypeOK, TagsFresh, WellFormed; action properties Pure, ReadYourWrite,
    QuerySound, NewTag).
F1: Store.tla simulated (SSpec): histories of put / get / del / mget / query / cols / mkcol by two clients.
F2: clirec -mode store performs each history through two long-lived real clients against one long-lived real CalDAV and CardDAV
    handler over a stateful backend double (queries answered by the library's own Filter).
F3: StoreJudge threads the MODEL's state and requires every call to yield what the model's store holds at that point."""
import copy, json, os, random
import vlib
from vlib import Machinery, log

KIND = "store"
JUDGE = "StoreJudge"


def _gen(ctx, n, length, seed, mod="Store"):
    cfgp = os.path.join(ctx._speccopy(), mod + "Sim_run.cfg")
    open(cfgp, "w").write(open(os.path.join(vlib.SPEC, mod + "Sim.cfg")).read().replace("HistLen = 20", "HistLen = %d" % length))
    out, st = ctx.tlc(mod, mod + "Sim_run", workers=1, args=["-simulate", "num=%d" % n, "-depth", str(length + 3), "-seed", str(seed)], timeout=1200)
    hs = ctx.emitted(out, "HIST")
    if len(hs) < n // 2:
        raise Machinery("%s simulation produced %d histories, expected %d" % (mod, len(hs), n))
    ctx.cov["tlc_runs"].append({"module": mod, "cfg": mod + "Sim", "histories": len(hs), "length": length, "wall_s": st["wall_s"]})
    p = ctx.path("gen", "%s-hists-%d.ndjson" % (mod.lower(), seed))
    vlib.write_ndjson(p, [{"ops": h} for h in hs])
    return p, len(hs)


def _record(ctx, binp, hp, conc, of, mode="store"):
    r = ctx.run([binp, "-mode", mode, "-in", hp, "-out", of, "-conc", conc, "-seed", str(ctx.seed), "-scratch", ctx.scratch], timeout=1800)
    return json.loads(r.stdout.strip().splitlines()[-1])["recorded"]


def _corrupt(o, rnd):
    """a corrupted copy of an accepted step that the judge must reject, or None"""
    c = copy.deepcopy(o)
    op = o["op"]["op"]
    ch = rnd.randrange(6)
    if ch == 0:
        c["err"] = not c["err"]
        if c["err"]:
            c["objs"], c["cols"] = [], []
        return c
    if ch == 1 and o["err"] and op != "mget":
        c["code"] = 500 if o["code"] != 500 else 400
        return c
    if ch == 2 and o["objs"]:
        c["objs"] = c["objs"][:-1]
        return c
    if ch == 3 and o["objs"]:
        f = ["d", "e", "n", "c"][rnd.randrange(4)]
        x = c["objs"][rnd.randrange(len(c["objs"]))]
        x[f] = (x[f] + 1) if f == "e" else "?corrupt"
        return c
    if ch == 4 and op == "cols" and not o["err"]:
        c["cols"] = c["cols"][1:] if rnd.random() < 0.5 else c["cols"] + ["c9"]
        return c
    if ch == 5 and op == "mget" and len(o["objs"]) >= 2 and o["objs"][0] != o["objs"][1]:
        c["objs"][0], c["objs"][1] = c["objs"][1], c["objs"][0]
        return c
    if ch == 5:
        c["panic"] = True
        return c
    return None


def collect(ctx):
    q = ctx.quick()
    # F0: the design's own laws on a bounded instance
    ctx.model_check("Store", "Store", workers=8, timeout=900)
    binp = ctx.go_build("clirec")
    plans = [(40, 24, "hostile"), (30, 24, "prefix")] if q else [(300, 30, "hostile"), (300, 30, "prefix"), (200, 30, "plain"), (60, 120, "hostile")]
    files, meta, universes, total = [], {}, [], 0
    for i, (n, length, conc) in enumerate(plans):
        hp, nh = _gen(ctx, n, length, ctx.seed * 100 + 70 + i)
        of = ctx.path("obs", "store-%d-%s.ndjson" % (i, conc))
        nrec = _record(ctx, binp, hp, conc, of)
        files.append(of)
        meta[of] = (hp, conc)
        total += nrec
        universes.append({"universe": "store histories (CalDAV and CardDAV deployment each)", "concretisation": conc, "histories": nh, "length": length, "calls": nrec})
        ctx.cov["traces_validated_against_impl"] += 2 * nh
        log("[F2] store histories %s: %d histories, %d observations" % (conc, nh, nrec))
    rej, _ = ctx.judge(JUDGE, files)
    # vacuity: the successful and the failing branch of every operation must have been exercised
    seen = set()
    for f in files:
        for o in vlib.read_ndjson(f):
            if o["k"] == "sstep":
                seen.add((o["op"]["op"], o["err"]))
                if o["op"]["flt"]:
                    seen.add(("fault", o["op"]["flt"]))
                if o["op"]["op"] in ("mget", "query") and len(o["objs"]) >= 2:
                    seen.add((o["op"]["op"], "multi"))
    need = {(o, e) for o in ("put", "get", "del", "mget", "mkcol") for e in (False, True)} | {("query", False), ("cols", False), ("mget", "multi"), ("query", "multi")} | {("fault", f) for f in ("h403", "h503", "w507", "plain")}
    if need - seen:
        raise Machinery("store histories never exercised %s" % sorted(map(str, need - seen)))
    # canaries
    rnd = random.Random(ctx.seed)
    badlines = {(f, ln) for f, ln, _ in rej}
    rows = vlib.read_ndjson(files[0])
    can, want = [], set()
    last = -10
    for i, o in enumerate(rows):
        c = None
        if o["k"] == "sstep" and (files[0], i + 1) not in badlines and i - last >= 3 and rnd.random() < 0.3 and len(want) < 300:
            c = _corrupt(o, rnd)
        if c is not None and c != o:
            can.append(c)
            want.add(i + 1)
            last = i
        else:
            can.append(o)
    if not want:
        raise Machinery("no store canaries could be built")
    cf = ctx.path("canary", "store.ndjson")
    vlib.write_ndjson(cf, can)
    crej, _ = ctx.judge(JUDGE, [cf], par=1)
    got = {ln for _, ln, _ in crej}
    ctx.cov["canaries_total"] += len(want)
    ctx.cov["canaries_rejected"] += len(got & want)
    if want - got:
        ex = can[sorted(want - got)[0] - 1]
        raise Machinery("StoreJudge accepted %d of %d corrupted steps, e.g. %s" % (len(want - got), len(want), json.dumps(ex)[:600]))
    sigs = {}
    if rej:
        again = {}
        for f, ln, s in rej:
            sig = s[4:]
            g = sigs.setdefault(sig, {"count": 0, "record": None})
            g["count"] += 1
            if g["record"] is None:
                hp, conc = meta[f]
                if f not in again:
                    f2 = f + ".again"
                    _record(ctx, binp, hp, conc, f2)
                    again[f] = open(f2).read().splitlines()
                line = open(f).read().splitlines()[ln - 1]
                if again[f][ln - 1] != line:
                    raise Machinery("re-execution observed something different for %s" % sig)
                obs = json.loads(line)
                hist = vlib.read_ndjson(hp)[obs["hi"]]
                g["record"] = {"case": {"kind": KIND, "sub": "store", "history": hist, "conc": conc, "seed": ctx.seed, "srv": obs["srv"], "step": obs["si"]}, "observed": obs}
    total += collect_sync(ctx, sigs, universes)
    return sigs, universes, total


def replay(ctx, rp):
    rec = json.load(open(rp))
    case = rec["record"]["case"]
    binp = ctx.go_build("clirec")
    hp = ctx.path("gen", "replay-store.ndjson")
    of = ctx.path("obs", "store-replay.ndjson")
    if case.get("sub") == "sync":
        # keep the history's index (the responder's layout rotates with it)
        vlib.write_ndjson(hp, [{"ops": []}] * case.get("hi", 0) + [case["history"]])
        _record(ctx, binp, hp, case["conc"], of, mode="sync")
        rej, _ = ctx.judge("SyncJudge", [of], par=1)
    else:
        vlib.write_ndjson(hp, [case["history"]])
        _record(ctx, binp, hp, case["conc"], of)
        rej, _ = ctx.judge(JUDGE, [of], par=1)
    hit = sorted({s for _, _, s in rej if s == "C10 " + rec["signature"]})
    for s in hit:
        print("VIOLATION property=C10 replay=%s signature=%s" % (rp, s[4:]))
    print("REPLAY property=C10 rejected=%d" % len(hit))
    return 1 if hit else 0


# ---------------------------------------------------------------------------------------------------------------- sync histories
def _corrupt_sync(o, rnd):
    if o["op"]["op"] != "sync":
        return None
    c = copy.deepcopy(o)
    ch = rnd.randrange(7)
    if ch == 0:
        c["req"]["tok"] += 1
    elif ch == 1:
        c["req"]["lim"] = c["req"]["lim"] + 1
    elif ch == 2:
        c["res"]["err"] = not c["res"]["err"]
    elif ch == 3 and not o["res"]["err"]:
        c["res"]["tok"] += 1
    elif ch == 4 and o["res"]["upd"]:
        c["res"]["upd"][0]["e"] += 1
    elif ch == 5 and o["res"]["del"]:
        c["res"]["del"] = c["res"]["del"][1:]
    elif ch == 6 and o["rep"]:
        c["rep"] = c["rep"][1:]
    elif ch == 6:
        c["rep"] = [{"n": "o9", "e": 1}]
    else:
        c["req"]["level"] = "infinite"
    return c


def collect_sync(ctx, sigs, universes):
    q = ctx.quick()
    ctx.model_check("Sync", "Sync", workers=4, timeout=900)
    binp = ctx.go_build("clirec")
    plans = [(40, 24, "hostile"), (30, 24, "blank")] if q else [(300, 30, "hostile"), (300, 30, "blank"), (200, 30, "plain"), (60, 150, "hostile")]
    files, meta, total = [], {}, 0
    for i, (n, length, conc) in enumerate(plans):
        hp, nh = _gen(ctx, n, length, ctx.seed * 100 + 80 + i, mod="Sync")
        of = ctx.path("obs", "sync-%d-%s.ndjson" % (i, conc))
        nrec = _record(ctx, binp, hp, conc, of, mode="sync")
        files.append(of)
        meta[of] = (hp, conc)
        total += nrec
        universes.append({"universe": "synchronisation histories (carddav.Client.SyncCollection against an independent RFC 6578 responder)", "concretisation": conc,
                          "histories": nh, "length": length, "steps": nrec})
        ctx.cov["traces_validated_against_impl"] += nh
        log("[F2] sync histories %s: %d histories, %d observations" % (conc, nh, nrec))
    rej, _ = ctx.judge("SyncJudge", files)
    seen = set()
    for f in files:
        for o in vlib.read_ndjson(f):
            if o["k"] == "ystep" and o["op"]["op"] == "sync":
                r = o["res"]
                seen.add("err" if r["err"] else "ok")
                if r["upd"]:
                    seen.add("upd")
                if r["del"]:
                    seen.add("del")
                if o["req"]["tok"] > 0:
                    seen.add("incremental")
                if o["req"]["lim"] > 0 and not r["err"]:
                    seen.add("limited-ok")
    need = {"err", "ok", "upd", "del", "incremental", "limited-ok"}
    if need - seen:
        raise Machinery("sync histories never exercised %s" % sorted(need - seen))
    rnd = random.Random(ctx.seed + 7)
    badlines = {(f, ln) for f, ln, _ in rej}
    rows = vlib.read_ndjson(files[0])
    can, want = [], set()
    for i, o in enumerate(rows):
        c = None
        if o["k"] == "ystep" and (files[0], i + 1) not in badlines and rnd.random() < 0.3 and len(want) < 300:
            c = _corrupt_sync(o, rnd)
        if c is not None and c != o:
            can.append(c)
            want.add(i + 1)
        else:
            can.append(o)
    if not want:
        raise Machinery("no sync canaries could be built")
    cf = ctx.path("canary", "sync.ndjson")
    vlib.write_ndjson(cf, can)
    crej, _ = ctx.judge("SyncJudge", [cf], par=1)
    got = {ln for _, ln, _ in crej}
    ctx.cov["canaries_total"] += len(want)
    ctx.cov["canaries_rejected"] += len(got & want)
    if want - got:
        ex = can[sorted(want - got)[0] - 1]
        raise Machinery("SyncJudge accepted %d of %d corrupted steps, e.g. %s" % (len(want - got), len(want), json.dumps(ex)[:600]))
    if rej:
        again = {}
        for f, ln, s in rej:
            sig = s[4:]
            g = sigs.setdefault(sig, {"count": 0, "record": None})
            g["count"] += 1
            if g["record"] is None:
                hp, conc = meta[f]
                if f not in again:
                    f2 = f + ".again"
                    _record(ctx, binp, hp, conc, f2, mode="sync")
                    again[f] = open(f2).read().splitlines()
                line = open(f).read().splitlines()[ln - 1]
                if again[f][ln - 1] != line:
                    raise Machinery("re-execution observed something different for %s" % sig)
                obs = json.loads(line)
                hist = vlib.read_ndjson(hp)[obs["hi"]]
                g["record"] = {"case": {"kind": KIND, "sub": "sync", "history": hist, "hi": obs["hi"], "conc": conc, "seed": ctx.seed, "step": obs["si"]}, "observed": obs}
    return total

"""C03: nothing outside the served directory is touched; reported hrefs stay inside and address the same resource.
Universe: TLC-enumerated raw segment sequences (names, "..", ".", empty) on both channels (request path, Destination)
x methods x representative trees x spellings, unmappable forms (NUL, relative, *), follow-up requests for every
reported href, and seeded random byte-string paths. Accepted iff the sandbox around the root is unchanged, no canary
secret is disclosed, and the event is a DavTree step for the in-root path DavTree.Normalize assigns to the raw path."""
import json, os
import vlib
from vlib import Machinery, log
import checks_dav

TREES = [
    [{"p": [], "k": "c", "d": "", "n": 0}],
    [{"p": [], "k": "c", "d": "", "n": 0}, {"p": ["a"], "k": "c", "d": "", "n": 0}, {"p": ["a", "b"], "k": "f", "d": "x", "n": 0},
     {"p": ["b"], "k": "f", "d": "y", "n": 0}],
    [{"p": [], "k": "c", "d": "", "n": 0}, {"p": ["a"], "k": "c", "d": "", "n": 0}, {"p": ["a", "a"], "k": "c", "d": "", "n": 0},
     {"p": ["a", "a", "b"], "k": "f", "d": "x", "n": 0}, {"p": ["b"], "k": "c", "d": "", "n": 0}, {"p": ["b", "a"], "k": "f", "d": "y", "n": 0}],
]


def raw_universe(ctx, binp, obs, inputs, info_all, cfg=None):
    """generate the raw segment-sequence universe and return (recorder function, trees file, requests file, size)"""
    q = ctx.quick()
    gen = os.path.dirname(ctx.path("gen", ".x"))
    rawout = os.path.join(gen, "raw.ndjson")
    out, st = ctx.model_check("DavRaw", cfg or ("DavRaw" if q else "DavRaw_thorough"), env={"RAWOUT": rawout}, workers=8)
    nraw = sum(1 for _ in open(rawout))
    trees = os.path.join(gen, "c03-trees.ndjson")
    vlib.write_ndjson(trees, TREES)

    def rec(name, **kw):
        kw.setdefault("shards", vlib.NCPU)
        files, info = checks_dav._record(ctx, binp, ctx.path("obs", name), **kw)
        for f in files:
            inputs[f] = {"trees": trees, "reqs": rawout}
        info["universe"] = name
        info_all.append(info)
        obs.extend(files)
        log("[F2] %s: %s" % (name, info))
    return rec, trees, rawout, nraw


def run(ctx, binp, obs, inputs, info_all):
    q = ctx.quick()
    rec, trees, rawout, nraw = raw_universe(ctx, binp, obs, inputs, info_all)

    styles = [0, 1, 2, 3]
    concs = ["id"] if q else ["id", "dots", "special"]
    # two served directories in one process (one recorder shard, so that nothing else runs next to it): the sibling directory
    # root2 is served by a second handler that is asked, read-only, for the same paths first
    rec("tworoots", mode="product", trees=trees, treemod=3, treerem=1, reqs=rawout, style=0, conc="id+two", shards=1)
    pending = None
    try:
        for conc in concs:
            for stl in styles:
                # the recorder shards by tree: with 3 trees, run the styles one after the other
                rec("raw-%s-s%d" % (conc, stl), mode="product", trees=trees, reqs=rawout, style=stl, conc=conc, follow="true")
        if q:
            # names that need escaping (blank, %, #, ?, non-ASCII, quotes): the hrefs reported for them must lead back to them
            rec("raw-special-s0", mode="product", trees=trees, reqs=rawout, style=0, conc="special", follow="true")
            # names beginning or ending with dots (not dot segments)
            rec("raw-dots-s0", mode="product", trees=trees, reqs=rawout, style=0, conc="dots", follow="true")
            # names with a backslash (an ordinary character here) and with pattern metacharacters
            rec("raw-backslash-s0", mode="product", trees=trees, reqs=rawout, style=0, conc="backslash", follow="true")
        else:
            rec("raw-backslash-s0", mode="product", trees=trees, reqs=rawout, style=0, conc="backslash", follow="true")
            rec("raw-globby-s0", mode="product", trees=trees, reqs=rawout, style=0, conc="globby", follow="true")
        rec("rand", mode="rand", trees=trees, n=(3000 if q else 60000), conc="id")
    except Machinery as e:
        # a recorder that cannot even set up its directories (several sandboxes in one process disturbing one another) is a
        # machinery failure -- unless what was recorded before already shows why: judge that first
        pending = e
        log("[F2] a recorder failed (%s); judging what was recorded before" % str(e).splitlines()[0][:200])
    rc = _finish(ctx, binp, obs, inputs, info_all, nraw, styles, concs, q)
    if pending is not None and rc == 0:
        raise pending
    return rc


def _finish(ctx, binp, obs, inputs, info_all, nraw, styles, concs, q):
    return checks_dav.judge_and_finish(ctx, binp, obs, inputs, info_all, len(TREES), nraw, tags=("C03", "C01"),
                                       extra_cov={"raw_request_universe": nraw, "spellings": styles, "concretisations": concs,
                                                  "rule": "every raw segment sequence up to length %d over {a,b,..,.,empty} x methods x {request path, Destination} x %d trees x 4 spellings, "
                                                          "unmappable forms, href follow-ups, and seeded random byte-string paths; canary files around the root watched on every event" % (4 if q else 5, len(TREES))})

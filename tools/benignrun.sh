#!/bin/bash
# usage: benignrun.sh <tier> <name> <patch.diff> [ids...] : run the checks whose code a property-preserving change touches on a scratch
# copy of /repo with the change applied (VERIF_REPO); /repo itself is not touched. One line per check; any exit != 0 needs a look.
TIER=$1; NAME=$2; PATCH=$3; shift 3
R=/tmp/repo-ben/$NAME
rm -rf $R; mkdir -p /tmp/repo-ben; cp -r /repo $R; rm -rf $R/.git/worktrees
( cd $R && git checkout -q -- . 2>/dev/null; git apply $PATCH ) || { echo "benign=$NAME PATCH-DOES-NOT-APPLY"; rm -rf $R; exit 2; }
FILES=$(grep '^+++ b/' $PATCH | sed 's/+++ b\///')
IDS="$@"
if [ -z "$IDS" ]; then
  for f in $FILES; do
    case $f in
      fs_local.go|server.go|webdav.go) IDS="$IDS C01 C02 C03 C04 C05 C11 C13 C17 C18";;
      internal/server.go) IDS="$IDS C01 C02 C03 C04 C08 C09 C10 C11 C12 C13 C17";;
      internal/elements.go|internal/xml.go|internal/internal.go) IDS="$IDS C01 C04 C05 C10 C11 C12 C13 C14 C15 C16";;
      internal/client.go|client.go) IDS="$IDS C05 C10 C12 C14 C18";;
      caldav/match.go) IDS="$IDS C06 C10";;
      caldav/caldav.go) IDS="$IDS C06 C08 C10 C19";;
      caldav/*) IDS="$IDS C04 C08 C10 C11 C12 C13 C14 C18";;
      carddav/match.go) IDS="$IDS C07 C10";;
      carddav/*) IDS="$IDS C04 C07 C09 C10 C11 C12 C13 C14 C18";;
      *) IDS="$IDS C01 C05 C10 C13";;
    esac
  done
  IDS=$(echo $IDS | tr ' ' '\n' | sort -u | tr '\n' ' ')
fi
for ID in $IDS; do
  OUT=/tmp/benrun-$NAME-$ID-$TIER.log
  t0=$(date +%s)
  ( cd /verif && VERIF_REPO=$R VERIF_NOEVIDENCE=1 bin/check $ID --tier $TIER > $OUT 2>&1 ); RC=$?
  echo "benign=$NAME property=$ID tier=$TIER exit=$RC wall=$(( $(date +%s) - t0 ))s violations=$(grep -c '^VIOLATION' $OUT) known=$(grep -c '^KNOWN-FINDING' $OUT) $(grep -m1 'MACHINERY' $OUT | cut -c1-160)"
done
rm -rf $R

#!/bin/bash
# usage: seedconfirm.sh <ID> <A|B> : confirm a seeded change in the scratch worktree /tmp/seed/<ID> and store it under /verif/seeded/<ID>-<V>/
set -u
ID=$1; V=$2
W=/tmp/seed/$ID; S=/tmp/seed-out/$ID/$V
export GOFLAGS=-mod=mod GOPROXY=off GOSUMDB=off GOTOOLCHAIN=local
cd $W || exit 2
git checkout -q -- . && git clean -fdq
# rebase worktree to current /repo HEAD so that the patch is confirmed against the tree the checks see
git checkout -q --detach $(git -C /repo rev-parse HEAD)
DIR=$(grep -oiE '(demo|drop|goes|place|directory)[^\n]*' $S/notes.txt | grep -oE '\b(caldav|carddav|internal)\b' | head -1)
[ -z "$DIR" ] && DIR=.
if grep -q '^package caldav' $S/demo_test.go; then DIR=caldav; fi
if grep -q '^package carddav' $S/demo_test.go; then DIR=carddav; fi
if grep -q '^package internal' $S/demo_test.go; then DIR=internal; fi
if grep -q '^package webdav' $S/demo_test.go; then DIR=.; fi
RACE=""; grep -qi -- '-race' $S/notes.txt && RACE="-race"
cp $S/demo_test.go $W/$DIR/zz_demo_test.go
echo "== demo without patch (dir=$DIR race=$RACE)"
go test -vet=off -count=1 $RACE -run TestDemo ./$DIR > /tmp/seed-out/$ID/$V.clean.log 2>&1; C=$?
rm -f $W/$DIR/zz_demo_test.go
git apply --check $S/patch.diff || { echo "PATCH DOES NOT APPLY"; exit 1; }
git apply $S/patch.diff
echo "== build + suite with patch"
go build ./... && go test -vet=off -count=1 ./... > /tmp/seed-out/$ID/$V.suite.log 2>&1; SU=$?
cp $S/demo_test.go $W/$DIR/zz_demo_test.go
echo "== demo with patch"
timeout 300 go test -vet=off -count=1 $RACE -run TestDemo ./$DIR > /tmp/seed-out/$ID/$V.patched.log 2>&1; P=$?
rm -f $W/$DIR/zz_demo_test.go
git checkout -q -- . && git clean -fdq
echo "clean_demo_exit=$C suite_with_patch_exit=$SU patched_demo_exit=$P"
if [ $C -eq 0 ] && [ $SU -eq 0 ] && [ $P -ne 0 ]; then
  D=/verif/seeded/$ID-$V; mkdir -p $D
  cp $S/patch.diff $D/patch.diff; cp $S/demo_test.go $D/demo_test.go; cp $S/notes.txt $D/notes.txt
  python3 - "$ID" "$V" "$DIR" "$RACE" <<'PY'
import json,sys,subprocess
ID,V,DIR,RACE=sys.argv[1:5]
notes=open('/verif/seeded/%s-%s/notes.txt'%(ID,V)).read()
meta={"property":ID,"variant":V,"base_commit":subprocess.check_output(['git','-C','/repo','rev-parse','--short','HEAD'],text=True).strip(),
 "demo":{"file":"demo_test.go","drop_into":DIR,"run":"go test -vet=off -count=1 %s -run TestDemo ./%s"%(RACE,DIR)},
 "confirmed":{"demo_passes_without_patch":True,"existing_suite_passes_with_patch":True,"demo_fails_with_patch":True,
              "how":"tools/seedconfirm.sh in a scratch worktree of /repo at base_commit"},
 "needs_to_manifest":notes[:1500],"detected_by":"(filled in by tools/seedrun.sh)"}
json.dump(meta,open('/verif/seeded/%s-%s/meta.json'%(ID,V),'w'),indent=1)
PY
  echo "STORED $D"
else
  echo "NOT CONFIRMED"; tail -5 /tmp/seed-out/$ID/$V.clean.log /tmp/seed-out/$ID/$V.suite.log /tmp/seed-out/$ID/$V.patched.log
fi

#!/bin/bash
# usage: seedrun.sh <ID-V> [tier] [property override]: apply a seeded change to /repo, run the property's check, undo, record the outcome.
set -u
SV=$1; TIER=${2:-quick}; ID=${3:-${SV%%-*}}
D=/verif/seeded/$SV
[ -f $D/patch.diff ] || { echo "no such seed $SV"; exit 2; }
cd /repo
if [ -n "$(git status --porcelain)" ]; then echo "/repo not clean"; exit 2; fi
trap 'git -C /repo checkout -q -- . ; git -C /repo clean -fdq' EXIT
git apply $D/patch.diff || { echo "patch does not apply to current /repo"; exit 2; }
cd /verif
OUT=/tmp/seedrun-$SV-$ID-$TIER.log
bin/check $ID --tier $TIER > $OUT 2>&1; RC=$?
NV=$(grep -c '^VIOLATION' $OUT)
echo "seed=$SV property=$ID tier=$TIER exit=$RC violations=$NV"
grep '^VIOLATION' $OUT | head -3 | cut -c1-260
grep 'MACHINERY' $OUT | head -2 | cut -c1-300
python3 - "$SV" "$ID" "$TIER" "$RC" "$NV" <<'PY'
import json,sys
sv,pid,tier,rc,nv=sys.argv[1:6]
p='/verif/seeded/%s/meta.json'%sv
m=json.load(open(p))
runs=m.setdefault("check_runs",{})
runs["%s/%s"%(pid,tier)]={"exit":int(rc),"violation_lines":int(nv)}
m["detected_by"]=sorted(k for k,v in runs.items() if v["exit"]==1)
json.dump(m,open(p,'w'),indent=1)
PY

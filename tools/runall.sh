#!/bin/bash
# usage: runall.sh <tier> <seed> [ids...] : run the checks one after the other, print one summary line per property
TIER=${1:-quick}; SEED=${2:-1}; shift 2 2>/dev/null
IDS=${@:-C01 C02 C03 C04 C05 C06 C07 C08 C09 C10 C11 C12 C13 C14 C15 C16 C17 C18 C19}
cd "$(dirname "$0")/.."
for id in $IDS; do
  t0=$(date +%s)
  VERIF_SEED=$SEED bin/check $id --tier $TIER > /tmp/runall-$id-$TIER-$SEED.log 2>&1; rc=$?
  echo "$id tier=$TIER seed=$SEED exit=$rc wall=$(( $(date +%s) - t0 ))s $(grep -c '^VIOLATION' /tmp/runall-$id-$TIER-$SEED.log) violations $(grep -c '^KNOWN-FINDING' /tmp/runall-$id-$TIER-$SEED.log) known $(grep MACHINERY /tmp/runall-$id-$TIER-$SEED.log | head -1 | cut -c1-200)"
done

#!/usr/bin/env python3
"""Regenerates /verif/MANIFEST.json from the table below (single source of truth for the interface file)."""
import json, os, subprocess
HERE = os.path.dirname(os.path.dirname(os.path.abspath(__file__)))
props = [json.loads(l) for l in open(os.path.join(HERE, "properties.jsonl"))]

TB = ("Trusted base: TLC + CommunityModules Json reader; Go toolchain and net/http/httptest; the harness's concretiser, snapshot and "
      "minimal XML reader (exercised on every run by judge canaries: corrupted observations must be rejected); tmpfs semantics.")

CLAIMED = {
 "C01": dict(engine="davtree", design="5 C01, App. A",
   technique="TLA+ resource-tree spec (DavTree) model-checked by TLC; TLC-enumerated (tree, request) universe and TLC-simulated histories replayed on the real handler; observations trace-validated by a TLC judge",
   text="Exhaustive over two bounded instances (all 364 trees of 2 names/depth 2 x ~2.8k requests; 427 trees of depth 3/<=6 nodes x ~1.6k requests) plus simulated histories: every observed (status, tree effect, report) must be an outcome of the TLC-checked RFC 4918 outcome relation. Bounded-exhaustive, not a proof for unbounded trees."),
 "C02": dict(engine="davtree", design="5 C02",
   technique="TLC-checked action property FailureAtomic on DavTree + trace validation of every failing observation (incl. body faults at every offset) by the TLC judge",
   text="Every recorded event with status >= 400 (or a panic) must leave the snapshot of the served directory unchanged; universe = failing share of the C01 products, the If-Match/If-None-Match table, and PUT bodies failing at every offset (short) / boundary+seeded offsets (70 kB), by I/O error and by context cancellation."),
 "C03": dict(engine="davtree", design="5 C03",
   technique="lexical path layer in TLA+ (DavTree.Normalize, laws checked by TLC in DavRaw); TLC-enumerated raw segment sequences on both channels replayed in several spellings; trace validation by the TLC judge with sandbox canaries",
   text="Every raw segment sequence up to length 4 (thorough 5) over {name, name, .., ., empty} x 9 request shapes (request path and Destination channels) x 3 trees x 4 spellings (literal, %2e dots, %2F separators, absolute-URL form), unmappable forms (NUL, relative, *), follow-up request for every reported href, and seeded random byte-string paths: the sandbox around the root (parent, prefix-sharing sibling, same-name siblings, ancestors) must stay byte-identical, no canary secret may appear in a response, and each event must be a DavTree step for the path Normalize assigns. 'Reads nothing outside' is observed through canary secrets, not modelled."),
 "C04": dict(engine="davtree", design="5 C04",
   technique="CondOK truth table in the TLA+ DavTree spec judged by TLC on every (tree, conditional request) pair; TLC-simulated histories with announced entity tags threaded through the trace spec; helper/hand-over table judged by CondJudge",
   text="Exhaustive 6x6 If-Match x If-None-Match classes x {PUT, DELETE} x every path on every tree of the bounded instance (tags are real server announcements: current = announced since last write, stale = announced before a rewrite); histories validate that PUT/GET/HEAD/PROPFIND announce one and the same string for an unmodified resource; ConditionalMatch helpers and byte-for-byte hand-over to WebDAV/CalDAV/CardDAV backends over adversarial tag strings."),
 "C05": dict(engine="davwire", design="5 C05",
   technique="TLC-enumerated client-call cases (call x endpoint spelling x name form x options x backend) executed with the real webdav.Client against the real handler over LocalFileSystem and over an in-memory double; results and recorded backend calls judged by TLC against the backend's own records (got = want)",
   text="1 030 cases per concretisation: Stat / ReadDir (flat, recursive) / Open / Create / Mkdir / RemoveAll / Copy / Move x endpoints {no path, /, /p, /p/, /p/q/} x absolute / relative names x option combinations x {LocalFileSystem, in-memory double with sizes up to 2^40, sub-second non-UTC times, MIME types with parameters, tags with quotes and non-ASCII}; every ReadDir entry re-addressed through the same client; names with spaces, %, #, ?, ;, +, quotes, XML metacharacters, non-ASCII. The escaping layers are exercised by sampling character classes, not by TLC."),
 "C06": dict(engine="filters", design="5 C06",
   technique="RFC 4791 9.7-9.9 transcribed as TLA+ operators (CalFilter); TLC checks their laws and enumerates the bounded universes; every case executed on the real caldav.Match/Filter; verdicts judged by TLC",
   text="Exhaustive over the bounded instance: every filter tree (depth <= 3; is-not-defined, text-match x negate, param-filters) x every calendar (quick 404 x 1057, thorough 12 692 x 1057 pairs); every relative placement incl. all equalities of range start/end vs DTSTART/DTEND on a six-point line for each of the five ways an event states its end, closed/open-ended/open-start ranges, three zones; recurring DAILY/WEEKLY x COUNT 1-4 x three durations x 104 ranges; property time ranges. Filter judged as the order-preserving matching subsequence; arguments compared before/after."),
 "C07": dict(engine="filters", design="5 C07",
   technique="RFC 6352 10.5 transcribed as set-valued TLA+ operators (CardFilter: invalid enumeration values must error unless they cannot matter); TLC-enumerated universes executed on the real carddav.Match/Filter and judged by TLC",
   text="Exhaustive over: outer test x inner test x match type (each incl. unset and invalid) x negate x is-not-defined x presence x texts/values over a two-letter alphabet with up to two text-matches (21k-38k queries x 6 cards), 0-2 prop-filters over two properties (3 252 queries x 9 cards), card lists of length 0-4 x Limit -1..6 x 10 projections x 3 queries (29 040 cases); repeated under several alphabets (XML metacharacters, non-ASCII, case variants, long strings)."),
 "C18": dict(engine="conc", design="5 C18",
   technique="TLA+ Upload spec (safety + liveness under fairness) whose full TLC state graph is covered transition by transition with behaviours replayed through the real Client.Create via a scripted HTTPClient; real net/http upload traces validated by a TLC trace spec with inferred transport steps; DavConc (all interleavings) + per-client histories of concurrent runs judged by DavTree; Go race detector for the data-race clause",
   text="Upload: every one of the 3 897 transitions / 40 fault plans of the model (2 chunks x 2 units) is stepped through the real code at several unit sizes (1 B .. 1 MiB); Close result nil <=> 2xx, Close only after the answer (checked by construction: the answer is not issued before), writes fail once the body is closed, termination (10 s watchdog), no library goroutine left (goroutine profile). Real transport: 75 uploads (4 server faults x 4 read amounts x 5 sizes up to 8 MiB) must each be a behaviour of Upload. Concurrency: DisjointIndependence model-checked over all interleavings (424k states); 2-8 goroutines x 12-50 requests on disjoint subtrees through one handler / one client, GOMAXPROCS varied, every per-client log a sequential DavTree history; -race on every recorder.",
   note="Trusted base: TLC; the scripted HTTPClient as a faithful stand-in for a RoundTripper (always closes the body); the Go race detector (no false positives) decides the data-race clause, not the specification; watchdog-based hang detection is confirmed by re-execution."),
 "C19": dict(engine="filters", design="5 C19",
   technique="RFC 4791 4.1 rules as TLA+ operators (CalFilter.Valid/TheType/TheUid); all 108 482 calendars enumerated by TLC, executed on the real ValidateCalendarObject, judged by TLC (incl. count and order of the executed universe)",
   text="Exhaustive in both tiers: every sequence of <= 4 components over five types x UID {absent, u1, u2}, with and without METHOD; accept/reject, returned type and UID, empty results on rejection, argument unchanged; UID tokens concretised several ways (escaped characters, prefix-related UIDs)."),
 "C08": dict(engine="wire", design="5 C08",
   technique="RFC 4791 request grammar as a TLA+ module over abstract XML (CalWire: independent writer and reader, law reader(writer(q)) = q checked by TLC); TLC-enumerated queries replayed in both directions through the real client and server; observations judged by TLC",
   text="Every calendar-query / calendar-multiget of the bounded universe (filter trees with is-not-defined at all three levels, negate-condition, time ranges closed / open-start / open-end on components and properties, param-filters; component requests of depth 2 with names, allprop/prop, allcomp/comp, expand; href lists 1-3 needing escaping): wire->backend (the specification's document rendered in 4 lexical styles: default namespaces, conventional and misleading prefixes, reversed attributes, whitespace, CDATA) must reach the recording backend as the denoted request; client->wire (captured body re-read by an independent reader) must have RFC shape and DTD child order and denote the same request; instants handed over in several zones must appear as the same UTC instant; documents outside the RFC must be refused with 4xx and no backend call."),
 "C09": dict(engine="wire", design="5 C09",
   technique="RFC 6352 request grammar as a TLA+ module over abstract XML (CardWire); same construction as C08; enumeration values exhaustively including unset and invalid ones",
   text="Every addressbook-query / multiget of the bounded universe (12k quick, 170k thorough: test at both levels x match type x negate x is-not-defined x param-filters x limit x selection, each enumeration incl. unset and an invalid token) in both directions, 4 lexical styles, several token concretisations; invalid enumeration values must be refused (client error or 4xx without backend call), never guessed; 27 kinds of documents outside the RFC must be refused."),
 "C10": dict(engine="davwire", design="5 C10",
   technique="TLC-enumerated backend contents and exchange kinds; real clients <-> real handlers <-> backend doubles in process; server multiget answers read by an independent parser; conformant multi-status documents in 7 layouts from an independent writer fed to the real clients; judged by TLC (got = want)",
   text="4 340 cases per concretisation: discovery of 0-2 collections (name, description, size limit, supported component set), objects via GET / multiget / query (path, tag, time to the second, payload equality of escaped / folded / multi-valued / non-ASCII iCalendar and vCard), multiget href lists with per-href outcome ok/404/403/500 (each href once, in order, with the backend's own status), PUT (backend receives an equal object, client gets the backend's path / tag / time), independent-writer documents (split propstats, unknown extras, 404 propstats, misleading prefixes, whitespace, CDATA) incl. sync-collection. Fidelity of go-ical / go-vcard themselves is outside go-webdav."),
 "C11": dict(engine="hier", design="5 C11",
   technique="Scope and per-property accounting rules as TLA+ operators (Hier: Scope, PropNameOK, AllPropOK, PropOK; laws of Scope checked by TLC); TLC-enumerated PROPFIND cases executed on the real WebDAV / CalDAV / CardDAV handlers and ServePrincipal; answers parsed by a strict reader and judged by TLC",
   text="Every (server, resource at every level incl. root, Depth absent/0/1/infinity, requested-name sequence with duplicates, unknown DAV: and foreign-namespace names, layout with 0-2 collections x 0-2 objects) case: the propname, allprop, prop, empty-body and no-form answers of one resource form one mini-trace whose availability set TLC infers from propname; every response exactly one href, scope exactly Hier.Scope, each distinct requested name exactly once (200 if available, empty 404 otherwise), allprop = all available names with 200, empty body = allprop, no form = 400, status 207, well-formed namespace-correct XML."),
 "C12": dict(engine="hier", design="5 C12, App. B",
   technique="routing relation as TLA+ operator Hier.RouteOK over (method, level below the prefix); TLC-enumerated requests under 0-3 segment prefixes executed on the real handlers with recording backends; real clients run the discovery chain over a real HTTP server; judged by TLC",
   text="Every (CalDAV|CardDAV, prefix of 0-2 (thorough 3) segments, with/without trailing slash, path of level 0-5 on the current user's chain and on foreign chains, request trailing slash, method, PROPFIND Depth) request: the backend operation of that level must be invoked with the request path byte for byte, MKCOL only at collection level else 403 without create call, foreign principal / home-set PROPFIND exposes no href of the current user; the clients' discovery chain from the mount root and via the well-known redirect returns exactly the backend's principal, home set, collections and objects for every prefix x layout; three segment concretisations incl. segments equal to or anagrams of the prefix's and names needing escaping."),
 "C13": dict(engine="robust", design="5 C13",
   technique="request classification (Malformed / grey / well-formed) and structure-aware XML mutation as TLA+ operators (Robust); TLC enumerates the request universe with its classification and every single-edit mutant of representative valid documents; real handlers with recording backends; judged by TLC",
   text="15 528 requests (4 servers x 14 methods incl. unknown x hierarchy levels x Depth classes x 6 Content-Type classes x 8 body classes, COPY/MOVE x Depth x Overwrite x Destination classes), 493 single-edit mutants (delete / duplicate / rename element, swap namespace, drop / rename / corrupt attribute, alter text at every node) of calendar-query, calendar-multiget, addressbook-query, addressbook-multiget, propfind and mkcol documents in two lexical styles, every truncation of the valid documents and seeded random bytes: no panic, a complete response; malformed => 4xx and no create / update / delete backend call (file server: directory unchanged); mutated documents never 5xx."),
 "C14": dict(engine="davwire", design="5 C14",
   technique="client outcome classification as TLA+ operator DavWire.ClientOutcomeOK; TLC enumerates (method, status, content type, body class, failure placement) cases; real clients driven with a scripted HTTPClient; observations judged by TLC",
   text="All 23 public client methods of the three packages x status codes (35 representative in quick, all of 100-599 in thorough) x 6 content types x 7 body classes (valid, empty, wrong root, truncated at a varying offset, garbage, HTML, DAV:error) plus per-response / per-propstat failure placements inside valid multi-status documents: error iff not 2xx / not 207 where required / body not interpretable / a failing response or propstat (a 404 response of sync-collection is a deletion; an optional property under 404 is absent, not an error); the error carries the status code and the DAV:error condition; no panic, no hang (10 s watchdog), no data with an error."),
 "C15": dict(engine="xmlprims", design="5 C15",
   technique="Namespaces-in-XML scoping as TLA+ operator Xml.Expand over lexical trees (laws: prefix-renaming invariance, token-stream balance and length, checked by TLC); TLC-enumerated lexical trees rendered, captured as RawXMLValue inside the repository's own package (go test -overlay), written out three ways and re-read by an independent reader; judged by TLC",
   text="7 648 (thorough ~40k) well-formed lexical trees covering every kind of declaration (none, default, redeclaration, undeclaration, prefixes incl. rebinding and a second prefix) on root / child / grandchild, prefixed and unprefixed elements and attributes, text, CDATA, comments, mixed content: xml.Marshal of the raw value, TokenReader -> second raw value -> Marshal, and the value embedded in a typed DAV:prop must each re-read as Canon(Expand(lexical)); token stream finite, balanced, equal to the model's; typed decoding through the raw value equals direct decoding for 14 typed documents."),
 "C16": dict(engine="xmlprims", design="5 C16",
   technique="primitive domains and near-miss texts enumerated by TLC (Prims: character-class sequences, status codes, instants x zones); encode-then-decode executed on the real codec methods inside the repository's packages (go test -overlay; dateWithUTCTime in caldav); judged by TLC (back = val without error; refusal with error and no value)",
   text="Depth and Overwrite exhaustively; status codes (all of 100-999 in thorough) x 5 reason-phrase classes; entity tags (through the header form and through XML) and href paths as every sequence of up to 2 (thorough 3) out of 15 character classes, each class concretised two ways; HTTP dates and iCalendar UTC date-times for 7 instants (epoch, leap day, year ends, year 1, 9999, sub-second) x 5 zone offsets to the second; 56 near-miss texts per grammar that must be refused. Class sequences are concretised by sampling; TLC decides the finite domains only."),
 "C17": dict(engine="davtree", design="5 C17",
   technique="leak bit recorded on every event of the DavTree universes, required FALSE by the TLC judge",
   text="Every response (headers and body) of every (tree, request) pair, body fault and conditional request is scanned for the absolute path of the sandbox (and its symlink-resolved form); the specification's responses carry no such datum, so any occurrence is a reject."),
}

# universes added after four rounds of seeded changes (DESIGN.md 11.7); appended to the level text of each check
EXT = {
 "C01": "Further universes: zero-length files, trees large in size only (130 members, 8-level chain, 200 kB / 1.1 MB files), names with dots / blanks / URL metacharacters / URL-like forms, transfer-then-write pairs (DavPairs: every transfer the model carries out followed by every write below its source and destination), modification time among the judged entity headers. Request bodies delivered in short reads, noisy equivalent spellings of the request path (trailing slash, empty and dot segments), names with pattern metacharacters (q*, a[b, {a,b}) next to siblings the pattern matches, names with a backslash.",
 "C02": "Further universes: uploads with an intact body under a pre-cancelled context, faulting uploads under If-None-Match: *, siblings named like scratch files of the target (a.part, a.tmp, a~, .a.tmp), dotted names, the raw spelling universe of C03 judged for failure atomicity, big trees. Storage faults (file size limit lowered while the request is served) on uploads and transfers; request contexts cancelled before the handler runs or from their k-th look on, for every transfer, removal and collection creation.",
 "C03": "Quick tier also runs names needing escapes and dotted names with href follow-ups. Two served directories in one process (the sibling directory served by a second handler that is asked for the same paths first); names with a backslash; a recorder failure is only a machinery failure if what was recorded before shows nothing.",
 "C04": "Conditionals on absent resources follow the statement literally (If-None-Match holds, If-Match 412); the 'other' and 'bad' tag classes rotate through concretisations derived from the current tag (case-folded, suffixed, shortened; unquoted current tag, W/ prefix, unterminated).",
 "C05": "Plus client-driven histories (DavSim ClientMix -> real webdav.Client -> wire round trip -> real Handler; DavJudge WireChecks / ResultChecks) incl. a large-tree history, URL-like and index names (webby), non-canonical MIME spellings, a 4 500-member listing.",
 "C07": "Unknown enumeration values judged by in-order evaluation (LazyQuery; eager validation stays accepted); is-not-defined combined with text-matches; a card with a repeated property. The largest limit of the platform (MaxInt).",
 "C08": "Conformant spellings the own client never emits (calendar-data without comp, negate-condition=no, collation), documents beyond 64 KiB (3 000 hrefs, 100 000-character text), sub-second instants, a multiget without paths used for two collections in a row.",
 "C09": "Conformant spellings the own client never emits (negate-condition=no, collation), documents beyond 64 KiB, carriage returns in match texts, a multiget without paths used twice, more non-numeric limits. Limits beyond 32 bits (2^32+7, MaxInt64) as concretisations of the specification's largest limit tokens, in the API value and in the document text.",
 "C10": "Absent tag / time values, empty component set, absent404 layouts, wrapped backend errors, a 150-href multiget, PUT by relative name. Plus store histories: a TLA+ state machine of the object store (Store: put / get / del / mget / query / cols / mkcol; TLC checks TagsFresh, WellFormed, Pure, ReadYourWrite, QuerySound, NewTag on a bounded instance), TLC-simulated histories of 24-120 calls performed by two long-lived real clients against one long-lived real CalDAV and CardDAV handler over a stateful backend, every answer judged against the state the MODEL reached (StoreJudge). And synchronisation histories: RFC 6578 state machine (Sync: server store + change log, client token + replica; TLC checks Converged, Snapshot, Monotone, CatchUp), simulated histories of server-side changes and SyncCollection calls (limits, truncation) against an independent responder, the request on the wire (token, level, limit), the answer and the caller's replica judged by SyncJudge.",
 "C11": "Lower bound MustHave of properties per resource kind (incl. a zero-length file); the same local name in two namespaces. Names that differ from a known one in letter case only.",
 "C12": "A second user (request context) on the same handler in every discovery chain.",
 "C13": "Graft mutants, byte-edit universe over rich valid documents (single edits exhaustive, pairs seeded), PROPPATCH mutants, the documents CalWire / CardWire classify as outside the RFC, malformed conditional headers, object type with unparsable parameters. A 207 must carry a well-formed document (complete response); selection conflicts on a nested comp.",
 "C14": "Per-property failing propstats (x<k>f<code>), per-response statuses of every class (resp<code>), failed responses carrying condition and description, stalled bodies, unparsable payloads, long-lived clients; the DAV:error condition must arrive as an element of the library's error value.",
 "C15": "Trees large in size only (48-level chain, 300 children; Xml operators evaluate eagerly), capture into a used value, typed decoding of namespace variants (agreement required).",
 "C16": "Near-miss texts generated from token sequences (HTTP dates, iCalendar date-times).",
 "C17": "OS-limit universe (ENAMETOOLONG), spellings of the served directory (trailing slash, /., doubled separator, dot-dot detour, relative to the working directory). Storage faults (no file may grow beyond 4096 bytes while the request is served: RLIMIT_FSIZE, one recorder shard; skipped with a note if the limit cannot be set) on uploads and transfers; broken uploads whose target was removed in the meantime.",
 "C18": "CalDAV / CardDAV handlers and the principal helper shared by up to 32 goroutines under the race detector (davxrec), every answer compared with the answer alone; DavConc3 bounded to four requests in total (6.1 M states), DavConcDeep. A design probe decides whether the step-by-step replay applies (request in flight from Create on, synchronous Writes); an implementation of another shape is judged on the recorded direction only; a failing Write after the transport has answered or failed is a behaviour of the model (TCloseBody commutes).",
 "C19": "METHOD values per concretisation, including the empty one.",
}

NA_REASON = "check not built yet (work in progress; DESIGN.md section 5 describes the planned TLA+ check)"

checks, na = [], []
for p in props:
    i = p["id"]
    if i in CLAIMED:
        c = CLAIMED[i]
        checks.append({
            "property_id": i,
            "quick_cmd": "bin/check %s --tier quick" % i,
            "thorough_cmd": "bin/check %s --tier thorough" % i,
            "evidence_file": "/verif/evidence/%s.json" % i,
            "replay_cmd_template": "bin/check %s --replay {path}" % i,
            "engine": c["engine"],
            "level_claimed": {"category": c.get("level", "model_checking"), "text": c["text"] + (" " + EXT[i] if i in EXT else ""), "design_ref": "DESIGN.md section " + c["design"]},
            "level_note": c.get("note", TB),
            "technique": c["technique"],
        })
    else:
        na.append({"property_id": i, "reason": NA_REASON})

hooks_commits = []
m = {
 "version": 1,
 "setup_cmd": "bin/setup",
 "hooks": {"guard": "verif", "enable": "harness binaries are built with `go build -tags verif` from /repo's working tree (module replace => /repo); no hook file is currently needed, the tag is reserved",
           "baseline_off_cmd": "cd /repo && GOFLAGS=-mod=mod GOPROXY=off GOSUMDB=off go test -vet=off -count=1 ./...",
           "source_commits": hooks_commits, "add_only": True},
 "engines": [
  {"name": "filters", "path": "spec/CalFilter.tla spec/CalGen.tla spec/CalJudge.tla spec/CardFilter.tla spec/CardGen.tla spec/CardJudge.tla spec/ValJudge.tla harness/cmd/calrec harness/cmd/cardrec lib/checks_filter.py",
   "serves_properties": ["C06", "C07", "C19"],
   "kind_free_text": "RFC decision procedures transcribed as TLA+ operators; TLC enumerates the bounded input space and judges every verdict of the real Go functions"},
  {"name": "conc", "path": "spec/Upload.tla spec/UploadTrace.tla spec/DavConc.tla lib/upgraph.py harness/cmd/uprec harness/cmd/concrec harness/cmd/davxrec lib/checks_conc.py",
   "serves_properties": ["C18"],
   "kind_free_text": "protocol model with liveness; state-graph transition cover replayed into the real code; trace validation of real-transport runs; concurrency histories under the race detector"},
  {"name": "wire", "path": "spec/XmlOps.tla spec/CalWire.tla spec/CalWireGen.tla spec/CalWireJudge.tla spec/CardWire.tla spec/CardWireGen.tla spec/CardWireJudge.tla harness/xmlt harness/cmd/wirerec lib/checks_wire.py",
   "serves_properties": ["C08", "C09"],
   "kind_free_text": "protocol message grammar as TLA+ operators over abstract XML; TLC proves writer/reader agreement and enumerates the message universe; real client/server bound in both directions"},
  {"name": "hier", "path": "spec/Hier.tla spec/HierGen.tla spec/HierJudge.tla harness/cmd/hierrec harness/backends lib/checks_hier.py",
   "serves_properties": ["C11", "C12"],
   "kind_free_text": "hierarchy / routing / scope / accounting rules as TLA+ operators; TLC enumerates requests; real handlers with recording backends and real clients; TLC judge"},
  {"name": "davwire", "path": "spec/DavWire.tla spec/DavWireGen.tla spec/C14Judge.tla spec/C10Gen.tla spec/C10Judge.tla spec/StoreOps.tla spec/Store.tla spec/StoreJudge.tla spec/SyncOps.tla spec/Sync.tla spec/SyncJudge.tla lib/checks_store.py spec/C05Gen.tla spec/C05Judge.tla harness/cmd/clirec harness/cmd/clihist lib/checks_davwire.py lib/checks_c10.py lib/checks_c05.py lib/checks_clihist.py",
   "serves_properties": ["C05", "C10", "C14"],
   "kind_free_text": "client-side relations in TLA+; TLC enumerates cases and judges observations of the real clients against backend doubles, scripted transports and independent-writer documents"},
  {"name": "xmlprims", "path": "spec/Xml.tla spec/XmlGen.tla spec/XmlJudge.tla spec/Prims.tla spec/PrimsJudge.tla harness/overlay lib/checks_xml.py",
   "serves_properties": ["C15", "C16"],
   "kind_free_text": "namespace scoping and primitive grammars in TLA+; recorders injected into the repository's packages with go test -overlay; TLC judge"},
  {"name": "robust", "path": "spec/Robust.tla spec/RobustGen.tla spec/RobustJudge.tla harness/cmd/robrec lib/checks_robust.py",
   "serves_properties": ["C13"],
   "kind_free_text": "malformedness classification and XML mutation operators in TLA+; TLC enumerates requests and mutants; real handlers; TLC judge"},
  {"name": "davtree", "path": "spec/DavTree.tla spec/DavTreeMC.tla spec/DavSim.tla spec/DavPairs.tla spec/DavRaw.tla spec/DavJudge.tla spec/CondJudge.tla harness/cmd/davrec harness/cmd/c04rec harness/dav lib/checks_dav.py lib/checks_dav_c03.py lib/checks_dav_c04.py",
   "serves_properties": ["C01", "C02", "C03", "C04", "C17"],
   "kind_free_text": "TLA+ resource-tree specification; TLC model check + case generation; Go recorder on the real webdav.Handler; TLC trace-validation judge"},
 ],
 "checks": checks,
 "notes": "All checks: bin/check <id> [--tier quick|thorough] [--replay file]; exit 0 held / 1 violation / 2 machinery failure. Known findings: known_findings.json (open findings by signature or by a pattern over signatures; repaired defects as fixed: lines). seeded/: 230 confirmed property-breaking changes with the check that reports each; benign/: 24 property-preserving changes used to hunt false alarms (tools/benignrun.sh); tools/seedpar.sh runs seeded changes on scratch copies of the repository (VERIF_REPO), never on /repo.",
 "not_applicable": na,
}
json.dump(m, open(os.path.join(HERE, "MANIFEST.json"), "w"), indent=1)
print("claimed", len(checks), "not_applicable", len(na))

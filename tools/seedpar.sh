#!/bin/bash
# usage: seedpar.sh <jobs> <tier> <ID-V>... : run the checks against seeded changes in parallel, each on its own scratch copy of
# /repo (VERIF_REPO); /repo itself is not touched. Prints one line per seed and updates seeded/<ID-V>/meta.json.
J=$1; TIER=$2; shift 2
one() {
  SV=$1; TIER=$2; ID=${SV%%-*}
  D=/verif/seeded/$SV; R=/tmp/repo-par/$SV
  rm -rf $R; mkdir -p /tmp/repo-par; cp -r /repo $R; rm -rf $R/.git/worktrees
  ( cd $R && git checkout -q -- . 2>/dev/null; git apply $D/patch.diff ) || { echo "seed=$SV PATCH-DOES-NOT-APPLY"; rm -rf $R; return; }
  OUT=/tmp/seedrun-$SV-$ID-$TIER.log
  ( cd /verif && VERIF_REPO=$R bin/check $ID --tier $TIER > $OUT 2>&1 ); RC=$?
  NV=$(grep -c '^VIOLATION' $OUT)
  echo "seed=$SV property=$ID tier=$TIER exit=$RC violations=$NV $(grep MACHINERY $OUT | head -1 | cut -c1-160)"
  python3 - "$SV" "$ID" "$TIER" "$RC" "$NV" <<'PY'
import json,sys
sv,pid,tier,rc,nv=sys.argv[1:6]
p='/verif/seeded/%s/meta.json'%sv
m=json.load(open(p))
runs=m.setdefault("check_runs",{})
runs["%s/%s"%(pid,tier)]={"exit":int(rc),"violation_lines":int(nv)}
m["detected_by"]=sorted(k for k,v in runs.items() if v["exit"]==1)
json.dump(m,open(p,'w'),indent=1)
PY
  rm -rf $R
}
export -f one
printf '%s\n' "$@" | xargs -P $J -I{} bash -c "one {} $TIER"

------------------------------ MODULE CardJudge ------------------------------
(* F3 for C07: verdicts of the real carddav.Match / carddav.Filter against the CardFilter operators. *)
EXTENDS CardFilter, Json, TLCExt, IOUtils, SequencesExt

Dir == IOEnv.DIR
Kind == IOEnv.KIND      \* "m1" | "m2" | "f"
Queries == IF Kind = "m1" THEN ndJsonDeserialize(Dir \o "/q1.ndjson") ELSE IF Kind = "m2" THEN ndJsonDeserialize(Dir \o "/q2.ndjson") ELSE << >>
Cards == IF Kind = "m1" THEN ndJsonDeserialize(Dir \o "/cards1.ndjson") ELSE IF Kind = "m2" THEN ndJsonDeserialize(Dir \o "/cards2.ndjson") ELSE << >>
FCs == IF Kind = "f" THEN ndJsonDeserialize(Dir \o "/fcases.ndjson") ELSE << >>
KindRows == IF Kind = "f" THEN ndJsonDeserialize(Dir \o "/kinds.ndjson") ELSE << >>
KindCard(k) == KindRows[CHOOSE i \in 1..Len(KindRows) : KindRows[i].k = k].card
Obs == ndJsonDeserialize(IOEnv.OBS)

BadSet(e) == {j \in 1..Len(Cards) : e.vs[j] \notin Accepted(Queries[e.q], Cards[j])}
Shape(q) == "test=" \o (IF q.test = "" THEN "unset" ELSE q.test) \o " filters=" \o ToString(Len(q.filters))
            \o (IF Len(q.filters) > 0 THEN
                  " ptest=" \o (IF q.filters[1].test = "" THEN "unset" ELSE q.filters[1].test)
                  \o (IF q.filters[1].isnd THEN " isnd" ELSE " tms=" \o ToString(Len(q.filters[1].tms)))
                  \o (IF Len(q.filters[1].tms) > 0 THEN " mt=" \o (IF q.filters[1].tms[1].mt = "" THEN "unset" ELSE q.filters[1].tms[1].mt)
                                                         \o (IF q.filters[1].tms[1].neg THEN " neg" ELSE "") ELSE "")
                ELSE "")
SetStr(S) == (IF 0 \in S THEN "0" ELSE "") \o (IF 1 \in S THEN "1" ELSE "") \o (IF 2 \in S THEN "E" ELSE "")
VecSig(e, B) == LET j == CHOOSE x \in B : \A y \in B : x <= y IN
                "match " \o Shape(Queries[e.q]) \o " present=" \o ToString(Has(Cards[j], "N1"))
                \o " got=" \o ToString(e.vs[j]) \o " accepted=" \o SetStr(Accepted(Queries[e.q], Cards[j]))

FilterOK(e) ==
  LET fc == FCs[e.c]
      cs == [i \in 1..Len(fc.list) |-> KindCard(fc.list[i])]
      want == FilterIdx(fc.q, cs) IN
  /\ ~e.err /\ ~e.panic /\ e.vals
  /\ e.idx = want
  /\ Len(e.names) = Len(want)
  /\ \A i \in 1..Len(want) : {e.names[i][k] : k \in 1..Len(e.names[i])} = Projected(fc.q, cs[want[i]])
FilterSig(e) ==
  LET fc == FCs[e.c]
      cs == [i \in 1..Len(fc.list) |-> KindCard(fc.list[i])]
      want == FilterIdx(fc.q, cs) IN
  "filter limit=" \o (IF fc.q.limit <= 0 THEN "none" ELSE IF fc.q.limit < Len(Matching(fc.q, cs)) THEN "cuts" ELSE "ample")
  \o " selection=" \o (IF fc.q.allprop THEN "allprop" ELSE IF fc.q.props = << >> THEN "none" ELSE "props")
  \o (IF e.err THEN " error" ELSE IF e.panic THEN " panic" ELSE IF e.idx # want THEN " wrong-objects got=" \o ToString(Len(e.idx)) \o " want=" \o ToString(Len(want))
      ELSE IF ~e.vals THEN " values-altered" ELSE " wrong-projection")

VARIABLES l, bad
JInit == l = 1 /\ bad = 0
StepVec(e) == /\ e.k = "vec"
              /\ LET B == BadSet(e)
                     nb == (IF B = {} THEN 0 ELSE 1) + (IF e.argsame THEN 0 ELSE 1) IN
                   /\ bad' = bad + nb
                   /\ (B = {} \/ PrintT("REJECT|" \o ToString(l) \o "|C07 " \o VecSig(e, B) \o "|" \o ToString(CHOOSE x \in B : \A y \in B : x <= y)))
                   /\ (e.argsame \/ PrintT("REJECT|" \o ToString(l) \o "|C07 match-modified-its-arguments"))
StepNilMatch(e) == /\ e.k = "nilmatch"
                   /\ LET ok == \A i \in 1..Len(e.vs) : e.vs[i] = 1 IN
                        bad' = bad + (IF ok THEN 0 ELSE 1) /\ (ok \/ PrintT("REJECT|" \o ToString(l) \o "|C07 nil-query-does-not-match"))
StepFilter(e) == /\ e.k = "filter"
                 /\ LET ok == FilterOK(e)
                        nb == (IF ok THEN 0 ELSE 1) + (IF e.argsame THEN 0 ELSE 1) IN
                      /\ bad' = bad + nb
                      /\ (ok \/ PrintT("REJECT|" \o ToString(l) \o "|C07 " \o FilterSig(e)))
                      /\ (e.argsame \/ PrintT("REJECT|" \o ToString(l) \o "|C07 filter-modified-its-arguments"))
StepNilFilter(e) == /\ e.k = "nilfilter"
                    /\ LET ok == ~e.err /\ e.got = e.n IN
                         bad' = bad + (IF ok THEN 0 ELSE 1) /\ (ok \/ PrintT("REJECT|" \o ToString(l) \o "|C07 nil-query-filter"))
JNext == /\ l <= Len(Obs) /\ l' = l + 1
         /\ (StepVec(Obs[l]) \/ StepNilMatch(Obs[l]) \/ StepFilter(Obs[l]) \/ StepNilFilter(Obs[l]))
JSpec == JInit /\ [][JNext]_<<l, bad>>
Done == (l = Len(Obs) + 1) => PrintT(<<"DONE", Len(Obs), bad>>)
=============================================================================

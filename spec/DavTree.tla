------------------------------ MODULE DavTree ------------------------------
(***************************************************************************)
(* RFC 4918 resource tree and the outcome relation of the WebDAV file      *)
(* server (properties C01, C02, C03, C04, C17).  Pure operators only: the  *)
(* state machine lives in DavTreeMC, the trace specification in DavJudge.  *)
(*                                                                         *)
(* A tree is a function from mapped paths (sequences of names) to nodes    *)
(* [k, d, n]: k = "c" collection | "f" file, d = content token, n = length.*)
(* The root << >> is an ordinary node whose parent always exists.          *)
(* Outcomes(t, r) is a RELATION: a set of [st, t, ok] records, st being    *)
(* the set of acceptable status codes for that outcome (DESIGN.md App. A). *)
(***************************************************************************)
EXTENDS Naturals, Integers, Sequences, FiniteSets, TLC

Root == << >>
Parent(p) == SubSeq(p, 1, Len(p) - 1)
Under(p, q) == Len(q) <= Len(p) /\ SubSeq(p, 1, Len(q)) = q      \* p lies in the subtree rooted at q
StrictUnder(p, q) == Len(q) < Len(p) /\ SubSeq(p, 1, Len(q)) = q

\* ---- lexical path layer: raw segments -> normalised in-root path ("" and "." dropped, ".." clamped)
RECURSIVE NormAcc(_, _)
NormAcc(raw, acc) ==
  IF raw = << >> THEN acc
  ELSE LET s == Head(raw) IN
       NormAcc(Tail(raw),
               IF s = "" \/ s = "." THEN acc
               ELSE IF s = ".." THEN (IF acc = << >> THEN acc ELSE Parent(acc))
               ELSE Append(acc, s))
Normalize(raw) == NormAcc(raw, << >>)

Coll == [k |-> "c", d |-> "", n |-> 0]
File(d, n) == [k |-> "f", d |-> d, n |-> n]

Kind(t, p) == IF p \in DOMAIN t THEN t[p].k ELSE "a"
Mapped(t, p) == p \in DOMAIN t
BelowFile(t, p) == \E i \in 0..(Len(p) - 1) : Kind(t, SubSeq(p, 1, i)) = "f"
ParentOK(t, p) == p = Root \/ Kind(t, Parent(p)) = "c"
ParentAbsent(t, p) == p # Root /\ Kind(t, Parent(p)) = "a"
WellFormed(t) == \A p \in DOMAIN t : ParentOK(t, p)
Members(t, p) == {q \in DOMAIN t : StrictUnder(q, p)}
Children(t, p) == {q \in DOMAIN t : Len(q) = Len(p) + 1 /\ Under(q, p)}

Prune(t, p) == [q \in {q \in DOMAIN t : ~Under(q, p)} |-> t[q]]
Rebase(q, src, dst) == dst \o SubSeq(q, Len(src) + 1, Len(q))
Graft(t, from, src, dst, deep) ==
  LET S == IF deep THEN {q \in DOMAIN from : Under(q, src)} ELSE {src}
      G == {Rebase(q, src, dst) : q \in S}
  IN [q \in (DOMAIN t) \cup G |->
        IF q \in G THEN from[CHOOSE s \in S : Rebase(s, src, dst) = q] ELSE t[q]]
Store(t, p, node) == [q \in (DOMAIN t) \cup {p} |-> IF q = p THEN node ELSE t[q]]

Any4xx == 400..499
AnyFail == 400..599
\* write faults: the largest file the environment stores while a fault is being injected
WLimit == 4096

Refuse(t, S) == [st |-> S, t |-> t, ok |-> FALSE]

(***************************************************************************)
(* Conditional headers (C04).  Header classes as sent by the driver:       *)
(*   "unset", "star", "cur" (a tag the server announced for this resource  *)
(*   since its last write), "stale" (announced before its last write),     *)
(*   "other" (a quoted string never announced), "bad" (not a quoted string)*)
(***************************************************************************)
IfMatchOK(kind, h) == h = "unset" \/ (kind # "a" /\ h \in {"star", "cur"})
IfNoneMatchOK(kind, h) == h = "unset" \/ kind = "a" \/ h \in {"stale", "other"}
CondOK(kind, ifm, ifnm) == IfMatchOK(kind, ifm) /\ IfNoneMatchOK(kind, ifnm)
\* refusal codes contributed by the precondition headers
CondRefusals(kind, ifm, ifnm) ==
  (IF ((ifm # "bad" \/ kind = "a") /\ ~IfMatchOK(kind, ifm)) \/ (ifnm # "bad" /\ ~IfNoneMatchOK(kind, ifnm)) THEN {412} ELSE {})
  \cup (IF kind # "a" /\ (ifm = "bad" \/ ifnm = "bad") THEN {400} ELSE {})
\* A malformed header with nothing to compare it with is read literally from the statement: If-None-Match holds because the
\* resource is absent (the request is carried out), If-Match fails because it is absent (412); 400 is only for an existing
\* resource.  (An earlier version left this case open; a seeded change showed that the literal reading is the one the code
\* implements and a regression of it would otherwise pass.)
CondUnconstrained(kind, ifm, ifnm) == FALSE

\* ---- request layer (headers), any method
DepthBad(r) == r.depth = "bad"
OwBad(r) == r.ow = "bad"
OwFalse(r) == r.ow = "F"
DeepCopy(r) == r.depth # "0"

PutOutcomes(t, p, r) ==
  LET k == Kind(t, p)
      R0 == (IF k = "c" THEN {405} ELSE {})
           \cup (IF ParentAbsent(t, p) THEN {409} ELSE {})
           \* a parent that is a regular file, or lies below one, is a missing parent COLLECTION all the same: 409
           \cup (IF BelowFile(t, p) THEN {409} ELSE {})
           \cup CondRefusals(k, r.ifm, r.ifnm)
           \cup (IF r.fault THEN AnyFail ELSE {})
      R == IF R0 # {} /\ CondUnconstrained(k, r.ifm, r.ifnm) THEN R0 \cup Any4xx ELSE R0
      succ == [st |-> IF k = "a" THEN {201} ELSE {200, 204}, t |-> Store(t, p, File(r.c, r.cn)), ok |-> TRUE]
  IN IF R # {} THEN {Refuse(t, R)}
     ELSE IF CondUnconstrained(k, r.ifm, r.ifnm) THEN {Refuse(t, Any4xx), succ}
     ELSE {succ}

DeleteOutcomes(t, p, r) ==
  LET k == Kind(t, p)
      R0 == (IF k = "a" THEN (IF BelowFile(t, p) THEN Any4xx ELSE {404}) ELSE {})
           \cup CondRefusals(k, r.ifm, r.ifnm)
      R == IF CondUnconstrained(k, r.ifm, r.ifnm) THEN R0 \cup Any4xx ELSE R0
      succ == [st |-> {200, 204}, t |-> Prune(t, p), ok |-> TRUE]
  IN IF R # {} THEN {Refuse(t, R)} ELSE {succ}

MkcolOutcomes(t, p, r) ==
  LET k == Kind(t, p)
      R == (IF k # "a" THEN {405} ELSE {})
           \cup (IF ParentAbsent(t, p) THEN {409} ELSE {})
           \cup (IF BelowFile(t, p) THEN Any4xx ELSE {})
           \cup (IF r.ctype # "none" THEN {415} ELSE {})
  IN IF R # {} THEN {Refuse(t, R)}
     ELSE {[st |-> {201}, t |-> Store(t, p, Coll), ok |-> TRUE]}

\* destination forms: "path" (absolute path), "abs" (absolute URL, same host), "foreign" (other authority),
\* "missing", "bad" (unparsable), "unmappable" (cannot be mapped below the root)
BigIn(t, src, deep) == \E q \in DOMAIN t : (q = src \/ (deep /\ StrictUnder(q, src))) /\ t[q].k = "f" /\ t[q].n > WLimit
CopyMoveOutcomes(t, move, src, r) ==
  LET dst == Normalize(r.dp)
      deep == move \/ DeepCopy(r)
      Rreq == (IF r.dform \in {"missing", "bad"} THEN {400} ELSE {})
              \cup (IF DepthBad(r) \/ OwBad(r) THEN {400} ELSE {})
              \cup (IF ~move /\ r.depth = "1" THEN {400} ELSE {})
              \cup (IF move /\ r.depth \in {"0", "1"} THEN {400} ELSE {})
              \cup (IF r.dform = "unmappable" THEN Any4xx ELSE {})
      usable == r.dform \in {"path", "abs", "foreign"}
      sk == Kind(t, src)
      dk == Kind(t, dst)
      Rm == IF ~usable THEN {} ELSE
            (IF sk = "a" THEN (IF BelowFile(t, src) THEN Any4xx ELSE {404}) ELSE {})
            \cup (IF src = dst THEN {403} ELSE {})
            \cup (IF StrictUnder(src, dst) THEN Any4xx ELSE {})
            \cup (IF StrictUnder(dst, src) /\ (move \/ sk # "c" \/ deep) THEN Any4xx ELSE {})
            \cup (IF ParentAbsent(t, dst) THEN {409} ELSE {})
            \cup (IF BelowFile(t, dst) THEN Any4xx ELSE {})
            \cup (IF dk # "a" /\ OwFalse(r) THEN {412} ELSE {})
            \cup (IF r.dform = "foreign" THEN Any4xx \cup {502} ELSE {})
      t1 == Graft(Prune(t, dst), t, src, dst, deep)
      t2 == IF move THEN Prune(t1, src) ELSE t1
      succ == [st |-> IF dk = "a" THEN {201} ELSE {204}, t |-> t2, ok |-> TRUE]
      \* grey zones: COPY of a collection into its own descendant may produce the snapshot copy;
      \* a foreign authority may be handled as its path
      R0 == Rreq \cup Rm
      greyOnly == /\ Rreq = {} /\ usable
                  /\ sk # "a" /\ src # dst /\ ~StrictUnder(src, dst)
                  /\ ~ParentAbsent(t, dst) /\ ~BelowFile(t, dst) /\ ~(dk # "a" /\ OwFalse(r))
                  /\ (StrictUnder(dst, src) => (~move /\ sk = "c"))
      \* a storage fault while the copy is being written (r.fault on a COPY: the environment refuses to store a file longer than
      \* WLimit bytes): if the transfer has to write such a file it cannot succeed -- it is refused and nothing changes
      wf == r.fault /\ ~move /\ usable /\ sk # "a" /\ BigIn(t, src, deep)
  IN IF wf THEN {Refuse(t, R0 \cup AnyFail)}
     ELSE IF R0 = {} THEN {succ}
     ELSE IF greyOnly THEN {Refuse(t, R0), succ}
     ELSE {Refuse(t, R0)}

ReadOutcomes(t, p, r) ==
  LET k == Kind(t, p) IN
  CASE r.m \in {"GET", "HEAD"} ->
         IF k = "a" THEN {Refuse(t, IF BelowFile(t, p) THEN Any4xx ELSE {404})}
         ELSE IF k = "c" THEN {Refuse(t, {405})}
         ELSE {[st |-> {200}, t |-> t, ok |-> TRUE]}
    [] r.m = "OPTIONS" -> {[st |-> {200, 204}, t |-> t, ok |-> TRUE]}
    [] r.m = "PROPFIND" ->
         LET R == (IF k = "a" THEN (IF BelowFile(t, p) THEN Any4xx ELSE {404}) ELSE {})
                  \cup (IF DepthBad(r) THEN {400} ELSE {})
                  \cup (IF r.pform \in {"none", "badxml"} THEN {400} ELSE {})
         IN IF R # {} THEN {Refuse(t, R)} ELSE {[st |-> {207}, t |-> t, ok |-> TRUE]}

KnownMethods == {"OPTIONS", "GET", "HEAD", "PUT", "DELETE", "MKCOL", "COPY", "MOVE", "PROPFIND"}
GreyMethods == {"PROPPATCH", "LOCK", "UNLOCK"}

Outcomes(t, r) ==
  IF r.pflag # "ok" THEN {Refuse(t, Any4xx)}        \* path cannot be mapped below the root
  ELSE LET p == Normalize(r.p) IN
  CASE r.m = "PUT" -> PutOutcomes(t, p, r)
    [] r.m = "DELETE" -> DeleteOutcomes(t, p, r)
    [] r.m = "MKCOL" -> MkcolOutcomes(t, p, r)
    [] r.m = "COPY" -> CopyMoveOutcomes(t, FALSE, p, r)
    [] r.m = "MOVE" -> CopyMoveOutcomes(t, TRUE, p, r)
    [] r.m \in {"GET", "HEAD", "OPTIONS", "PROPFIND"} -> ReadOutcomes(t, p, r)
    [] r.m \in GreyMethods -> {Refuse(t, Any4xx)}
    [] OTHER -> {Refuse(t, {405})}

(***************************************************************************)
(* What a successful read must report (C01 "report exactly what is stored")*)
(***************************************************************************)
Scope(t, p, depth) ==
  IF Kind(t, p) # "c" \/ depth = "0" THEN {p}
  ELSE IF depth = "1" THEN {p} \cup Children(t, p)
  ELSE {p} \cup Members(t, p)

\* methods the model accepts / answers 405 for, by kind of the addressed resource
AllowMust(k) == IF k = "a" THEN {"OPTIONS", "PUT", "MKCOL"}
                ELSE IF k = "f" THEN {"OPTIONS", "GET", "HEAD", "PUT", "DELETE", "COPY", "MOVE", "PROPFIND"}
                ELSE {"OPTIONS", "DELETE", "COPY", "MOVE", "PROPFIND"}
AllowMustNot(k) == IF k = "a" THEN {} ELSE IF k = "f" THEN {"MKCOL"} ELSE {"GET", "HEAD", "PUT", "MKCOL"}

SeqRange(s) == {s[i] : i \in 1..Len(s)}

ReportOK(t, r, rep) ==
  LET p == Normalize(r.p)
      k == Kind(t, p) IN
  \* entity headers of a stored file: its length, its tag, its modification time (a parsable HTTP date)
  CASE r.m = "GET" -> rep.clen = t[p].n /\ rep.body = t[p].d /\ rep.etag /\ rep.lm
    [] r.m = "HEAD" -> rep.clen = t[p].n /\ rep.body = "" /\ rep.etag /\ rep.lm
    [] r.m = "OPTIONS" -> /\ "1" \in SeqRange(rep.dav)
                          /\ (~BelowFile(t, p) => AllowMust(k) \subseteq SeqRange(rep.allow))
                          /\ AllowMustNot(k) \cap SeqRange(rep.allow) = {}
    [] r.m = "PROPFIND" ->
         LET S == Scope(t, p, r.depth)
             rs == rep.ms IN
         /\ Len(rs) = Cardinality(S)
         /\ \A i \in 1..Len(rs) : rs[i].nhref = 1 /\ rs[i].hflag = "ok"
         /\ {Normalize(rs[i].href) : i \in 1..Len(rs)} = S
         /\ \A i \in 1..Len(rs) :
              LET q == Normalize(rs[i].href) IN
              q \in DOMAIN t =>
                /\ rs[i].k = t[q].k
                /\ (t[q].k = "f" /\ r.pform \in {"allprop", "empty", "fileinfo"} => rs[i].len = t[q].n /\ rs[i].etag /\ rs[i].lm)
    [] OTHER -> TRUE

=============================================================================

------------------------------ MODULE CalWireJudge ------------------------------
(* F3 for C08: same event kinds as CardWireJudge (srv, cli, mgsrv, mgcli, bad), judged against CalWire. *)
EXTENDS CalWire, Json, TLCExt, IOUtils, SequencesExt
Dir == IOEnv.DIR
QCases == ndJsonDeserialize(Dir \o "/queries.ndjson")
MCases == ndJsonDeserialize(Dir \o "/multigets.ndjson")
BadCases == ndJsonDeserialize(Dir \o "/invalid.ndjson")
Obs == ndJsonDeserialize(IOEnv.OBS)
In4xx(s) == s >= 400 /\ s <= 499

SrvOK(e) == LET q == QCases[e.i].q IN ~e.panic /\ e.mut = 0 /\ e.st = 207 /\ Len(e.got) = 1 /\ e.got[1] = q
CliOK(e) == LET q == QCases[e.i].q IN
            /\ ~e.err /\ e.sent /\ e.wf /\ Len(e.doc) = 1
            /\ QueryShape(e.doc[1]) /\ QueryOrder(e.doc[1]) /\ QueryDenotes(e.doc[1]) = q
MgSrvOK(e) == LET m == MCases[e.i].m IN
              ~e.panic /\ e.st = 207 /\ e.paths = m.hrefs /\ Len(e.reqs) = Len(m.hrefs) /\ \A j \in 1..Len(e.reqs) : e.reqs[j] = m.comp
MgCliOK(e) == LET m == MCases[e.i].m IN
              ~e.err /\ e.sent /\ e.wf /\ Len(e.doc) = 1 /\ MultigetShape(e.doc[1]) /\ MultigetDenotes(e.doc[1]) = m
BadOK(e) == ~e.panic /\ In4xx(e.st) /\ e.queries = 0 /\ e.mut = 0
Accept(e) == CASE e.k = "srv" -> SrvOK(e) [] e.k = "cli" -> CliOK(e) [] e.k = "mgsrv" -> MgSrvOK(e) [] e.k = "mgcli" -> MgCliOK(e)
               [] e.k = "bad" -> BadOK(e)
               \* a multiget without paths names the addressed collection itself, on every use of the same request value
               [] e.k = "mgself" -> ~e.err /\ e.first = <<"first">> /\ e.second = <<"second">>
               [] OTHER -> FALSE

\* ---- signature: which parts of the request differ
RECURSIVE CFIsnd(_), CFTr(_), CFTm(_), CFNames(_), CRNames(_), CRSel(_)
Seqs(f) == f.comps
CFIsnd(f) == <<f.isnd, [i \in 1..Len(f.props) |-> <<f.props[i].isnd, [k \in 1..Len(f.props[i].params) |-> f.props[i].params[k].isnd]>>], [i \in 1..Len(f.comps) |-> CFIsnd(f.comps[i])]>>
CFTr(f) == <<f.tr, [i \in 1..Len(f.props) |-> f.props[i].tr], [i \in 1..Len(f.comps) |-> CFTr(f.comps[i])]>>
CFTm(f) == <<[i \in 1..Len(f.props) |-> <<f.props[i].tm, [k \in 1..Len(f.props[i].params) |-> f.props[i].params[k].tm]>>], [i \in 1..Len(f.comps) |-> CFTm(f.comps[i])]>>
CFNames(f) == <<f.name, [i \in 1..Len(f.props) |-> <<f.props[i].name, [k \in 1..Len(f.props[i].params) |-> f.props[i].params[k].name]>>], [i \in 1..Len(f.comps) |-> CFNames(f.comps[i])]>>
CRNames(c) == <<c.name, [i \in 1..Len(c.comps) |-> CRNames(c.comps[i])]>>
CRSel(c) == <<c.allprops, c.props, c.allcomps, [i \in 1..Len(c.comps) |-> CRSel(c.comps[i])]>>
TmNeg(x) == x   \* placeholder to keep TLC's parser happy with the definitions above
DiffF(a, b) == (IF CFNames(a) # CFNames(b) THEN " filter-names" ELSE "") \o (IF CFIsnd(a) # CFIsnd(b) THEN " is-not-defined" ELSE "")
               \o (IF CFTr(a) # CFTr(b) THEN " time-range" ELSE "") \o (IF CFTm(a) # CFTm(b) THEN " text-match" ELSE "")
DiffC(a, b) == (IF CRNames(a) # CRNames(b) THEN " comp-names" ELSE "") \o (IF CRSel(a) # CRSel(b) THEN " comp-selection" ELSE "")
               \o (IF a.expand # b.expand THEN " expand" ELSE "")
Sig(e) == CASE e.k = "srv" -> LET q == QCases[e.i].q IN
                 IF e.panic THEN "wire->backend panic"
                 ELSE IF e.st # 207 \/ Len(e.got) # 1 THEN "wire->backend valid-query st=" \o ToString(e.st) \o " calls=" \o ToString(Len(e.got))
                 ELSE "wire->backend altered:" \o DiffF(e.got[1].filter, q.filter) \o DiffC(e.got[1].comp, q.comp)
            [] e.k = "cli" -> LET q == QCases[e.i].q IN
                 IF e.err THEN "client->wire client-error"
                 ELSE IF ~e.sent \/ ~e.wf \/ Len(e.doc) # 1 THEN "client->wire nothing-or-malformed-sent"
                 ELSE IF ~QueryShape(e.doc[1]) THEN "client->wire wrong-shape"
                 ELSE IF ~QueryOrder(e.doc[1]) THEN "client->wire child-order"
                 ELSE "client->wire altered:" \o DiffF(QueryDenotes(e.doc[1]).filter, q.filter) \o DiffC(QueryDenotes(e.doc[1]).comp, q.comp)
            [] e.k = "mgsrv" -> LET m == MCases[e.i].m IN
                 "multiget wire->backend st=" \o ToString(e.st) \o (IF e.paths # m.hrefs THEN " hrefs" ELSE IF Len(e.reqs) > 0 THEN DiffC(e.reqs[1], m.comp) ELSE " no-call")
            [] e.k = "mgcli" -> LET m == MCases[e.i].m IN
                 "multiget client->wire" \o (IF e.err THEN " error" ELSE IF ~(Len(e.doc) = 1 /\ MultigetShape(e.doc[1])) THEN " wrong-shape"
                                             ELSE (IF MultigetDenotes(e.doc[1]).hrefs # m.hrefs THEN " hrefs" ELSE "") \o DiffC(MultigetDenotes(e.doc[1]).comp, m.comp))
            [] e.k = "mgself" -> "multiget without paths, request value used twice: " \o (IF e.err THEN "error" ELSE IF e.first # <<"first">> THEN "first call names something else" ELSE "second call does not name the second collection")
            [] e.k = "bad" -> "invalid-document (" \o BadCases[e.i].kind \o ") st=" \o ToString(e.st) \o " queries=" \o ToString(e.queries)
            [] OTHER -> "unknown-event"

VARIABLES l, bad
JInit == l = 1 /\ bad = 0
JNext == /\ l <= Len(Obs) /\ l' = l + 1
         /\ IF Accept(Obs[l]) THEN bad' = bad
            ELSE bad' = bad + 1 /\ PrintT("REJECT|" \o ToString(l) \o "|C08 " \o Sig(Obs[l]))
JSpec == JInit /\ [][JNext]_<<l, bad>>
Done == (l = Len(Obs) + 1) => PrintT(<<"DONE", Len(Obs), bad>>)
=============================================================================

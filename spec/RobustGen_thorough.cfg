INIT Init
NEXT Next
CONSTANT Big = TRUE

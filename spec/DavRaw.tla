------------------------------ MODULE DavRaw ------------------------------
(***************************************************************************)
(* C03: the lexical path layer.  A request path or Destination is a        *)
(* sequence of raw segments (names, "..", ".", empty); DavTree.Normalize   *)
(* maps it to the in-root path it denotes.  This module checks the laws of *)
(* Normalize on the bounded instance (F0) and emits the request universe   *)
(* over raw paths on both channels (F1).  How a raw sequence is spelled    *)
(* (literal, percent-encoded dots or slashes, absolute-URL form) is a      *)
(* concretisation dimension of the recorder; its denotation is fixed here. *)
(***************************************************************************)
EXTENDS DavTreeMC

CONSTANT RawLen
Segs == Names \cup {"..", ".", ""}
RawSeqs == UNION { [1..k -> Segs] : k \in 0..RawLen }
IsName(s) == s \notin {"..", ".", ""}

\* ---- laws of the normaliser (design-level theorems, checked by TLC at start-up)
ASSUME \A r \in RawSeqs : \A i \in 1..Len(Normalize(r)) : IsName(Normalize(r)[i])          \* stays below the root
ASSUME \A r \in RawSeqs : Normalize(Normalize(r)) = Normalize(r)                            \* idempotent
ASSUME \A r \in RawSeqs : Len(r) > 0 => Normalize(r) = Normalize(Normalize(SubSeq(r, 1, Len(r) - 1)) \o <<r[Len(r)]>>)
ASSUME \A r \in RawSeqs : Normalize(r \o <<"">>) = Normalize(r) /\ Normalize(<<".">> \o r) = Normalize(r)   \* slashes and dots are irrelevant
ASSUME \A r \in RawSeqs : Normalize(<<"..">> \o r) = Normalize(r)                           \* ".." is clamped at the root

RawReqs ==
  {Base(m, r) : m \in {"GET", "DELETE", "MKCOL", "OPTIONS"}, r \in RawSeqs}
  \cup {[Base("PUT", r) EXCEPT !.c = "z"] : r \in RawSeqs}
  \cup {[Base("PROPFIND", r) EXCEPT !.depth = "1", !.pform = "fileinfo"] : r \in RawSeqs}
  \cup {[Base("COPY", <<"b">>) EXCEPT !.dform = "path", !.dp = r, !.ow = "T"] : r \in RawSeqs}
  \cup {[Base("MOVE", <<"a">>) EXCEPT !.dform = "path", !.dp = r, !.ow = "T"] : r \in RawSeqs}
  \cup {[Base("COPY", r) EXCEPT !.dform = "path", !.dp = <<"c">>, !.ow = "F"] : r \in RawSeqs}
\* paths that cannot be mapped below the root at all: must be refused with 4xx
FlagReqs ==
  {[Base(m, r) EXCEPT !.pflag = f] : m \in {"GET", "PUT", "DELETE", "MKCOL", "PROPFIND", "OPTIONS"}, f \in {"nul", "rel"},
                                      r \in {x \in RawSeqs : Len(x) <= 2 /\ Len(x) >= 1}}
  \cup {[Base("OPTIONS", << >>) EXCEPT !.pflag = "star"]}
  \cup {[Base(m, <<"b">>) EXCEPT !.dform = "unmappable", !.dp = r, !.ow = "T"] : m \in {"COPY", "MOVE"}, r \in {x \in RawSeqs : Len(x) <= 3 /\ Len(x) >= 1}}

ASSUME \A r \in RawReqs \cup FlagReqs : \A t \in {(Root :> Coll)} : Outcomes(t, r) # {}
ASSUME IF "RAWOUT" \in DOMAIN IOEnv THEN ndJsonSerialize(IOEnv.RAWOUT, SetToSeq(RawReqs \cup FlagReqs)) ELSE TRUE
ASSUME PrintT(<<"NRAW", Cardinality(RawSeqs), Cardinality(RawReqs \cup FlagReqs)>>)
=============================================================================

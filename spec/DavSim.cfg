SPECIFICATION SSpec
CONSTANTS
  Names = {"a", "b", "c"}
  Contents = {"x", "y", ""}
  MaxDepth = 3
  Probes = 0
  MaxNodes = 99
  Slim = FALSE
  Rich = FALSE
  HistLen = 16
  CondMix = FALSE
  ClientMix = FALSE
INVARIANTS EmitHist InvWellFormed
CHECK_DEADLOCK FALSE

SPECIFICATION Spec
CONSTANTS
  Names = {"a", "b"}
  Contents = {"", "x"}
  MaxDepth = 2
  Probes = 0
  MaxNodes = 4
  Slim = FALSE
  Rich = FALSE
INVARIANTS TypeOK InvWellFormed Total EmitTree
PROPERTIES FailureAtomic SuccessCodes ReadOnly
VIEW View
CHECK_DEADLOCK FALSE

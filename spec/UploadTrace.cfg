SPECIFICATION TSpec
CONSTANTS NChunks = 8  ChunkSize = 2
INVARIANT NotAccepted
CHECK_DEADLOCK FALSE

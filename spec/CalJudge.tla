------------------------------ MODULE CalJudge ------------------------------
(***************************************************************************)
(* F3 for C06: every verdict the real caldav.Match / caldav.Filter gave on *)
(* the TLC-enumerated universes is compared with the CalFilter operators.  *)
(* Observations: "vec" = one filter against all calendars (verdict vector, *)
(* plus Filter over a prefix of the list), "pair" = one (filter, calendar) *)
(* pair of a pair universe, "nil" = Filter(nil, all).                      *)
(* Verdicts: 0 false, 1 true, 2 error, 3 panic.                            *)
(***************************************************************************)
EXTENDS CalFilter, Json, TLCExt, IOUtils, SequencesExt

Dir == IOEnv.DIR
Filters == IF IOEnv.KIND = "vec" THEN ndJsonDeserialize(Dir \o "/filters.ndjson") ELSE << >>
Objects == IF IOEnv.KIND = "vec" THEN ndJsonDeserialize(Dir \o "/cals.ndjson") ELSE << >>
Pairs == IF IOEnv.KIND = "vec" THEN << >> ELSE ndJsonDeserialize(Dir \o "/" \o IOEnv.KIND \o ".ndjson")
Obs == ndJsonDeserialize(IOEnv.OBS)

Want(b) == IF b THEN 1 ELSE 0
BadSet(e) == {j \in 1..Len(Objects) : e.vs[j] # Want(CompMatch(Filters[e.f], Objects[j]))}
\* Filter over the first m objects returns exactly the matching ones, in input order
WantList(e) == SelectSeq([j \in 1..e.m |-> j], LAMBDA j : CompMatch(Filters[e.f], Objects[j]))

\* signature: which constructs the filter uses, and how the first wrong verdict is wrong
RECURSIVE UsesIsnd(_)
UsesIsnd(f) == f.isnd \/ (\E i \in 1..Len(f.props) : f.props[i].isnd \/ \E k \in 1..Len(f.props[i].params) : f.props[i].params[k].isnd)
               \/ (\E i \in 1..Len(f.comps) : UsesIsnd(f.comps[i]))
IsndWhere(f) == (IF f.isnd \/ (\E i \in 1..Len(f.comps) : f.comps[i].isnd \/ \E k \in 1..Len(f.comps[i].comps) : f.comps[i].comps[k].isnd) THEN "comp" ELSE "")
                \o (IF \E i \in 1..Len(f.comps) : \E k \in 1..Len(f.comps[i].props) : f.comps[i].props[k].isnd THEN "prop" ELSE "")
                \o (IF \E i \in 1..Len(f.comps) : \E k \in 1..Len(f.comps[i].props) : \E q \in 1..Len(f.comps[i].props[k].params) : f.comps[i].props[k].params[q].isnd THEN "param" ELSE "")
VecSig(e, B) == LET j == CHOOSE x \in B : \A y \in B : x <= y IN
                "match isnd=" \o (IF UsesIsnd(Filters[e.f]) THEN IsndWhere(Filters[e.f]) ELSE "no")
                \o " got=" \o ToString(e.vs[j]) \o " want=" \o ToString(Want(CompMatch(Filters[e.f], Objects[j])))

TrShape(tr) == (IF tr.s = << >> THEN "open" ELSE "s") \o "-" \o (IF tr.e = << >> THEN "open" ELSE "e")
Rel(a, b) == IF a < b THEN "<" ELSE IF a = b THEN "=" ELSE ">"
PairSig(e) ==
  LET p == Pairs[e.i] IN
  IF IOEnv.KIND \notin {"proptr", "overlap", "rec"} THEN
      "match (replayed pair) got=" \o ToString(e.v) \o " want=" \o ToString(Want(CompMatch(p.f, p.c)))
  ELSE IF IOEnv.KIND = "proptr" THEN
      LET tr == p.f.comps[1].props[1].tr[1] t == p.c.kids[1].props[1].t[1] IN
      "prop-time-range " \o TrShape(tr) \o " got=" \o ToString(e.v) \o " want=" \o ToString(Want(CompMatch(p.f, p.c)))
  ELSE
      LET tr == p.f.comps[1].tr[1] ev == p.c.kids[1].ev[1] IN
      (IF ev.rr # << >> THEN "recurring " ELSE "time-range ") \o ev.kind \o (IF EvEnd(ev) = EvStart(ev) THEN "(instant)" ELSE "")
      \o " range=" \o TrShape(tr)
      \o (IF ev.rr = << >> /\ tr.s # << >> THEN " rs" \o Rel(tr.s[1], EvStart(ev)) \o "S rs" \o Rel(tr.s[1], EvEnd(ev)) \o "E" ELSE "")
      \o (IF ev.rr = << >> /\ tr.e # << >> THEN " re" \o Rel(tr.e[1], EvStart(ev)) \o "S re" \o Rel(tr.e[1], EvEnd(ev)) \o "E" ELSE "")
      \o " got=" \o ToString(e.v) \o " want=" \o ToString(Want(CompMatch(p.f, p.c)))

VARIABLES l, bad
JInit == l = 1 /\ bad = 0
StepVec(e) ==
  /\ e.k = "vec"
  /\ LET B == BadSet(e)
         flok == ~e.flerr /\ e.fl = WantList(e)
         argok == e.argsame
         nb == (IF B = {} THEN 0 ELSE 1) + (IF flok THEN 0 ELSE 1) + (IF argok THEN 0 ELSE 1)
     IN /\ bad' = bad + nb
        /\ (B = {} \/ PrintT("REJECT|" \o ToString(l) \o "|C06 " \o VecSig(e, B) \o "|" \o ToString(CHOOSE x \in B : \A y \in B : x <= y) \o " " \o ToString(Cardinality(B))))
        /\ (flok \/ B # {} \/ PrintT("REJECT|" \o ToString(l) \o "|C06 filter-list-differs-from-matching-subsequence"))
        /\ (flok \/ B = {} \/ PrintT("REJECT|" \o ToString(l) \o "|C06 filter-list " \o VecSig(e, B)))
        /\ (argok \/ PrintT("REJECT|" \o ToString(l) \o "|C06 arguments-modified"))
StepPair(e) ==
  /\ e.k = "pair"
  /\ LET ok == e.v = Want(CompMatch(Pairs[e.i].f, Pairs[e.i].c)) IN
       /\ bad' = bad + (IF ok THEN 0 ELSE 1)
       /\ (ok \/ PrintT("REJECT|" \o ToString(l) \o "|C06 " \o PairSig(e)))
StepNil(e) ==
  /\ e.k = "nil"
  /\ LET ok == ~e.err /\ e.got = e.n /\ e.changed = 0 IN
       /\ bad' = bad + (IF ok THEN 0 ELSE 1)
       /\ (ok \/ PrintT("REJECT|" \o ToString(l) \o "|C06 nil-query-or-objects-modified got=" \o ToString(e.got) \o " changed=" \o ToString(e.changed)))
JNext == /\ l <= Len(Obs) /\ l' = l + 1
         /\ (StepVec(Obs[l]) \/ StepPair(Obs[l]) \/ StepNil(Obs[l]))
JSpec == JInit /\ [][JNext]_<<l, bad>>
Done == (l = Len(Obs) + 1) => PrintT(<<"DONE", Len(Obs), bad>>)
=============================================================================

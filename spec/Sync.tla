------------------------------ MODULE Sync ------------------------------
(* State machine over SyncOps: F0 (convergence of the replica, checked exhaustively on a bounded instance) and F1 (simulated histories). *)
EXTENDS SyncOps, Json, TLCExt
CONSTANTS Names, MaxLog, Limits, HistLen, Sim
VARIABLES W, C, hist
vars == <<W, C, hist>>
Op(o, n, lim) == [op |-> o, n |-> n, lim |-> lim]
Init == W = W0 /\ C = C0 /\ hist = << >>
Put(n) == W' = SrvPut(W, n) /\ C' = C
Rm(n) == n \in DOMAIN W.store /\ W' = SrvDel(W, n) /\ C' = C
SyncStep(lim) == W' = W /\ C' = Apply(C, Answer(W, C.tok, lim))
Next == /\ ~Sim /\ UNCHANGED hist
        /\ \/ Len(W.log) < MaxLog /\ \E n \in Names : Put(n) \/ Rm(n)
           \/ \E lim \in Limits : SyncStep(lim)
Spec == Init /\ [][Next]_vars
TypeOK == /\ DOMAIN W.store \subseteq Names /\ DOMAIN C.rep \subseteq Names /\ C.tok \in 0..Len(W.log)
          /\ \A n \in DOMAIN W.store : W.store[n] \in 1..W.rev
\* the theorem synchronisation exists for: a replica that is up to date with the log IS the collection
Converged == (C.tok = Len(W.log)) => C.rep = W.store
\* and in between it is the collection as it was when the token was handed out
Snapshot == \A n \in Names : (n \in DOMAIN C.rep) <=> ExistedAt(W, C.tok, n)
\* a synchronisation never moves the token backwards; a failed one changes nothing
Monotone == [][C'.tok >= C.tok]_vars
\* an unlimited synchronisation always succeeds and catches up
CatchUp == [][(W' = W /\ C' # C) => C'.tok = Len(W.log)]_vars
\* ---- simulation
Pick(s) == RandomElement(s)
GenOp == LET o == Pick({"sput", "sput", "sput", "sdel", "sdel", "sync", "sync", "sync"}) IN
         CASE o = "sput" -> Op(o, Pick(Names), 0)
           [] o = "sdel" -> Op(o, IF DOMAIN W.store # {} /\ Pick(1..4) > 1 THEN Pick(DOMAIN W.store) ELSE Pick(Names), 0)
           [] OTHER -> Op(o, "", IF Pick(1..2) = 1 THEN 0 ELSE Pick(Limits))
SNext == /\ Sim /\ Len(hist) < HistLen
         /\ \E op \in {GenOp} :
              /\ hist' = Append(hist, op)
              /\ CASE op.op = "sput" -> Put(op.n)
                   [] op.op = "sdel" -> W' = SrvDel(W, op.n) /\ C' = C
                   [] OTHER -> SyncStep(op.lim)
SSpec == Init /\ [][SNext]_vars
EmitHist == (Len(hist) = HistLen) => PrintT(<<"HIST", ToJson(hist)>>)
=============================================================================

------------------------------ MODULE CondJudge ------------------------------
(***************************************************************************)
(* C04, the parts that are not LocalFileSystem state: entity-tag           *)
(* announcements over a backend holding arbitrary tags, the public         *)
(* ConditionalMatch helpers, and the hand-over of both conditional header  *)
(* values to the backends.  The truth table itself (CondOK) lives in       *)
(* DavTree and is judged by DavJudge on the conditional universe.          *)
(***************************************************************************)
EXTENDS Naturals, Integers, Sequences, TLC, Json, TLCExt, IOUtils

Obs == ndJsonDeserialize(IOEnv.OBS)

\* one and the same non-empty string in all four places
AnnOK(e) == e.get # "" /\ e.head = e.get /\ e.put = e.get /\ e.propfind = e.get

\* MatchETag(v, tag) <=> tag # "" /\ (v = "*" \/ Unquote(v) = tag); helpers never panic;
\* a value the server announced decodes back to the stored tag without error; a malformed one is an error
HelperOK(e) ==
  /\ ~e.panic
  /\ e.isset = (e.v # "empty")
  /\ e.iswild = (e.v = "star")
  /\ (e.v = "ann" => ~e.etagerr /\ e.etag = e.vt)
  /\ (e.v = "bad" => e.etagerr)
  /\ e.match = (e.tag # -1 /\ (e.v = "star" \/ (e.v = "ann" /\ e.vt = e.tag)))
  /\ (e.matcherr => e.v \in {"bad", "empty"})

\* both header values reach the backend operation exactly once, byte for byte
PassOK(e) == ~e.panic /\ e.called = 1 /\ e.gotifm = e.ifm /\ e.gotifnm = e.ifnm

Accept(e) == CASE e.k = "ann" -> AnnOK(e)
               [] e.k = "helper" -> HelperOK(e)
               [] e.k = "pass" -> PassOK(e)
               [] OTHER -> FALSE
Sig(e) == CASE e.k = "ann" -> "ann tag#" \o ToString(e.t)
            [] e.k = "helper" -> "helper v=" \o e.v \o " tag=" \o (IF e.tag = -1 THEN "none" ELSE IF e.tag = e.vt THEN "same" ELSE "other")
                                 \o " match=" \o ToString(e.match) \o " matcherr=" \o ToString(e.matcherr) \o " etagerr=" \o ToString(e.etagerr)
            [] e.k = "pass" -> "pass " \o e.srv \o " " \o e.m \o " called=" \o ToString(e.called) \o " st=" \o ToString(e.st)
            [] OTHER -> "unknown-event"

VARIABLES l, bad
JInit == l = 1 /\ bad = 0
JNext == /\ l <= Len(Obs) /\ l' = l + 1
         /\ IF Accept(Obs[l]) THEN bad' = bad
            ELSE bad' = bad + 1 /\ PrintT("REJECT|" \o ToString(l) \o "|" \o "C04 " \o Sig(Obs[l]))
JSpec == JInit /\ [][JNext]_<<l, bad>>
Done == (l = Len(Obs) + 1) => PrintT(<<"DONE", Len(Obs), bad>>)

\* design-level sanity of the truth table used by DavTree (checked as ASSUME by TLC at start-up)
=============================================================================

------------------------------ MODULE XmlOps ------------------------------
(***************************************************************************)
(* Abstract XML (namespace-expanded): every node -- element or text -- is  *)
(* a record with the same five fields, so that TLC can put them in one     *)
(* sequence.  Text and attribute values are opaque tokens (only compared). *)
(***************************************************************************)
EXTENDS Naturals, Sequences, FiniteSets, TLC
DAV == "DAV:"
CAL == "urn:ietf:params:xml:ns:caldav"
CARD == "urn:ietf:params:xml:ns:carddav"
El(ns, name, attrs, kids) == [ns |-> ns, name |-> name, attrs |-> attrs, kids |-> kids, text |-> ""]
Txt(t) == [ns |-> "", name |-> "#text", attrs |-> << >>, kids |-> << >>, text |-> t]
At(n, v) == [n |-> n, v |-> v]
IsText(k) == k.name = "#text"
Kids(e, ns, name) == SelectSeq(e.kids, LAMBDA k : k.ns = ns /\ k.name = name)
HasKid(e, ns, name) == Len(Kids(e, ns, name)) > 0
ElKids(e) == SelectSeq(e.kids, LAMBDA k : ~IsText(k))
HasAttr(e, n) == \E i \in 1..Len(e.attrs) : e.attrs[i].n = n
Attr(e, n) == e.attrs[CHOOSE i \in 1..Len(e.attrs) : e.attrs[i].n = n].v
AttrOr(e, n, d) == IF HasAttr(e, n) THEN Attr(e, n) ELSE d
\* character data of an element = its text children ("" if none); elements with several text nodes do not occur (the reader merges)
Chars(e) == LET t == SelectSeq(e.kids, IsText) IN IF Len(t) = 0 THEN "" ELSE t[1].text
Map(s, F(_)) == [i \in 1..Len(s) |-> F(s[i])]
Opt(b, x) == IF b THEN <<x>> ELSE << >>
\* position of the first child with that name (0 if none): used for DTD child-order checks
FirstPos(e, ns, name) == IF HasKid(e, ns, name) THEN CHOOSE i \in 1..Len(e.kids) : e.kids[i].ns = ns /\ e.kids[i].name = name /\ \A j \in 1..(i - 1) : ~(e.kids[j].ns = ns /\ e.kids[j].name = name) ELSE 0
LastPos(e, ns, name) == IF HasKid(e, ns, name) THEN CHOOSE i \in 1..Len(e.kids) : e.kids[i].ns = ns /\ e.kids[i].name = name /\ \A j \in (i + 1)..Len(e.kids) : ~(e.kids[j].ns = ns /\ e.kids[j].name = name) ELSE 0
\* every a-child comes before every b-child
Before(e, nsa, a, nsb, b) == ~HasKid(e, nsa, a) \/ ~HasKid(e, nsb, b) \/ LastPos(e, nsa, a) < FirstPos(e, nsb, b)
=============================================================================

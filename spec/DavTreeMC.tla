------------------------------ MODULE DavTreeMC ------------------------------
(***************************************************************************)
(* Bounded instance of the resource-tree state machine (F0) and emission   *)
(* of its reachable trees and of the request universe (F1).                *)
(***************************************************************************)
EXTENDS DavTree, Json, TLCExt, IOUtils, SequencesExt

CONSTANTS Names, Contents, MaxDepth, Probes, Rich, MaxNodes, Slim

PathsUpTo(n) == UNION { [1..k -> Names] : k \in 0..n }
TreePaths == PathsUpTo(MaxDepth)
\* request paths: everything a tree can map, plus deeper probe paths
ProbePaths == IF Probes = 0 THEN {} ELSE IF Probes = 1 THEN {[i \in 1..(MaxDepth + 1) |-> CHOOSE x \in Names : TRUE]}
              ELSE [1..(MaxDepth + 1) -> Names]
ReqPaths == TreePaths \cup ProbePaths

Base(m, p) == [m |-> m, p |-> p, pflag |-> "ok", c |-> "", cn |-> 0, fault |-> FALSE, fk |-> 0,
               dform |-> "na", dp |-> << >>, depth |-> "absent", ow |-> "absent", ctype |-> "none",
               ifm |-> "unset", ifnm |-> "unset", pform |-> "na"]

PutReqs == {[Base("PUT", p) EXCEPT !.c = c] : p \in ReqPaths, c \in Contents}
SimpleReqs == {Base(m, p) : m \in {"DELETE", "MKCOL", "GET", "HEAD", "OPTIONS"}, p \in ReqPaths}
MkcolBody == {[Base("MKCOL", p) EXCEPT !.ctype = "xml"] : p \in ReqPaths}
PropfindReqs == {[Base("PROPFIND", p) EXCEPT !.depth = d, !.pform = f] :
                   p \in ReqPaths, d \in {"absent", "0", "1", "infinity"}, f \in {"empty", "fileinfo"}}
\* Slim instances (deeper trees) keep one spelling per semantic choice of Depth and Overwrite
CopyReqs == {[Base("COPY", p) EXCEPT !.dform = "path", !.dp = q, !.depth = d, !.ow = o] :
               p \in ReqPaths, q \in ReqPaths,
               d \in (IF Slim THEN {"absent", "0"} ELSE {"absent", "0", "infinity"}),
               o \in (IF Slim THEN {"T", "F"} ELSE {"absent", "T", "F"})}
MoveReqs == {[Base("MOVE", p) EXCEPT !.dform = "path", !.dp = q, !.depth = d, !.ow = o] :
               p \in ReqPaths, q \in ReqPaths,
               d \in (IF Slim THEN {"absent"} ELSE {"absent", "infinity"}),
               o \in (IF Slim THEN {"absent", "F"} ELSE {"absent", "T", "F"})}
\* header-validity dimension (independent of the tree): a few path pairs, every header class
HdrPaths == {p \in TreePaths : Len(p) <= 1}
HdrReqs == {[Base(m, p) EXCEPT !.dform = f, !.dp = q, !.depth = d, !.ow = o] :
              m \in {"COPY", "MOVE"}, p \in HdrPaths, q \in HdrPaths,
              f \in {"path", "abs", "foreign", "missing", "bad"}, d \in {"absent", "0", "1", "infinity", "bad"},
              o \in {"absent", "T", "F", "bad"}}
PropfindHdr == {[Base("PROPFIND", p) EXCEPT !.depth = "bad", !.pform = f] : p \in HdrPaths, f \in {"empty", "fileinfo"}}
            \cup {[Base("PROPFIND", p) EXCEPT !.depth = d, !.pform = f] : p \in HdrPaths, d \in {"absent", "0"}, f \in {"none", "badxml", "allprop"}}
OtherReqs == {Base(m, p) : m \in {"PROPPATCH", "LOCK", "UNLOCK", "POST", "PATCH", "FOO"}, p \in HdrPaths}

WriteReqs == PutReqs \cup {r \in SimpleReqs : r.m \in {"DELETE", "MKCOL"}} \cup CopyReqs \cup MoveReqs
Requests == PutReqs \cup SimpleReqs \cup MkcolBody \cup PropfindReqs \cup CopyReqs \cup MoveReqs
            \cup (IF Rich THEN HdrReqs \cup PropfindHdr \cup OtherReqs ELSE {})

VARIABLES tree, last
vars == <<tree, last>>

TooDeep(t) == (\E p \in DOMAIN t : Len(p) > MaxDepth) \/ Cardinality(DOMAIN t) > MaxNodes

Init == tree = (Root :> Coll) /\ last = [ok |-> TRUE, st |-> {0}, m |-> "", cond |-> TRUE]
\* C02: PUT whose body breaks off (the offset and the failure mode are concretisation dimensions of the recorder)
\* (also under If-None-Match: * -- "create only": the clean-up after the failure must not be subject to the request's own condition)
FaultReqs == {[Base("PUT", p) EXCEPT !.c = c, !.fault = TRUE, !.ifnm = h] : p \in ReqPaths, c \in Contents \cup {"B70000"}, h \in {"unset", "star"}}
\* C04: the conditional-header truth table
CondClasses == {"unset", "star", "cur", "stale", "other", "bad"}
CondReqs == {[Base(m, p) EXCEPT !.c = (IF m = "PUT" THEN (CHOOSE c \in Contents : TRUE) ELSE ""), !.ifm = a, !.ifnm = b] :
               m \in {"PUT", "DELETE"}, p \in ReqPaths, a \in CondClasses, b \in CondClasses}
\* the state machine steps over every write and a slice of the reads (the full universe is judged in F3)
StepReqs == WriteReqs \cup FaultReqs \cup {r \in CondReqs : Len(r.p) <= 1} \cup {r \in SimpleReqs \cup PropfindReqs : r.depth \in {"absent", "1"} /\ r.pform \in {"na", "empty"}}
            \cup (IF Rich THEN {r \in HdrReqs : r.p = Root} \cup OtherReqs ELSE {})
Next == \E r \in StepReqs : \E o \in Outcomes(tree, r) :
           /\ ~TooDeep(o.t)
           /\ tree' = o.t
           /\ last' = [ok |-> o.ok, st |-> o.st, m |-> r.m, cond |-> TRUE]
Spec == Init /\ [][Next]_vars

TypeOK == /\ \A p \in DOMAIN tree : p \in TreePaths /\ tree[p].k \in {"c", "f"}
          /\ \A p \in DOMAIN tree : tree[p].k = "f" => tree[p].d \in Contents
InvWellFormed == WellFormed(tree)
\* a refusing step never changes the tree (C02 on the model), refusals carry only failure codes
FailureAtomic == [][(~last'.ok) => (tree' = tree /\ \A s \in last'.st : s >= 400)]_vars
SuccessCodes == [][last'.ok => \A s \in last'.st : s \in 200..299]_vars
ReadOnly == [][last'.m \in {"GET", "HEAD", "OPTIONS", "PROPFIND", "PROPPATCH", "LOCK", "UNLOCK", "POST", "PATCH", "FOO"} => tree' = tree]_vars
\* every request has at least one outcome, and never both a forced refusal and nothing else
Total == \A r \in Requests : Outcomes(tree, r) # {}

\* ---- F1 emission: each distinct reachable tree exactly once (VIEW = tree)
Entries(t) == {[p |-> p, k |-> t[p].k, d |-> t[p].d, n |-> 0] : p \in DOMAIN t}
EmitTree == PrintT(<<"TREE", ToJson(Entries(tree))>>)
View == tree
ASSUME IF "FAULTOUT" \in DOMAIN IOEnv THEN ndJsonSerialize(IOEnv.FAULTOUT, SetToSeq(FaultReqs)) ELSE TRUE
ASSUME IF "CONDOUT" \in DOMAIN IOEnv THEN ndJsonSerialize(IOEnv.CONDOUT, SetToSeq(CondReqs)) ELSE TRUE
ASSUME IF "REQOUT" \in DOMAIN IOEnv THEN ndJsonSerialize(IOEnv.REQOUT, SetToSeq(Requests)) ELSE TRUE
ASSUME PrintT(<<"NREQ", Cardinality(Requests)>>)
=============================================================================

------------------------------ MODULE Xml ------------------------------
(***************************************************************************)
(* Namespaces in XML, for C15.  A LEXICAL node is what is written:         *)
(*   [kind, pfx, local, decls, attrs, kids, text]                          *)
(*   kind  "el" | "text" | "cdata" | "comment"                             *)
(*   decls sequence of [pfx, uri]   (pfx "" = default namespace,           *)
(*         uri "" = undeclare the default namespace)                       *)
(*   attrs sequence of [pfx, local, val]                                   *)
(* Expand applies the scoping rules and yields the EXPANDED tree           *)
(*   [kind, ns, name, attrs, kids, text] with attrs a SET of [ns, n, v]    *)
(* (attribute order is not significant; an unprefixed attribute is in no   *)
(* namespace; text and CDATA both denote character data).                  *)
(* The token stream of a tree (what a raw value's reader must produce) is  *)
(* Tokens(t): start, children's streams in order, end.                     *)
(***************************************************************************)
EXTENDS Naturals, Integers, Sequences, FiniteSets, TLC

Lookup(env, p) == IF \E i \in 1..Len(env) : env[i].pfx = p
                  THEN env[CHOOSE i \in 1..Len(env) : env[i].pfx = p /\ \A j \in (i + 1)..Len(env) : env[j].pfx # p].uri
                  ELSE "?undeclared"
Declared(env, p) == p = "" \/ \E i \in 1..Len(env) : env[i].pfx = p
RECURSIVE Expand(_, _)
Expand(n, env) ==
  IF n.kind # "el" THEN [kind |-> IF n.kind = "cdata" THEN "text" ELSE n.kind, ns |-> "", name |-> "", attrs |-> {}, kids |-> << >>, text |-> n.text]
  ELSE LET e2 == TLCEval(env \o n.decls)     \* (TLCEval: without it TLC re-derives the scope of every ancestor at every use, exponentially in the depth)
           ns == IF n.pfx = "" THEN (IF Declared(e2, "") /\ \E i \in 1..Len(e2) : e2[i].pfx = "" THEN Lookup(e2, "") ELSE "") ELSE Lookup(e2, n.pfx)
       IN [kind |-> "el", ns |-> ns, name |-> n.local,
           attrs |-> {[ns |-> IF n.attrs[i].pfx = "" THEN "" ELSE Lookup(e2, n.attrs[i].pfx), n |-> n.attrs[i].local, v |-> n.attrs[i].val] : i \in 1..Len(n.attrs)},
           kids |-> TLCEval([i \in 1..Len(n.kids) |-> Expand(TLCEval(n.kids[i]), e2)]), text |-> ""]
\* well-formed w.r.t. namespaces: every prefix used is declared in scope
RECURSIVE WF(_, _)
WF(n, env) == n.kind # "el" \/
              LET e2 == TLCEval(env \o n.decls) IN
              /\ Declared(e2, n.pfx) /\ \A i \in 1..Len(n.attrs) : n.attrs[i].pfx # "" => Declared(e2, n.attrs[i].pfx)
              /\ \A i, j \in 1..Len(n.attrs) : i # j => <<n.attrs[i].pfx, n.attrs[i].local>> # <<n.attrs[j].pfx, n.attrs[j].local>>
              /\ \A i \in 1..Len(n.kids) : WF(n.kids[i], e2)
\* adjacent character data merges (a reader cannot tell "a" + CDATA "b" from "ab")
RECURSIVE Canon(_)
RECURSIVE MergeFrom(_, _, _)
MergeFrom(ks, i, acc) == IF i > Len(ks) THEN acc
                         ELSE MergeFrom(ks, i + 1, TLCEval(IF ks[i].kind = "text" /\ acc # << >> /\ acc[Len(acc)].kind = "text"
                                                           THEN [acc EXCEPT ![Len(acc)].text = @ \o "+" \o ks[i].text]
                                                           ELSE Append(acc, ks[i])))
MergeText(ks) == MergeFrom(ks, 1, << >>)
Canon(t) == IF t.kind # "el" THEN t ELSE [t EXCEPT !.kids = MergeText(TLCEval([i \in 1..Len(t.kids) |-> Canon(TLCEval(t.kids[i]))]))]

\* token stream of an expanded tree, as token kinds
RECURSIVE Tokens(_)
Flat(ss) == LET F[i \in 0..Len(ss)] == IF i = 0 THEN << >> ELSE F[i - 1] \o ss[i] IN F[Len(ss)]
Tokens(t) == IF t.kind # "el" THEN <<t.kind>> ELSE <<"start">> \o Flat(TLCEval([i \in 1..Len(t.kids) |-> Tokens(TLCEval(t.kids[i]))])) \o <<"end">>
Balanced(toks) == LET D[i \in 0..Len(toks)] == IF i = 0 THEN 0 ELSE D[i - 1] + (IF toks[i] = "start" THEN 1 ELSE IF toks[i] = "end" THEN -1 ELSE 0) IN
                  /\ D[Len(toks)] = 0 /\ \A i \in 1..(Len(toks) - 1) : D[i] >= 1 /\ Len(toks) >= 2 /\ toks[1] = "start" /\ toks[Len(toks)] = "end"
RECURSIVE NEl(_), NLeaf(_)
Sum(s) == LET F[i \in 0..Len(s)] == IF i = 0 THEN 0 ELSE F[i - 1] + s[i] IN F[Len(s)]
NEl(t) == IF t.kind # "el" THEN 0 ELSE 1 + Sum(TLCEval([i \in 1..Len(t.kids) |-> NEl(TLCEval(t.kids[i]))]))
NLeaf(t) == IF t.kind # "el" THEN 1 ELSE Sum(TLCEval([i \in 1..Len(t.kids) |-> NLeaf(TLCEval(t.kids[i]))]))
=============================================================================

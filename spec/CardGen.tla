------------------------------ MODULE CardGen ------------------------------
(* F1 + F0 for C07 and C19: bounded universes of queries, cards, card lists and calendars; operator laws. *)
EXTENDS CardFilter, Json, TLCExt, IOUtils, SequencesExt
CONSTANT Big

Seq01(S) == {<< >>} \cup {<<x>> : x \in S}
Seq02(S) == Seq01(S) \cup {<<x, y>> : x \in S, y \in S}
Tests == {"anyof", "allof", "", "bogus"}
MTs == {"equals", "contains", "starts-with", "ends-with", "", "bogus"}
Texts1 == IF Big THEN {<< >>, <<"a">>, <<"a", "b">>, <<"b">>} ELSE {<< >>, <<"a">>, <<"a", "b">>}
TMs1 == [text : Texts1, neg : BOOLEAN, mt : MTs]
\* (M1) one prop-filter, up to two text-matches, every enumeration value including invalid ones
\* is-not-defined together with text-matches is expressible through the API (not on the wire): present => does not hold
PF1 == [name : {"N1"}, test : Tests, isnd : {TRUE}, tms : {<< >>}] \cup [name : {"N1"}, test : Tests, isnd : {FALSE}, tms : Seq02(TMs1)]
       \cup [name : {"N1"}, test : {"anyof", "allof", ""}, isnd : {TRUE}, tms : {<<t>> : t \in [text : {<<"a">>}, neg : BOOLEAN, mt : {"contains", "equals", ""}]}]
Q1 == [test : Tests, filters : {<<p>> : p \in PF1}, limit : {0}, props : {<< >>}, allprop : {FALSE}]
Vals1 == {<<"a">>, <<"a", "b">>, <<"b", "a">>, <<"b">>, << >>, <<"a", "a">>, <<"a", "b", "a">>}
BaseCard == <<[n |-> "VERSION", v |-> <<"3.0">>], [n |-> "FN", v |-> <<"f">>]>>
Cards1 == {BaseCard} \cup {BaseCard \o <<[n |-> "N1", v |-> v]>> : v \in Vals1}
\* (M2) zero to two prop-filters over two properties
TMs2 == [text : {<<"a">>, <<"b">>}, neg : BOOLEAN, mt : {"equals", "contains", "bogus"}]
PF2 == [name : {"N1", "N2"}, test : {"anyof"}, isnd : {TRUE}, tms : {<< >>}] \cup [name : {"N1", "N2"}, test : {"anyof"}, isnd : {FALSE}, tms : Seq01(TMs2)]
Q2 == [test : Tests, filters : Seq02(PF2), limit : {0}, props : {<< >>}, allprop : {FALSE}]
Opt2(n) == {<< >>, <<[n |-> n, v |-> <<"a">>]>>, <<[n |-> n, v |-> <<"b">>]>>}
Cards2 == {BaseCard \o x \o y : x \in Opt2("N1"), y \in Opt2("N2")}

\* (F) Filter: lists of up to four cards, limits from below zero to beyond the list, projections
CardA == BaseCard \o <<[n |-> "N1", v |-> <<"a">>], [n |-> "N2", v |-> <<"b">>]>>
CardB == BaseCard \o <<[n |-> "N1", v |-> <<"b">>]>>
CardC == BaseCard \o <<[n |-> "N1", v |-> <<"a", "b">>], [n |-> "N3", v |-> <<"a">>]>>
\* a property that occurs twice (two fields of the same name): projection keeps every one of them
CardD == BaseCard \o <<[n |-> "N1", v |-> <<"a">>], [n |-> "N1", v |-> <<"b">>], [n |-> "N2", v |-> <<"b">>]>>
Kinds == {"A", "B", "C", "D"}
KindCard(k) == IF k = "A" THEN CardA ELSE IF k = "B" THEN CardB ELSE IF k = "C" THEN CardC ELSE CardD
Lists == UNION {[1..n -> Kinds] : n \in 0..3} \cup [1..4 -> {"A", "B", "C"}]
FQ == {[test |-> "anyof", filters |-> <<[name |-> "N1", test |-> "", isnd |-> FALSE, tms |-> <<[text |-> <<"a">>, neg |-> FALSE, mt |-> ""]>>]>>],
       [test |-> "allof", filters |-> <<[name |-> "N1", test |-> "allof", isnd |-> FALSE, tms |-> <<[text |-> <<"b">>, neg |-> FALSE, mt |-> "ends-with"]>>],
                                        [name |-> "N2", test |-> "", isnd |-> TRUE, tms |-> << >>]>>],
       [test |-> "", filters |-> <<[name |-> "N9", test |-> "", isnd |-> TRUE, tms |-> << >>]>>]}
Projs == {<<FALSE, << >>>>, <<TRUE, << >>>>, <<TRUE, <<"N1">>>>} \cup {<<FALSE, s>> : s \in {<<"N1">>, <<"N2">>, <<"N3">>, <<"N1", "N2">>, <<"N2", "N1", "N3">>, <<"FN">>, <<"N9">>}}
FCases == {[q |-> [test |-> q.test, filters |-> q.filters, limit |-> lim, props |-> pr[2], allprop |-> pr[1]], list |-> l] :
             q \in FQ, lim \in (-1..6) \cup {2147483647}, pr \in Projs, l \in Lists}   \* (the largest limit stands for the largest int of the platform)

\* ---------------- F0 laws
\* De Morgan duality of anyof / allof under negation of every text-match
NegAll(pf) == [pf EXCEPT !.tms = [i \in 1..Len(pf.tms) |-> [pf.tms[i] EXCEPT !.neg = ~pf.tms[i].neg]]]
Dual(t) == IF TestOf(t) = "anyof" THEN "allof" ELSE "anyof"
ASSUME \A pf \in {p \in PF1 : ~p.isnd /\ p.tms # << >> /\ TestOf(p.test) \in ValidTest /\ \A k \in 1..Len(p.tms) : MTOf(p.tms[k].mt) \in ValidMT} :
         \A c \in {x \in Cards1 : Has(x, "N1")} :
           PropVals(pf, c) = {~b : b \in PropVals([NegAll(pf) EXCEPT !.test = Dual(pf.test)], c)}
\* the in-order evaluation agrees with the declarative semantics on valid queries
ASSUME \A q \in Q2 : \A c \in Cards2 : ~InvalidIn(q) => \A g \in {"T", "F"} : (LazyQuery(q, c, g) = "T") \in QueryVals(q, c)
ASSUME \A q \in Q1 : \A c \in Cards1 : ~InvalidIn(q) => \A g \in {"T", "F"} : LazyQuery(q, c, g) # "E" /\ (LazyQuery(q, c, g) = "T") \in QueryVals(q, c)
\* a valid query has exactly one value
ASSUME \A q \in Q2 : \A c \in Cards2 : ~InvalidIn(q) => Cardinality(QueryVals(q, c)) = 1
\* limit-prefix law: the limited result is a prefix of the unlimited one
ASSUME \A fc \in {x \in FCases : x.q.allprop /\ x.q.props = << >>} :
         LET cs == [i \in 1..Len(fc.list) |-> KindCard(fc.list[i])]
             full == Matching(fc.q, cs) lim == FilterIdx(fc.q, cs) IN
         Len(lim) <= Len(full) /\ lim = SubSeq(full, 1, Len(lim))

\* ---------------- C19 calendars: every sequence of up to MaxComps components
Types == {"VEVENT", "VTODO", "VJOURNAL", "VFREEBUSY", "VTIMEZONE"}
CompOpts == [type : Types, uid : {"", "u1", "u2"}]
MaxComps == IF Big THEN 4 ELSE 3
ValCals == [comps : UNION {[1..n -> CompOpts] : n \in 0..MaxComps}, method : BOOLEAN]

Out == IOEnv.OUT
ASSUME ndJsonSerialize(Out \o "/q1.ndjson", SetToSeq(Q1))
ASSUME ndJsonSerialize(Out \o "/cards1.ndjson", SetToSeq(Cards1))
ASSUME ndJsonSerialize(Out \o "/q2.ndjson", SetToSeq(Q2))
ASSUME ndJsonSerialize(Out \o "/cards2.ndjson", SetToSeq(Cards2))
ASSUME ndJsonSerialize(Out \o "/fcases.ndjson", SetToSeq(FCases))
ASSUME ndJsonSerialize(Out \o "/kinds.ndjson", <<[k |-> "A", card |-> CardA], [k |-> "B", card |-> CardB], [k |-> "C", card |-> CardC], [k |-> "D", card |-> CardD]>>)
ASSUME IF "VALOUT" \in DOMAIN IOEnv THEN ndJsonSerialize(IOEnv.VALOUT, SetToSeq(ValCals)) ELSE TRUE
ASSUME PrintT(<<"COUNTS", Cardinality(Q1), Cardinality(Cards1), Cardinality(Q2), Cardinality(Cards2), Cardinality(FCases), Cardinality(ValCals)>>)
VARIABLE x
Init == x = 0
Next == UNCHANGED x
=============================================================================

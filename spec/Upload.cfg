SPECIFICATION Spec
CONSTANTS NChunks = 2  ChunkSize = 2
INVARIANTS CloseResult CloseAfterAnswer TypeOK
PROPERTIES Terminates NoLeak WriteProgress
CHECK_DEADLOCK FALSE

------------------------------ MODULE RobustGen ------------------------------
(* F1 + F0 for C13: the request universe with its classification, and the mutants of representative valid documents. *)
EXTENDS Robust, Json, TLCExt, IOUtils, SequencesExt
CONSTANT Big
Cal == INSTANCE CalWire
Card == INSTANCE CardWire
Srvs == {"dav", "cal", "card", "principal"}
Methods == {"OPTIONS", "GET", "HEAD", "PUT", "DELETE", "MKCOL", "COPY", "MOVE", "PROPFIND", "PROPPATCH", "REPORT", "LOCK", "FOO", "POST"}
Levels == 0..5
Depths == {"absent", "0", "1", "infinity", "bad"}
CTs == {"none", "xml", "textxml", "obj", "objbadparam", "other", "malformed"}
Bodies == {"none", "valid", "emptyxml", "wrongroot", "truncated", "garbage", "badobj", "badobj2"}
Base(s, m, lv) == [srv |-> s, m |-> m, level |-> lv, depth |-> "absent", ow |-> "absent", dest |-> "na", ctype |-> "none", body |-> "none", cond |-> "none"]
LevelsOf(s) == IF s = "dav" THEN 0..3 ELSE IF s = "principal" THEN {1} ELSE Levels
ReqsOf(s, m) == {[Base(s, m, lv) EXCEPT !.ctype = c, !.body = b, !.depth = d] :
                   lv \in LevelsOf(s), c \in CTs, b \in Bodies, d \in (IF m = "PROPFIND" THEN Depths ELSE {"absent"})}
CopyMoveOf(s) == {[Base(s, m, lv) EXCEPT !.depth = d, !.ow = o, !.dest = ds] :
                    m \in {"COPY", "MOVE"}, lv \in (IF Big THEN LevelsOf(s) ELSE {1, 3} \cap LevelsOf(s)), d \in Depths, o \in {"absent", "T", "F", "bad"}, ds \in {"ok", "missing", "bad"}}
\* conditional headers whose value is not an entity tag (one byte, a lone quote, an unterminated string, a bare weak prefix, ...)
Conds == {h \o "-" \o f : h \in {"ifm", "ifnm"}, f \in {"onebyte", "quote", "unterminated", "weakprefix", "bare", "comma"}}
CondOf(s) == {[Base(s, m, lv) EXCEPT !.cond = c, !.ctype = (IF m = "PUT" THEN ct ELSE "none"), !.body = (IF m = "PUT" THEN "valid" ELSE "none")] :
                m \in {"PUT", "DELETE"}, lv \in {1, 2, 3, 4} \cap LevelsOf(s), c \in Conds, ct \in {"obj", "other"}}
CondReqs == UNION {CondOf(s) : s \in {"dav", "cal", "card"}}
Reqs == UNION {UNION {ReqsOf(s, m) : m \in Methods} : s \in Srvs} \cup UNION {CopyMoveOf(s) : s \in Srvs} \cup CondReqs
\* representative valid documents whose every single-edit mutant is sent
CalQ == [comp |-> [name |-> "VCALENDAR", allprops |-> FALSE, props |-> <<"n1">>, allcomps |-> FALSE, expand |-> <<[s |-> "i1", e |-> "i2"]>>,
                   comps |-> <<[name |-> "VEVENT", allprops |-> TRUE, props |-> << >>, allcomps |-> TRUE, comps |-> << >>, expand |-> << >>]>>],
         filter |-> [name |-> "VCALENDAR", isnd |-> FALSE, tr |-> << >>, props |-> << >>,
                     comps |-> <<[name |-> "VEVENT", isnd |-> FALSE, tr |-> <<[s |-> <<"i1">>, e |-> <<"i2">>]>>, comps |-> <<[name |-> "VALARM", isnd |-> TRUE, tr |-> << >>, props |-> << >>, comps |-> << >>]>>,
                                  props |-> <<[name |-> "n1", isnd |-> FALSE, tr |-> << >>, tm |-> <<[text |-> "t0", neg |-> TRUE]>>,
                                              params |-> <<[name |-> "n3", isnd |-> FALSE, tm |-> <<[text |-> "t2", neg |-> FALSE]>>]>>],
                                             [name |-> "n2", isnd |-> TRUE, tr |-> << >>, tm |-> << >>, params |-> << >>]>>]>>]]
CalM == [comp |-> CalQ.comp, hrefs |-> <<"h1", "h3">>]
CardQ == [allprop |-> FALSE, props |-> <<"n1", "n2">>, test |-> "allof", limit |-> 7,
          filters |-> <<[name |-> "n1", test |-> "anyof", isnd |-> FALSE, tms |-> <<[text |-> "t0", neg |-> TRUE, mt |-> "starts-with"], [text |-> "t1", neg |-> FALSE, mt |-> ""]>>,
                         params |-> <<[name |-> "n3", isnd |-> FALSE, tm |-> <<[text |-> "t2", neg |-> FALSE, mt |-> "equals"]>>]>>],
                        [name |-> "n2", test |-> "", isnd |-> TRUE, tms |-> << >>, params |-> << >>]>>]
CardM == [allprop |-> TRUE, props |-> << >>, hrefs |-> <<"h2", "h1">>]
Propfind == El(DAV, "propfind", << >>, <<El(DAV, "prop", << >>, <<El(DAV, "resourcetype", << >>, << >>), El(DAV, "getetag", << >>, << >>)>>)>>)
Mkcol(ns, t) == El(DAV, "mkcol", << >>, <<El(DAV, "set", << >>, <<El(DAV, "prop", << >>, <<El(DAV, "resourcetype", << >>, <<El(DAV, "collection", << >>, << >>), El(ns, t, << >>, << >>)>>),
                                                                                              El(DAV, "displayname", << >>, <<Txt("t1")>>)>>)>>)>>)
Proppatch == El(DAV, "propertyupdate", << >>, <<El(DAV, "set", << >>, <<El(DAV, "prop", << >>, <<El(DAV, "displayname", << >>, <<Txt("t1")>>)>>)>>),
                                                 El(DAV, "remove", << >>, <<El(DAV, "prop", << >>, <<El(CAL, "calendar-description", << >>, << >>)>>)>>)>>)
Edits(d) == Muts(d) \cup Grafts(d, Big)
Mutants == {[srv |-> "cal", m |-> "REPORT", level |-> 3, doc |-> d] : d \in Edits(Cal!QueryDoc(CalQ)) \cup Edits(Cal!MultigetDoc(CalM))}
           \cup {[srv |-> "card", m |-> "REPORT", level |-> 3, doc |-> d] : d \in Edits(Card!QueryDoc(CardQ)) \cup Edits(Card!MultigetDoc(CardM))}
           \cup UNION {{[srv |-> s, m |-> "PROPFIND", level |-> lv, doc |-> d] : lv \in {1, 3} \cap LevelsOf(s), d \in Edits(Propfind)} : s \in Srvs}
           \cup {[srv |-> "cal", m |-> "MKCOL", level |-> 3, doc |-> d] : d \in Edits(Mkcol(CAL, "calendar"))}
           \cup {[srv |-> "card", m |-> "MKCOL", level |-> 3, doc |-> d] : d \in Edits(Mkcol(CARD, "addressbook"))}
           \* PROPPATCH: the CalDAV server answers a valid one 501 (not implemented), so only "a complete response, no panic" is required there
           \cup UNION {{[srv |-> s, m |-> "PROPPATCH", level |-> lv, doc |-> d] : lv \in {2, 3} \cap LevelsOf(s), d \in Edits(Proppatch)} : s \in Srvs \ {"principal"}}
\* F0: the classification is total and the unmutated documents are valid requests
ASSUME \A r \in Reqs : Expect(r) \in {"4xx", "any", "not5xx"}
ASSUME \A r \in Reqs : (r.m \in {"GET", "HEAD", "DELETE", "OPTIONS", "FOO", "POST", "LOCK"} /\ r.depth # "bad" /\ r.cond = "none") => Expect(r) = "any"
ASSUME Cal!QueryShape(Cal!QueryDoc(CalQ)) /\ Cal!QueryDenotes(Cal!QueryDoc(CalQ)) = CalQ /\ Card!QueryShape(Card!QueryDoc(CardQ))
ASSUME ndJsonSerialize(IOEnv.OUT \o "/robust.ndjson", SetToSeq({[r |-> r, want |-> Expect(r)] : r \in Reqs}))
ASSUME ndJsonSerialize(IOEnv.OUT \o "/mutants.ndjson", SetToSeq(Mutants))
ASSUME PrintT(<<"COUNTS", Cardinality(Reqs), Cardinality(Mutants), Cardinality({r \in Reqs : Expect(r) = "4xx"})>>)
VARIABLE dummy
Init == dummy = 0
Next == UNCHANGED dummy
=============================================================================

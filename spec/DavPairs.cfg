SPECIFICATION Spec
CONSTANTS
  Names = {"a", "b"}
  Contents = {"x", "y", ""}
  MaxDepth = 0
  Probes = 0
  MaxNodes = 1
  Slim = FALSE
  Rich = FALSE
CHECK_DEADLOCK FALSE

------------------------------ MODULE Prims ------------------------------
(***************************************************************************)
(* C16: the wire primitives.  Values are abstract: strings are sequences   *)
(* of character CLASSES (the recorder concretises each class several ways),*)
(* instants are (named instant, zone offset) pairs whose wire form depends *)
(* on the instant only.  A round-trip observation [val, back, err] is      *)
(* accepted iff no error occurred and back = val; a rejection observation  *)
(* iff the decoder reported an error and produced no value.                *)
(***************************************************************************)
EXTENDS Naturals, Sequences, FiniteSets, TLC, Json, TLCExt, IOUtils, SequencesExt
CONSTANT MaxLen, AllCodes
Classes == {"letter", "digit", "quote", "backslash", "space", "pct", "hash", "qmark", "nonascii", "control", "comma", "semi", "plus", "lt", "amp"}
Strs(n) == UNION {[1..k -> Classes] : k \in 0..n}
\* entity tags: any string, through the ETag header form and through XML character data
ETagCases == {[k |-> "etag", chars |-> s, via |-> v] : s \in Strs(MaxLen), v \in {"header", "xml"}}
\* hrefs: absolute paths whose first segment is non-empty; segments are class sequences
Seg == Strs(2) \ {<< >>}
HrefCases == {[k |-> "href", segs |-> <<a>>, trail |-> t] : a \in Seg, t \in BOOLEAN}
             \cup {[k |-> "href", segs |-> <<a, b>>, trail |-> FALSE] : a \in {s \in Seg : Len(s) = 1}, b \in {s \in Strs(1) : TRUE}}
\* status lines
Codes == IF AllCodes THEN 100..999 ELSE {100, 199, 200, 201, 204, 207, 299, 300, 304, 399, 400, 404, 418, 423, 499, 500, 507, 599, 600, 999}
StatusCases == {[k |-> "status", code |-> c, reason |-> r] : c \in Codes, r \in {"default", "custom", "words", "nonascii", "colon"}}
\* Depth, Overwrite: exhaustive
DepthCases == {[k |-> "depth", val |-> v] : v \in {"0", "1", "infinity"}}
OwCases == {[k |-> "overwrite", val |-> v] : v \in {"T", "F"}}
\* instants x zones, for HTTP dates and iCalendar UTC date-times
Instants == {"epoch", "leapday", "yearend", "y9999", "y1", "subsec", "dst"}
Zones == {0, 19800, 0 - 34200, 50400, 0 - 43200}
TimeCases == {[k |-> "time", fmt |-> f, inst |-> i, zone |-> z] : f \in {"http", "ical"}, i \in Instants, z \in Zones}
\* texts outside each grammar: the decoder must report an error, not a value
Rej == {[k |-> "reject", prim |-> "depth", text |-> t] : t \in {"Infinity", "2", " 0", "0 ", "", "00", "-1", "1.0", "INFINITY", "infinite", "0,1", "one"}}
       \cup {[k |-> "reject", prim |-> "overwrite", text |-> t] : t \in {"t", "f", "TRUE", "", "TF", " T", "0", "1", "yes", "T "}}
       \cup {[k |-> "reject", prim |-> "status", text |-> t] : t \in {"HTTP/1.1 200", "HTTP/1.1", "HTTP/1.1 abc OK", "200 OK", "HTTP/1.1  200 OK", "HTTP/1.1 2x0 OK", "HTTP/1.1 20.0 OK"}}
       \cup {[k |-> "reject", prim |-> "etag", text |-> t] : t \in {"abc", "\"abc", "abc\"", "", "\"a\"b\"", "\"a", "a\"b", "\"\"\""}}
       \cup {[k |-> "reject", prim |-> "href", text |-> t] : t \in {"/a%zz", "http://[::1/x", "/%", "/a%2", "%gg"}}
       \cup {[k |-> "reject", prim |-> "httpdate", text |-> t] : t \in {"2021-03-01T12:00:00Z", "", "Mon, 32 Jan 2021 00:00:00 GMT", "20210301T120000Z", "yesterday", "1614600000"}}
       \cup {[k |-> "reject", prim |-> "icaldate", text |-> t] : t \in {"20210301T120000", "20210301", "2021-03-01T12:00:00Z", "", "20211301T000000Z", "20210301T250000Z", "20210301T120000+0100", "x"}}
\* near misses: one token of a valid text replaced by something the grammar does not allow at that place
Join(ts) == IF ts = << >> THEN "" ELSE FoldLeft(LAMBDA acc, t : acc \o t, "", ts)
NearMisses(base, alts) == UNION {{Join([base EXCEPT ![i] = a]) : a \in alts[i]} : i \in DOMAIN alts} \ {Join(base)}
HttpBase == <<"Mon", ", ", "01", " ", "Mar", " ", "2021", " ", "12", ":", "00", ":", "00", " ", "GMT">>
HttpAlts == [i \in 1..15 |-> CASE i = 15 -> {"PST", "EST", "UTC", "CEST", "JST", "Z", "+0000", "gmt", "", "GMT+1", "-0800"}
                               [] i = 9 -> {"24", "-1"}        \* (a one-digit hour and names in another letter case are read by Go's time package as what they plainly say: not listed)
                               [] i = 11 -> {"60", "0"}
                               [] i = 13 -> {"61", "0"}
                               [] i = 3 -> {"00", "32", "1"}
                               [] i = 5 -> {"Foo", "03"}
                               [] i = 7 -> {"21", "20211"}
                               [] i = 2 -> {" ", ","}
                               [] i = 1 -> {"Mo", ""}
                               [] OTHER -> {}]
IcalBase == <<"2021", "03", "01", "T", "12", "00", "00", "Z">>
IcalAlts == [i \in 1..8 |-> CASE i = 8 -> {"z", "", "+0000", "GMT", "ZZ"}
                              [] i = 4 -> {"t", " ", ""}
                              [] i = 2 -> {"13", "00", "3"}
                              [] i = 3 -> {"32", "00"}
                              [] i = 5 -> {"24", "1"}
                              [] i = 6 -> {"60"}
                              [] i = 7 -> {"61"}
                              [] OTHER -> {"021", "20211"}]
RejNear == {[k |-> "reject", prim |-> "httpdate", text |-> t] : t \in NearMisses(HttpBase, HttpAlts)}
           \cup {[k |-> "reject", prim |-> "icaldate", text |-> t] : t \in NearMisses(IcalBase, IcalAlts)}
All == RejNear \cup ETagCases \cup HrefCases \cup StatusCases \cup DepthCases \cup OwCases \cup TimeCases \cup Rej
\* F0: the domains are what the statement says
ASSUME Cardinality(DepthCases) = 3 /\ Cardinality(OwCases) = 2
ASSUME \A c \in HrefCases : Len(c.segs) >= 1 /\ c.segs[1] # << >>
ASSUME IF "OUT" \in DOMAIN IOEnv THEN ndJsonSerialize(IOEnv.OUT \o "/prims.ndjson", SetToSeq(All)) ELSE TRUE
ASSUME PrintT(<<"COUNTS", Cardinality(All), Cardinality(ETagCases), Cardinality(HrefCases), Cardinality(StatusCases), Cardinality(TimeCases), Cardinality(Rej)>>)
VARIABLE dummy
Init == dummy = 0
Next == UNCHANGED dummy
=============================================================================

SPECIFICATION Spec
CONSTANTS
  Clients = {"c1", "c2"}
  Names = {"a"}
  MaxOps = 2
  MaxTotal = 4
  OwnDepth = 3
INVARIANTS DisjointIndependence WellFormedInv
PROPERTIES Confined
CHECK_DEADLOCK FALSE

INIT Init
NEXT Next
CONSTANT Big = FALSE

INIT Init
NEXT Next
CONSTANTS MaxLen = 2
 AllCodes = FALSE

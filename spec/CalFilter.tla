------------------------------ MODULE CalFilter ------------------------------
(***************************************************************************)
(* RFC 4791 section 9.7 - 9.9 filter evaluation (C06) and section 4.1      *)
(* object validation (C19), transcribed as pure operators.                 *)
(*                                                                         *)
(* Abstract data.  text = sequence of letters (TLC computes substring);    *)
(* an optional value is a sequence of length 0 or 1; props / params are    *)
(* sequences of records with distinct names (single-instance domain).      *)
(*   component  [name, props, kids, ev]   ev: optional event timing        *)
(*   prop       [n, v, params, t]         t: optional instant (DATE-TIME)  *)
(*   timing     [ds, kind, x, rr]  kind in dtend|dur|none|date|datedtend;  *)
(*              x = DTEND instant or DURATION length; rr optional          *)
(*              recurrence [period, count]                                 *)
(*   time range [s, e]  optional integer instants, at least one present    *)
(*   comp-filter [name, isnd, tr, props, comps]                            *)
(*   prop-filter [name, isnd, tm, tr, params]; param-filter [name,isnd,tm] *)
(*   text-match [text, neg]                                                *)
(***************************************************************************)
EXTENDS Naturals, Integers, Sequences, FiniteSets, TLC

Has(seq, n) == \E i \in 1..Len(seq) : seq[i].n = n
Get(seq, n) == seq[CHOOSE i \in 1..Len(seq) : seq[i].n = n]

IsSub(t, v) == \E i \in 0..(Len(v) - Len(t)) : \A j \in 1..Len(t) : v[i + j] = t[j]
TM(tm, v) == IF tm.neg THEN ~IsSub(tm.text, v) ELSE IsSub(tm.text, v)
OptTM(o, v) == o = << >> \/ TM(o[1], v)

\* ---- 9.9 time ranges over integer instants; [s, e) with optional ends
EvStart(ev) == ev.ds
EvEnd(ev) == CASE ev.kind \in {"dtend", "datedtend"} -> ev.x
               [] ev.kind = "dur" -> ev.ds + ev.x
               [] ev.kind = "date" -> ev.ds + 1          \* all-day start without end: one day (day grid)
               [] OTHER -> ev.ds                         \* an instant
\* the RFC table: a non-empty interval [S, E) overlaps iff start < E /\ end > S;
\* a zero-length one (instant) iff start <= S /\ end > S; a missing bound constrains nothing
OverlapsIv(S, E, tr) ==
  IF E > S THEN (tr.s = << >> \/ tr.s[1] < E) /\ (tr.e = << >> \/ tr.e[1] > S)
  ELSE (tr.s = << >> \/ tr.s[1] <= S) /\ (tr.e = << >> \/ tr.e[1] > S)
Instances(ev) == IF ev.rr = << >> THEN {0} ELSE {k * ev.rr[1].period : k \in 0..(ev.rr[1].count - 1)}
Overlaps(ev, tr) == \E d \in Instances(ev) : OverlapsIv(EvStart(ev) + d, EvEnd(ev) + d, tr)
\* a property holding an instant: start <= t < end
PropInRange(t, tr) == (tr.s = << >> \/ tr.s[1] <= t) /\ (tr.e = << >> \/ tr.e[1] > t)

ParamHolds(pf, prop) ==
  IF pf.isnd THEN ~Has(prop.params, pf.name)
  ELSE Has(prop.params, pf.name) /\ OptTM(pf.tm, Get(prop.params, pf.name).v)

PropHolds(pf, comp) ==
  IF pf.isnd THEN ~Has(comp.props, pf.name)
  ELSE /\ Has(comp.props, pf.name)
       /\ LET p == Get(comp.props, pf.name) IN
            /\ OptTM(pf.tm, p.v)
            /\ (pf.tr = << >> \/ (p.t # << >> /\ PropInRange(p.t[1], pf.tr[1])))
            /\ \A i \in 1..Len(pf.params) : ParamHolds(pf.params[i], p)

RECURSIVE Sat(_, _), Exists(_, _)
\* component c itself satisfies comp-filter f (name, time range, nested filters)
Sat(f, c) == /\ c.name = f.name
             /\ (f.tr = << >> \/ (c.ev # << >> /\ Overlaps(c.ev[1], f.tr[1])))
             /\ \A i \in 1..Len(f.props) : PropHolds(f.props[i], c)
             /\ \A i \in 1..Len(f.comps) : Exists(f.comps[i], c.kids)
\* a nested comp-filter holds iff some child satisfies it (is-not-defined: iff no child has that name)
Exists(f, kids) == IF f.isnd THEN \A i \in 1..Len(kids) : kids[i].name # f.name
                   ELSE \E i \in 1..Len(kids) : Sat(f, kids[i])
\* the outermost comp-filter is applied to the calendar component itself
CompMatch(f, cal) == IF f.isnd THEN cal.name # f.name ELSE Sat(f, cal)

\* Filter: the order-preserving subsequence of matching objects; identity for a nil query
FilterList(f, cals) == SelectSeq(cals, LAMBDA c : CompMatch(f, c))

(***************************************************************************)
(* C19.  A calendar is a sequence of [type, uid] (uid "" = none) plus a    *)
(* METHOD flag.  Accept iff no METHOD, one single type among non-VTIMEZONE *)
(* components, one single UID among the components that carry one.         *)
(***************************************************************************)
TypesOf(comps) == {comps[i].type : i \in {j \in 1..Len(comps) : comps[j].type # "VTIMEZONE"}}
UidsOf(comps) == {comps[i].uid : i \in {j \in 1..Len(comps) : comps[j].uid # ""}}
Valid(cal) == ~cal.method /\ Cardinality(TypesOf(cal.comps)) <= 1 /\ Cardinality(UidsOf(cal.comps)) <= 1
TheType(cal) == IF TypesOf(cal.comps) = {} THEN "" ELSE CHOOSE t \in TypesOf(cal.comps) : TRUE
TheUid(cal) == IF UidsOf(cal.comps) = {} THEN "" ELSE CHOOSE u \in UidsOf(cal.comps) : TRUE
=============================================================================

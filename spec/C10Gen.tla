------------------------------ MODULE C10Gen ------------------------------
(***************************************************************************)
(* F1 for C10: what backends hold (collections, objects, per-href multiget *)
(* outcomes, PUT exchanges) over token alphabets, and the layouts in which *)
(* an independent writer may phrase a conformant multi-status.  The value  *)
(* a client call must yield is the backend's content itself, so the cases  *)
(* ARE the expected values; the judge requires got = want.                 *)
(***************************************************************************)
EXTENDS Naturals, Sequences, FiniteSets, TLC, Json, TLCExt, IOUtils, SequencesExt
CONSTANT Big
Seq02(S) == {<< >>} \cup {<<x>> : x \in S} \cup {<<x, y>> : x \in S, y \in S}
Srvs == {"cal", "card"}
\* collections: path, display name, description, size limit class, supported set class
Cols == [path : {"c1", "c2"}, name : {"", "n1", "n2"}, desc : {"", "t1"}, max : {0, 1, 2}, sup : {"empty", "none", "one", "two"}]
ColLists == {<< >>} \cup {<<c>> : c \in {x \in Cols : x.path = "c1"}} \cup
               {<<a, b>> : a \in {x \in Cols : x.path = "c1" /\ x.name = "n1" /\ x.max = 2}, b \in {x \in Cols : x.path = "c2" /\ x.desc = "t1" /\ x.sup # "one"}}
ColCases == {[k |-> "cols", srv |-> s, cols |-> l] : s \in Srvs, l \in ColLists}
\* objects: path, entity tag, modification time, content
\* "e0" / "m0": the backend holds no entity tag / no modification time for the object (empty string, zero time)
Objs == [path : {"o1", "o2", "o3"}, etag : {"e0", "e1", "e2", "e3"}, mtime : {"m0", "m1", "m2"}, data : {"d1", "d2", "d3"}]
ObjLists == {<<o>> : o \in Objs} \cup (IF Big THEN {<<a, b>> : a \in {x \in Objs : x.path = "o1"}, b \in {x \in Objs : x.path = "o3"}}
                                               ELSE {<<a, b>> : a \in {x \in Objs : x.path = "o1" /\ x.mtime = "m1"}, b \in {x \in Objs : x.path = "o3" /\ x.etag = "e3" /\ x.data = "d2"}})
ObjCases == {[k |-> "objs", srv |-> s, via |-> v, objs |-> l] : s \in Srvs, v \in {"get", "multiget", "query"}, l \in ObjLists}
\* multiget: every requested href answered once, in order, with the object or the backend's own status
\* "403w", "404w": the status is carried by a wrapped error (a layered backend)
Outs == {"ok", "404", "403", "500", "403w", "404w"}
MgCases == {[k |-> "mgst", srv |-> s, items |-> it] : s \in Srvs,
              it \in UNION {[1..n -> [href : {"o1", "o2", "o3"}, out : Outs]] : n \in 1..(IF Big THEN 3 ELSE 2)}}
\* a multiget far beyond the bounded instances in length only: 150 hrefs, a few of them failing
MgMany == {[k |-> "mgst", srv |-> s, items |-> [i \in 1..150 |-> [href |-> "o" \o ToString(1000 + i),
                                                                out |-> IF i \in {1, 77, 150} THEN "404" ELSE IF i = 101 THEN "403w" ELSE "ok"]]] : s \in Srvs}
MgValid(c) == \A i, j \in 1..Len(c.items) : i # j => c.items[i].href # c.items[j].href
\* PUT: the backend receives the caller's object and its answer (path, tag, time) is handed back
PutCases == {[k |-> "put", srv |-> s, path |-> p, data |-> d, rpath |-> r, etag |-> e, mtime |-> m, form |-> f] :
               f \in {"abs", "rel"}, s \in Srvs, p \in {"o1", "o2"}, d \in {"d1", "d2", "d3"}, r \in {"o1", "o2", "o3"}, e \in {"e0", "e1", "e2", "e3"}, m \in {"m0", "m1", "m2"}}
\* the client reads conformant documents from an independent writer, whatever their layout
\* "absent404(first)": the optional properties the resource lacks are reported in a 404 propstat instead of being left out
Layouts == {"plain", "split", "splitrev", "extra", "opt404", "opt404first", "absent404", "absent404first", "prefixes", "ws", "cdata"}
DocCases == {[k |-> "doc", srv |-> s, call |-> "objs", layout |-> ly, objs |-> l, cols |-> << >>] : s \in Srvs, ly \in Layouts, l \in {x \in ObjLists : Len(x) = 1 \/ Big}}
            \cup {[k |-> "doc", srv |-> s, call |-> "cols", layout |-> ly, objs |-> << >>, cols |-> l] : s \in Srvs, ly \in Layouts, l \in {x \in ColLists : Len(x) >= 1}}
            \* (an empty answer still carries the new token)
            \cup {[k |-> "doc", srv |-> "card", call |-> "sync", layout |-> ly, objs |-> l, cols |-> << >>] : ly \in Layouts, l \in {x \in ObjLists : Len(x) = 2} \cup {<< >>}}
            \* the home set's own response last, or missing
            \cup {[k |-> "doc", srv |-> s, call |-> "cols", layout |-> ly, objs |-> << >>, cols |-> l] : s \in Srvs, ly \in {"homelast", "nohome"}, l \in {x \in ColLists : Len(x) >= 1}}
All == ColCases \cup ObjCases \cup {c \in MgCases : MgValid(c)} \cup MgMany \cup PutCases \cup DocCases
ASSUME ndJsonSerialize(IOEnv.OUT \o "/c10.ndjson", SetToSeq(All))
ASSUME PrintT(<<"COUNTS", Cardinality(All), Cardinality(ColCases), Cardinality(ObjCases), Cardinality(MgCases), Cardinality(PutCases), Cardinality(DocCases)>>)
VARIABLE dummy
Init == dummy = 0
Next == UNCHANGED dummy
=============================================================================

------------------------------ MODULE Store ------------------------------
(***************************************************************************)
(* State machine over StoreOps: F0 (bounded model check of the design's    *)
(* own laws) and F1 (iii) (histories by simulation, one random successor   *)
(* per step).                                                              *)
(***************************************************************************)
EXTENDS StoreOps, Json, TLCExt
CONSTANTS Cols, Names, Datas, Filters, MaxRev, HistLen, Sim
VARIABLES S, last, hist
vars == <<S, last, hist>>
Op(o, cl, c, n, d, ns, f) == [op |-> o, cl |-> cl, c |-> c, n |-> n, d |-> d, ns |-> ns, f |-> f, flt |-> ""]
Faults == {"h403", "h503", "w507", "plain"}
NameSeqs == {s \in UNION {[1..k -> Names] : k \in 1..3} : \A i, j \in DOMAIN s : i # j => s[i] # s[j]}
Ops == {Op("put", 1, c, n, d, << >>, "") : c \in Cols, n \in Names, d \in Datas}
       \cup {Op(o, 1, c, n, "", << >>, "") : o \in {"get", "del"}, c \in Cols, n \in Names}
       \cup {Op("mget", 1, c, "", "", ns, "") : c \in Cols, ns \in NameSeqs}
       \cup {Op("query", 1, c, "", "", << >>, f) : c \in Cols, f \in Filters}
       \cup {Op("cols", 1, "", "", "", << >>, "")}
       \cup {Op("mkcol", 1, c, "", "", << >>, "") : c \in Cols}
       \cup {[Op("put", 1, c, n, d, << >>, "") EXCEPT !.flt = "h503"] : c \in Cols, n \in Names, d \in Datas}
       \cup {[Op("del", 1, c, n, "", << >>, "") EXCEPT !.flt = "plain"] : c \in Cols, n \in Names}
NoOp == Op("none", 1, "", "", "", << >>, "")
Init == S = Empty /\ last = [op |-> NoOp, res |-> Fail(0)] /\ hist = << >>
Do(op) == LET st == Step(S, op) IN S' = st.next /\ last' = [op |-> op, res |-> st.res]
Next == /\ ~Sim /\ S.rev < MaxRev /\ \E op \in Ops : Do(op)
        /\ UNCHANGED hist
\* ---- design laws
TypeOK == /\ S.rev \in 0..MaxRev
          /\ \A k \in DOMAIN S.store : k[1] \in Cols /\ k[2] \in Names /\ S.store[k].d \in Datas /\ S.store[k].e \in 1..S.rev
\* two stored objects never carry the same revision (hence never the same entity tag), and none is newer than the counter
TagsFresh == \A j, k \in DOMAIN S.store : j # k => S.store[j].e # S.store[k].e
\* every stored object lies in an existing collection; collections are distinct
WellFormed == (\A k \in DOMAIN S.store : InCol(S, k[1])) /\ (\A i, j \in 1..Len(S.cols) : i # j => S.cols[i] # S.cols[j])
\* a failing or reading call changes nothing
Pure == [][(last'.res.err \/ last'.op.op \in {"get", "mget", "query", "cols"}) => S' = S]_vars
\* what was put is what a get yields, until the next write of that name
ReadYourWrite == [][(last.op.op = "put" /\ ~last.res.err /\ last'.op.op = "get" /\ last'.op.c = last.op.c /\ last'.op.n = last.op.n)
                     => (~last'.res.err /\ last'.res.objs = last.res.objs)]_vars
\* a query answers with a sub-multiset of what the collection holds, each row as a get would return it
QuerySound == [][(last'.op.op = "query") => \A x \in Range(last'.res.objs) : Has(S, x.c, x.n) /\ x = Row(S, x.c, x.n) /\ x.c = last'.op.c]_vars
\* a written tag is new: it differs from every tag handed out before
NewTag == [][(last'.op.op = "put" /\ ~last'.res.err) => last'.res.objs[1].e > S.rev]_vars
Spec == Init /\ [][Next]_vars
\* ---- simulation: histories biased towards names that exist, two clients
Pick(s) == RandomElement(s)
PresentIn(c) == {k[2] : k \in {x \in DOMAIN S.store : x[1] = c}}
GoodSeqs(c) == {s \in NameSeqs : Range(s) \subseteq PresentIn(c)}
NearSeq(c) == IF GoodSeqs(c) # {} /\ Pick(1..4) > 1 THEN Pick(GoodSeqs(c)) ELSE Pick(NameSeqs)
GenOp == LET o == Pick({<<"put", 1>>, <<"put", 2>>, <<"put", 3>>, <<"put", 4>>, <<"get", 1>>, <<"get", 2>>, <<"get", 3>>, <<"del", 1>>, <<"mget", 1>>, <<"mget", 2>>, <<"mget", 3>>,
                        <<"query", 1>>, <<"query", 2>>, <<"query", 3>>, <<"cols", 1>>, <<"mkcol", 1>>})[1]
             \* mostly an existing collection, mostly one that holds something; mostly a stored object for the reads
             c0 == IF Pick(1..8) = 1 THEN Pick(Cols) ELSE Pick(Range(S.cols))
             k == IF DOMAIN S.store # {} /\ Pick(1..5) > 1 THEN Pick(DOMAIN S.store) ELSE <<c0, Pick(Names)>>
             cl == Pick(1..2) IN
         CASE o = "put" -> Op(o, cl, IF Pick(1..3) = 1 THEN k[1] ELSE c0, IF Pick(1..2) = 1 THEN k[2] ELSE Pick(Names), Pick(Datas), << >>, "")
           [] o \in {"get", "del"} -> Op(o, cl, k[1], k[2], "", << >>, "")
           [] o = "mget" -> Op(o, cl, k[1], "", "", NearSeq(k[1]), "")
           [] o = "query" -> Op(o, cl, k[1], "", "", << >>, Pick(Filters))
           [] o = "mkcol" -> Op(o, cl, Pick(Cols), "", "", << >>, "")
           [] OTHER -> Op(o, cl, "", "", "", << >>, "")
\* after a write, every other call reads what was just written or removed (by either client): stale answers show here
FollowUp(w) == LET o == Pick({"get", "get", "mget", "query", "put"})
                   cl == Pick(1..2) IN
               CASE o = "get" -> Op(o, cl, w.c, w.n, "", << >>, "")
                 [] o = "mget" -> Op(o, cl, w.c, "", "", IF Pick(1..2) = 1 THEN <<w.n>> ELSE NearSeq(w.c), "")
                 [] o = "query" -> Op(o, cl, w.c, "", "", << >>, Pick(Filters))
                 [] OTHER -> Op("put", cl, w.c, w.n, Pick(Datas), << >>, "")
MaybeFault(op) == IF Pick(1..7) = 1 THEN [op EXCEPT !.flt = Pick(Faults)] ELSE op
SNext == /\ Sim /\ Len(hist) < HistLen
         /\ \E op \in {MaybeFault(x) : x \in {IF hist # << >> /\ hist[Len(hist)].op \in {"put", "del"} /\ Pick(1..2) = 1 THEN FollowUp(hist[Len(hist)]) ELSE GenOp}} :
               Do(op) /\ hist' = Append(hist, op)
SSpec == Init /\ [][SNext]_vars
EmitHist == (Len(hist) = HistLen) => PrintT(<<"HIST", ToJson(hist)>>)
=============================================================================

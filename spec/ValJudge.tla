------------------------------ MODULE ValJudge ------------------------------
(* F3 for C19: every result of the real caldav.ValidateCalendarObject against CalFilter.Valid / TheType / TheUid. *)
EXTENDS CalFilter, Json, TLCExt, IOUtils, SequencesExt
Cals == ndJsonDeserialize(IOEnv.CALS)
Obs == ndJsonDeserialize(IOEnv.OBS)
OK(e) == LET c == Cals[e.i] IN
         /\ ~e.panic /\ e.argsame
         /\ e.ok = Valid(c)
         /\ (e.ok => e.type = TheType(c) /\ e.uid = TheUid(c))
         /\ (~e.ok => e.type = "" /\ e.uid = "")
Firsts(c) == (IF Len(c.comps) > 0 THEN c.comps[1].type ELSE "none") \o (IF Len(c.comps) > 0 /\ c.comps[1].uid = "" THEN "(nouid)" ELSE "")
Sig(e) == LET c == Cals[e.i] IN
          "validate n=" \o ToString(Len(c.comps)) \o " first=" \o Firsts(c) \o " method=" \o ToString(c.method)
          \o " types=" \o ToString(Cardinality(TypesOf(c.comps))) \o " uids=" \o ToString(Cardinality(UidsOf(c.comps)))
          \o " tz=" \o ToString(\E i \in 1..Len(c.comps) : c.comps[i].type = "VTIMEZONE")
          \o " got=" \o (IF e.panic THEN "panic" ELSE IF e.ok THEN "accept(" \o e.type \o "," \o e.uid \o ")" ELSE "reject(" \o e.type \o "," \o e.uid \o ")")
          \o " want=" \o (IF Valid(c) THEN "accept(" \o TheType(c) \o "," \o TheUid(c) \o ")" ELSE "reject")
VARIABLES l, bad
JInit == l = 1 /\ bad = 0
JNext == /\ l <= Len(Obs) /\ l' = l + 1
         /\ bad' = bad + (IF OK(Obs[l]) THEN 0 ELSE 1)
         /\ (OK(Obs[l]) \/ PrintT("REJECT|" \o ToString(l) \o "|C19 " \o Sig(Obs[l])))
JSpec == JInit /\ [][JNext]_<<l, bad>>
\* the recorder must have executed every calendar of the instance exactly once, in order
Done == (l = Len(Obs) + 1) => (PrintT(<<"DONE", Len(Obs), bad>>) /\ Len(Obs) = Len(Cals) /\ \A i \in 1..Len(Obs) : Obs[i].i = i)
=============================================================================

------------------------------ MODULE C14Judge ------------------------------
(* F3 for C14: every observation of a client call on a scripted response against DavWire.ClientOutcomeOK. *)
EXTENDS DavWire, Json, TLCExt, IOUtils, SequencesExt
Obs == ndJsonDeserialize(IOEnv.OBS)
OK(e) == ClientOutcomeOK(e.kind, e, e)
StClass(st) == IF Is2xx(st) THEN (IF st = 207 THEN "207" ELSE "2xx") ELSE IF st < 200 THEN "1xx" ELSE IF st < 400 THEN "3xx" ELSE IF st < 500 THEN "4xx" ELSE "5xx"
Why(e) == IF e.panic THEN "panic" ELSE IF e.hang THEN "hang"
          ELSE IF e.err # ErrExpected(e.kind, e) THEN (IF e.err THEN "unexpected-error" ELSE "error-swallowed")
          ELSE IF ~Is2xx(e.st) /\ e.code # e.st THEN "status-code-not-carried code=" \o ToString(e.code)
          ELSE IF (CondExpected(e) \/ e.place \in RErrPlaces) /\ ~e.cond THEN "dav-error-condition-lost"
          ELSE IF e.err /\ e.items # 0 THEN "data-returned-with-error"
          ELSE "sync-deletion-accounting"
IcalPeek == "github.com/emersion/go-ical.(*lineDecoder).peek"
Sig(e) == IF e.panic /\ e.panicin = IcalPeek /\ e.body = "badpayload2"
          THEN "CalDAV client given an iCalendar payload with a content line that has parameters but no value: panic in " \o IcalPeek
          ELSE "client " \o e.m \o " st=" \o StClass(e.st) \o " ct=" \o e.ct \o " body=" \o e.body \o " place=" \o e.place \o " " \o Why(e)
VARIABLES l, bad
JInit == l = 1 /\ bad = 0
JNext == /\ l <= Len(Obs) /\ l' = l + 1
         /\ IF OK(Obs[l]) THEN bad' = bad ELSE bad' = bad + 1 /\ PrintT("REJECT|" \o ToString(l) \o "|C14 " \o Sig(Obs[l]))
JSpec == JInit /\ [][JNext]_<<l, bad>>
Done == (l = Len(Obs) + 1) => PrintT(<<"DONE", Len(Obs), bad>>)
=============================================================================

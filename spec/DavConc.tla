------------------------------ MODULE DavConc ------------------------------
(***************************************************************************)
(* C18, concurrency half.  Several clients issue requests against ONE      *)
(* resource tree; client c only addresses paths below its own collection   *)
(* <<c>>.  Each request is one atomic step (its linearisation point).      *)
(* DisjointIndependence: in every interleaving, what each client observes  *)
(* (status set, and the effect on its own subtree) is what it observes     *)
(* when its requests run alone -- nothing a client does is visible to, or  *)
(* influenced by, the others.  This is the frame property of               *)
(* DavTree.Outcomes, checked over all interleavings of a bounded instance. *)
(***************************************************************************)
EXTENDS DavTree

CONSTANTS Clients, Names, MaxOps, OwnDepth, MaxTotal   \* MaxTotal bounds the number of requests of all clients together

Base(m, p) == [m |-> m, p |-> p, pflag |-> "ok", c |-> "", cn |-> 0, fault |-> FALSE, fk |-> 0,
               dform |-> "na", dp |-> << >>, depth |-> "absent", ow |-> "absent", ctype |-> "none",
               ifm |-> "unset", ifnm |-> "unset", pform |-> "na"]
Own(c) == {<<c>> \o s : s \in UNION {[1..k -> Names] : k \in 1..OwnDepth}}
ReqsOf(c) ==
  {[Base("PUT", p) EXCEPT !.c = "x"] : p \in Own(c)} \cup
  {Base(m, p) : m \in {"DELETE", "MKCOL", "GET"}, p \in Own(c)} \cup
  {[Base("PROPFIND", <<c>>) EXCEPT !.depth = "infinity", !.pform = "empty"]} \cup
  {[Base(m, p) EXCEPT !.dform = "path", !.dp = q, !.ow = o] : m \in {"COPY", "MOVE"}, p \in Own(c), q \in Own(c), o \in {"T", "F"}}

Sub(t, c) == [p \in {q \in DOMAIN t : Under(q, <<c>>)} |-> t[p]]
Init0 == [p \in {Root} \cup {<<c>> : c \in Clients} |-> Coll]

VARIABLES tree, hist     \* hist[c]: sequence of [r, st, sub] observed by client c
vars == <<tree, hist>>

Init == tree = Init0 /\ hist = [c \in Clients |-> << >>]
RECURSIVE Total(_, _)
Total(h, S) == IF S = {} THEN 0 ELSE LET c == CHOOSE x \in S : TRUE IN Len(h[c]) + Total(h, S \ {c})
Step(c) == /\ Len(hist[c]) < MaxOps /\ Total(hist, Clients) < MaxTotal
           /\ \E r \in ReqsOf(c) : \E o \in Outcomes(tree, r) :
                /\ tree' = o.t
                /\ hist' = [hist EXCEPT ![c] = Append(@, [r |-> r, st |-> o.st, sub |-> Sub(o.t, c)])]
Next == \E c \in Clients : Step(c)
Spec == Init /\ [][Next]_vars

\* the tree a client sees when it runs alone: the initial tree with only its own subtree evolving
RECURSIVE SoloOK(_, _, _)
SoloOK(c, h, t) ==
  IF h = << >> THEN TRUE
  ELSE \E o \in Outcomes(t, Head(h).r) :
         /\ o.st = Head(h).st
         /\ Sub(o.t, c) = Head(h).sub
         /\ SoloOK(c, Tail(h), o.t)
DisjointIndependence == \A c \in Clients : SoloOK(c, hist[c], Init0)
\* no client ever changes anything outside its own subtree
Confined == [][\A c \in Clients : (hist'[c] # hist[c]) => \A d \in Clients \ {c} : Sub(tree', d) = Sub(tree, d)]_vars
WellFormedInv == WellFormed(tree)
=============================================================================

ConstInit == NChunks \in Nat /\ ChunkSize \in Nat /\ ChunkSize >= 1

\* ---- inductive invariant for ANY number of chunks of ANY size (Apalache: Init => IndInv; IndInv /\ Next => IndInv')
PlanOK == plan.readK >= 0 /\ plan.readK <= Total /\ plan.fin \in {"s2xx", "s4xx", "drop", "stall"}
Types == /\ PlanOK
         /\ cpc \in {"idle", "writing", "waitdone", "ret"} /\ ci >= 0 /\ ci <= NChunks /\ pend >= 0 /\ pend <= ChunkSize
         /\ wres \in {"none", "ok", "errClosed"} /\ cres \in {"none", "nil", "err"}
         /\ tpc \in {"notstarted", "run", "answered", "failed"} /\ tread >= 0 /\ resp \in {"none", "s2xx", "s4xx"}
         /\ gpc \in {"callDo", "inDo", "send", "exit"} /\ gres \in {"none", "nil", "err"} /\ done \in {"empty", "nil", "err"}
Answered2xx == tpc = "answered" /\ resp = "s2xx"
IndInv == /\ Types
          \* the transport's outcome is fixed once it has one
          /\ (tpc \in {"notstarted", "run", "failed"} => resp = "none") /\ (tpc = "answered" => resp \in {"s2xx", "s4xx"})
          /\ (gpc = "callDo" <=> tpc = "notstarted")
          \* the goroutine's result is the transport's outcome
          /\ (gpc \in {"callDo", "inDo"} => gres = "none" /\ done = "empty")
          /\ (gpc \in {"send", "exit"} => tpc \in {"answered", "failed"} /\ gres # "none" /\ (gres = "nil" <=> Answered2xx))
          /\ (gpc = "send" => done = "empty")
          \* the channel carries that result exactly once, and Close hands it on
          /\ (done # "empty" => gpc = "exit" /\ done = gres /\ cpc # "ret")
          /\ (cpc = "ret" => gpc = "exit" /\ done = "empty" /\ cres = gres)
          /\ (cpc # "ret" => cres = "none")
          /\ (gpc = "exit" /\ done = "empty" => cpc = "ret")
          \* a successful Write has been consumed
          /\ (wres = "ok" => tread >= 1)
          /\ (cpc = "writing" => ci < NChunks /\ tread >= ChunkSize - pend)
          /\ (cpc # "writing" => pend = 0)
\* the properties of the statement follow from the invariant
Goal == /\ (cpc = "ret" => (cres = "nil" <=> Answered2xx))
        /\ (cpc = "ret" => tpc \in {"answered", "failed"})
        /\ (wres = "ok" => tread >= 1)
IndInit == /\ \E k \in Nat : \E f \in {"s2xx", "s4xx", "drop", "stall"} : \E w \in BOOLEAN : plan = [readK |-> k, fin |-> f, wantAll |-> w]
           /\ cpc \in {"idle", "writing", "waitdone", "ret"} /\ ci \in Nat /\ pend \in Nat
           /\ wres \in {"none", "ok", "errClosed"} /\ cres \in {"none", "nil", "err"}
           /\ wclosed \in BOOLEAN /\ rclosed \in BOOLEAN
           /\ tpc \in {"notstarted", "run", "answered", "failed"} /\ tread \in Nat /\ resp \in {"none", "s2xx", "s4xx"}
           /\ gpc \in {"callDo", "inDo", "send", "exit"} /\ gres \in {"none", "nil", "err"} /\ done \in {"empty", "nil", "err"}
           /\ ctx \in BOOLEAN
           /\ IndInv
=============================================================================

------------------------------ MODULE StoreOps ------------------------------
(***************************************************************************)
(* The object store behind a CalDAV / CardDAV deployment, as the client    *)
(* sees it through the library's own client and server (C10 over           *)
(* HISTORIES: whatever sequence of calls was made before, every call       *)
(* yields the backend's current content).  Pure operators only; Store.tla  *)
(* is the state machine, StoreJudge.tla the trace specification.           *)
(*                                                                         *)
(* State S = [cols, store, rev]: cols is the sequence of collections in    *)
(* creation order, store maps <<collection, name>> to [d, e] (payload      *)
(* token, revision that wrote it); the backend derives entity tag and      *)
(* modification time injectively from the revision, so "e" stands for      *)
(* both.  An operation is a record [op, cl, c, n, d, ns, f, flt].               *)
(***************************************************************************)
EXTENDS Naturals, Sequences, FiniteSets, TLC
Range(s) == {s[i] : i \in 1..Len(s)}
\* which payloads a query filter selects (a contract with the harness's payload and filter concretisation:
\* all = every event / card; t1 = text "simple" in SUMMARY / FN; t3 = text "blanks " at the end; nd = DESCRIPTION / NOTE not defined)
Sat(f, d) == CASE f = "all" -> TRUE
               [] f = "t1" -> d = "d1"
               [] f = "t3" -> d = "d3"
               [] f = "nd" -> d \in {"d1", "d3"}
               [] OTHER -> FALSE
Has(S, c, n) == <<c, n>> \in DOMAIN S.store
Row(S, c, n) == [c |-> c, n |-> n, d |-> S.store[<<c, n>>].d, e |-> S.store[<<c, n>>].e]
InCol(S, c) == c \in Range(S.cols)
Res(err, code, objs, cols) == [err |-> err, code |-> code, objs |-> objs, cols |-> cols]
Fail(code) == Res(TRUE, code, << >>, << >>)
Empty == [cols |-> <<"c1", "c2">>, store |-> << >>, rev |-> 0]
\* a backend fault injected into the operation that carries the call (op.flt): an HTTP error of the backend's own choosing, the same
\* wrapped by a storage layer, or a plain error; the call must fail with that status (500 for the plain error) and nothing changes
FaultCode(f) == CASE f = "h403" -> 403 [] f = "h503" -> 503 [] f = "w507" -> 507 [] OTHER -> 500
\* Step(S, op) = [res, next]: what the call must yield and the state afterwards
Step(S, op) ==
  CASE op.flt # "" -> [res |-> Fail(FaultCode(op.flt)), next |-> S]
    [] op.op = "put" ->
         IF ~InCol(S, op.c) THEN [res |-> Fail(409), next |-> S]
         ELSE LET r == S.rev + 1
                  k == <<op.c, op.n>> IN
              [res |-> Res(FALSE, 0, <<[c |-> op.c, n |-> op.n, d |-> op.d, e |-> r]>>, << >>),
               next |-> [S EXCEPT !.rev = r, !.store = [x \in (DOMAIN S.store) \cup {k} |-> IF x = k THEN [d |-> op.d, e |-> r] ELSE S.store[x]]]]
    [] op.op = "get" ->
         [res |-> IF Has(S, op.c, op.n) THEN Res(FALSE, 0, <<Row(S, op.c, op.n)>>, << >>) ELSE Fail(404), next |-> S]
    [] op.op = "del" ->
         IF Has(S, op.c, op.n)
         THEN [res |-> Res(FALSE, 0, << >>, << >>), next |-> [S EXCEPT !.store = [x \in (DOMAIN S.store) \ {<<op.c, op.n>>} |-> S.store[x]]]]
         ELSE [res |-> Fail(404), next |-> S]
    [] op.op = "mget" ->
         \* every requested href exactly once and in request order; one missing resource makes the call fail (C14)
         [res |-> IF \A i \in 1..Len(op.ns) : Has(S, op.c, op.ns[i])
                  THEN Res(FALSE, 0, [i \in 1..Len(op.ns) |-> Row(S, op.c, op.ns[i])], << >>) ELSE Fail(404), next |-> S]
    [] op.op = "query" ->
         \* exactly the stored objects of the collection the filter selects (order is the backend's: compared as a multiset)
         [res |-> LET hit == {k \in DOMAIN S.store : k[1] = op.c /\ Sat(op.f, S.store[k].d)}
                      sq == CHOOSE s \in [1..Cardinality(hit) -> hit] : \A i, j \in 1..Cardinality(hit) : i # j => s[i] # s[j] IN
                  Res(FALSE, 0, [i \in 1..Cardinality(hit) |-> Row(S, sq[i][1], sq[i][2])], << >>), next |-> S]
    [] op.op = "cols" -> [res |-> Res(FALSE, 0, << >>, S.cols), next |-> S]
    [] op.op = "mkcol" ->
         IF InCol(S, op.c) THEN [res |-> Fail(405), next |-> S]
         ELSE [res |-> Res(FALSE, 0, << >>, << >>), next |-> [S EXCEPT !.cols = Append(S.cols, op.c)]]
    [] OTHER -> [res |-> Fail(0), next |-> S]
\* does an observed answer agree with the expected one?
SameBag(a, b) == Len(a) = Len(b) /\ Range(a) = Range(b)
Agrees(op, want, got) ==
  /\ got.err = want.err
  /\ (want.err /\ op.op # "mget") => got.code = want.code
  /\ ~want.err => /\ got.cols = want.cols
                  /\ IF op.op = "query" THEN SameBag(got.objs, want.objs) ELSE got.objs = want.objs
Why(op, want, got) ==
  IF got.err # want.err THEN (IF got.err THEN "unexpected-error" ELSE "no-error")
  ELSE IF want.err THEN "code"
  ELSE IF got.cols # want.cols THEN "collections"
  ELSE IF Len(got.objs) # Len(want.objs) THEN "count"
  ELSE IF {x.n : x \in Range(got.objs)} # {x.n : x \in Range(want.objs)} \/ {x.c : x \in Range(got.objs)} # {x.c : x \in Range(want.objs)} THEN "path"
  ELSE IF {<<x.n, x.d>> : x \in Range(got.objs)} # {<<x.n, x.d>> : x \in Range(want.objs)} THEN "data"
  ELSE IF {<<x.n, x.e>> : x \in Range(got.objs)} # {<<x.n, x.e>> : x \in Range(want.objs)} THEN "tag-or-time"
  ELSE "order"
=============================================================================

SPECIFICATION Spec
CONSTANTS
  Names = {"a", "b"}
  Contents = {"x", "y"}
  MaxDepth = 1
  Probes = 0
  MaxNodes = 99
  Slim = TRUE
  Rich = FALSE
  RawLen = 5
INVARIANTS InvWellFormed
CHECK_DEADLOCK FALSE

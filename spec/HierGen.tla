------------------------------ MODULE HierGen ------------------------------
(* F1 + F0 for C11 / C12: request universes over the hierarchy; laws of Scope. *)
EXTENDS Hier, Json, TLCExt, IOUtils, SequencesExt
CONSTANT Big
\* ---- C12: prefixes x spelling x paths (own chain, foreign chain, mixed) x trailing slash x methods
MountPrefixes == {<< >>, <<"x">>, <<"x", "y">>} \cup (IF Big THEN {<<"x", "y", "z">>} ELSE {})
OwnChain == {<< >>, <<"u1">>, <<"u1", "hs">>, <<"u1", "hs", "c1">>, <<"u1", "hs", "c1", "o1">>, <<"u1", "hs", "c1", "o1", "deep">>,
             <<"u1", "hs", "c9">>, <<"u1", "hs", "c1", "o9">>}
Foreign == {<<"u2">>, <<"u2", "hs">>, <<"u1", "other">>, <<"u2", "hs", "c1">>, <<"u2", "hs", "c1", "o1">>}
Methods == {"MKCOL", "DELETE", "PROPFIND", "OPTIONS", "GET", "HEAD", "PUT", "REPORT"}
RouteReqs == {[srv |-> s, prefix |-> p, ptrail |-> pt, path |-> q, own |-> q \in OwnChain, rtrail |-> rt, m |-> m, depth |-> d] :
                s \in {"cal", "card"}, p \in MountPrefixes, pt \in BOOLEAN, q \in OwnChain \cup Foreign, rt \in BOOLEAN, m \in Methods,
                d \in {"0"}}
             \cup {[srv |-> s, prefix |-> p, ptrail |-> pt, path |-> q, own |-> q \in OwnChain, rtrail |-> TRUE, m |-> "PROPFIND", depth |-> d] :
                s \in {"cal", "card"}, p \in MountPrefixes, pt \in BOOLEAN, q \in OwnChain \cup Foreign, d \in {"1", "infinity", "absent"}}
             \cup {[srv |-> s, prefix |-> p, ptrail |-> pt, path |-> << >>, own |-> TRUE, rtrail |-> FALSE, m |-> "WELLKNOWN", depth |-> "0"] :
                s \in {"cal", "card"}, p \in MountPrefixes, pt \in BOOLEAN}
\* ---- discovery chains: prefix x spelling x layout
Layouts == [ncol : 0..2, nobj : 0..2]
Chains == {[srv |-> s, prefix |-> p, ptrail |-> pt, lay |-> l] : s \in {"cal", "card"}, p \in MountPrefixes, pt \in BOOLEAN, l \in Layouts}
\* ---- C11: PROPFIND accounting: resource x depth x requested name list (sequences: duplicates occur) x layout
Known == {"DAV: resourcetype", "DAV: getetag", "DAV: displayname", "DAV: current-user-principal", "DAV: getcontentlength", "SRV: data", "SRV: home-set", "CARD: home-set"}
Unknown == {"DAV: nosuchprop", "urn:example:ns foo", "urn:example:ns getetag", "urn:example:ns resourcetype"}
NameLists == UNION {[1..n -> S] : n \in 1..2, S \in {{"DAV: resourcetype", "DAV: getetag", "DAV: nosuchprop", "urn:example:ns foo"}}}
             \cup {<<a, a>> : a \in Known} \cup {<<a, b, a>> : a \in {"DAV: resourcetype", "DAV: nosuchprop"}, b \in {"DAV: getetag", "urn:example:ns foo"}}
             \* the same local name in two namespaces: two distinct properties
             \cup {<<"DAV: getetag", "urn:example:ns getetag">>, <<"urn:example:ns getetag", "DAV: getetag">>, <<"urn:example:ns resourcetype", "DAV: resourcetype", "DAV: getetag">>}
             \* names that differ from a known one in letter case only (XML names are case sensitive): unknown properties of their own
             \cup {<<"DAV: GetETag">>, <<"DAV: getetag", "DAV: GETETAG">>, <<"DAV: ResourceType", "DAV: resourcetype">>}
             \cup {<< >>}      \* an empty DAV:prop element: the empty set of names, still a prop request (207)
             \cup {<<a>> : a \in Known} \cup {<<"SRV: home-set", "CARD: home-set">>, <<"CARD: home-set", "DAV: resourcetype", "SRV: home-set">>}
PfRes(lay) == {"ROOT", "P", "H"} \cup Cols(lay) \cup Objs(lay)
PfReqs == {[srv |-> s, res |-> r, depth |-> d, names |-> nl, lay |-> l] :
             s \in {"cal", "card"}, l \in (IF Big THEN Layouts ELSE {[ncol |-> 2, nobj |-> 2], [ncol |-> 1, nobj |-> 0], [ncol |-> 0, nobj |-> 0]}),
             r \in {"ROOT", "P", "H", "C1", "C1/O1", "C2/O2"}, d \in {"0", "1", "infinity", "absent"}, nl \in NameLists}
DavPfReqs == {[srv |-> "dav", res |-> r, depth |-> d, names |-> nl, lay |-> [ncol |-> 2, nobj |-> 2]] :
                r \in {"dir", "file", "emptydir"}, d \in {"0", "1", "infinity", "absent"}, nl \in NameLists}
             \cup {[srv |-> "principal", res |-> "P", depth |-> d, names |-> nl, lay |-> [ncol |-> 0, nobj |-> 0]] : d \in {"0", "absent"}, nl \in NameLists}
ValidPf(r) == r.res \in {"ROOT", "P", "H", "dir", "file", "emptydir"} \cup Cols(r.lay) \cup Objs(r.lay)

\* ---- F0: laws of Scope
ASSUME \A l \in Layouts : \A r \in PfRes(l) \ {"ROOT"} :
         /\ Scope(r, "0", l) = {r}
         /\ Scope(r, "0", l) \subseteq Scope(r, "1", l) /\ Scope(r, "1", l) \subseteq Scope(r, "infinity", l)
         /\ Scope(r, "absent", l) = Scope(r, "infinity", l)
ASSUME \A l \in Layouts : Scope("P", "infinity", l) = {"P", "H"} \cup Cols(l) \cup Objs(l)
ASSUME \A l \in Layouts : Cardinality(Scope("H", "1", l)) = 1 + l.ncol /\ Cardinality(Scope("H", "infinity", l)) = 1 + l.ncol + l.ncol * l.nobj

Out == IOEnv.OUT
ASSUME ndJsonSerialize(Out \o "/route.ndjson", SetToSeq(RouteReqs))
ASSUME ndJsonSerialize(Out \o "/chains.ndjson", SetToSeq(Chains))
ASSUME ndJsonSerialize(Out \o "/pf.ndjson", SetToSeq({r \in PfReqs \cup DavPfReqs : ValidPf(r)}))
ASSUME PrintT(<<"COUNTS", Cardinality(RouteReqs), Cardinality(Chains), Cardinality({r \in PfReqs \cup DavPfReqs : ValidPf(r)})>>)
VARIABLE x
Init == x = 0
Next == UNCHANGED x
=============================================================================

------------------------------ MODULE StoreJudge ------------------------------
(***************************************************************************)
(* F3 for the store histories (C10 over sequences of calls).  A "sreset"   *)
(* line starts a history on an empty store; every "sstep" line carries the *)
(* call made through the real client and what it returned (tokens mapped   *)
(* back by the recorder; for a put also what the backend received).  The   *)
(* specification's state is threaded: the expected answer is computed from *)
(* the state the MODEL reached, never from the backend double.             *)
(***************************************************************************)
EXTENDS StoreOps, Json, TLCExt, IOUtils
Obs == ndJsonDeserialize(IOEnv.OBS)
VARIABLES l, bad, S
jvars == <<l, bad, S>>
JInit == l = 1 /\ bad = 0 /\ S = Empty
Got(e) == [err |-> e.err, code |-> e.code, objs |-> e.objs, cols |-> e.cols]
JReset(e) == e.k = "sreset" /\ S' = Empty /\ bad' = bad
JStep(e) ==
  /\ e.k = "sstep"
  /\ LET st == Step(S, e.op)
         ok == ~e.panic /\ ~e.hang /\ Agrees(e.op, st.res, Got(e))
     IN /\ S' = st.next
        /\ bad' = (IF ok THEN bad ELSE bad + 1)
        /\ (ok \/ PrintT("REJECT|" \o ToString(l) \o "|C10 store " \o e.srv \o " " \o e.op.op \o " "
                         \o (IF e.panic THEN "panic" ELSE IF e.hang THEN "hang" ELSE Why(e.op, st.res, Got(e)))))
JNext == l <= Len(Obs) /\ l' = l + 1 /\ (JReset(Obs[l]) \/ JStep(Obs[l]))
JSpec == JInit /\ [][JNext]_jvars
Done == (l = Len(Obs) + 1) => PrintT(<<"DONE", Len(Obs), bad>>)
=============================================================================

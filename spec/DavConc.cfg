SPECIFICATION Spec
CONSTANTS
  Clients = {"c1", "c2"}
  Names = {"a", "b"}
  MaxOps = 2
  MaxTotal = 4
  OwnDepth = 1
INVARIANTS DisjointIndependence WellFormedInv
PROPERTIES Confined
CHECK_DEADLOCK FALSE

------------------------------ MODULE DavWire ------------------------------
(***************************************************************************)
(* Client side of RFC 4918 exchanges: how a client call must classify the  *)
(* response it is given (C14), and what values a conformant multi-status   *)
(* denotes for the discovery / object calls (C10).                         *)
(*                                                                         *)
(* A scripted response is [st, ct, body, place]:                           *)
(*   ct    xml | textxml | plain | none | other | obj (the object MIME type)*)
(*   body  valid (for the method) | empty | wrongroot | truncated | garbage*)
(*         | html | daverror (a DAV:error document with a condition)       *)
(*   place where, inside a valid multi-status, a failure status sits:      *)
(*         none | resp404 | resp403 | resp500 (per-response status) |      *)
(*         ps403 | ps500 (the propstat holding a property the call reads;  *)
(*         an OPTIONAL one where the call has any) | opt404 (an optional   *)
(*         property reported absent: not a failure) | x<k>f<code> (the k-th *)
(*         property the call reads, alone in a failing propstat)           *)
(* Method kinds: ms1 / msN need a 207 multi-status, sync is sync-collection*)
(* (a 404 response is a deletion), getobj needs a 2xx with the object's    *)
(* MIME type and a parsable body, options needs the DAV class, plain only  *)
(* needs a 2xx.                                                            *)
(***************************************************************************)
EXTENDS Naturals, Sequences, FiniteSets, TLC

Is2xx(st) == st >= 200 /\ st <= 299
MsKinds == {"ms1", "msN", "sync"}
\* "x<k>f<code>": the k-th property the call reads (mandatory ones first) sits alone in a propstat with a failure status
XPlace(k, code) == "x" \o ToString(k) \o "f" \o ToString(code)
XFailPlaces == {XPlace(k, c) : k \in 1..5, c \in {401, 403, 423, 500, 507}}
\* "resp<code>": the response itself carries a status that is not a success (1xx, 3xx, 4xx, 5xx; 404 is a deletion for sync)
RPlace(c) == "resp" \o ToString(c)
RespCodes == {100, 102, 199, 300, 301, 302, 304, 307, 399, 400, 401, 403, 409, 423, 499, 500, 507, 599}
RFailPlaces == {RPlace(c) : c \in RespCodes}
\* "resperr<code>": a failed response carrying both a DAV:error condition element and a responsedescription
RErrPlaces == {"resperr403", "resperr507"}
FailPlaces == {"resp403", "resp500", "ps403", "ps500"} \cup XFailPlaces \cup RFailPlaces \cup RErrPlaces

ErrExpected(kind, r) ==
  \/ ~Is2xx(r.st)
  \* (a well-formed multi-status without any response: nothing to report for a listing, uninterpretable for a call about ONE resource)
  \/ (kind \in MsKinds /\ r.body = "emptyms" /\ (r.st # 207 \/ kind = "ms1"))
  \/ (kind \in MsKinds /\ r.body # "emptyms" /\ (r.st # 207 \/ r.body # "valid" \/ r.place \in FailPlaces \/ (r.place = "resp404" /\ kind # "sync")))
  \/ (kind = "getobj" /\ (r.body # "valid" \/ r.ct # "obj"))
  \/ (kind = "options" /\ r.body # "valid")
\* the error of a non-2xx answer carries the HTTP status code, and the DAV:error condition if one was sent
CodeExpected(r) == IF Is2xx(r.st) THEN 0 ELSE r.st
CondExpected(r) == ~Is2xx(r.st) /\ r.ct \in {"xml", "textxml"} /\ r.body = "daverror"

\* o is the observation: [err, code, cond, panic, hang, deleted, items]
ClientOutcomeOK(kind, r, o) ==
  /\ ~o.panic /\ ~o.hang
  /\ o.err = ErrExpected(kind, r)
  /\ (~Is2xx(r.st) => o.code = r.st)
  /\ (CondExpected(r) => o.cond)
  \* the condition element of a failed resource inside a multi-status is carried by the error as well
  /\ (kind \in MsKinds /\ r.st = 207 /\ r.body = "valid" /\ r.place \in RErrPlaces => o.cond)
  /\ (~o.err /\ kind = "sync" /\ r.place = "resp404" => o.deleted >= 1)
  /\ (~o.err /\ kind = "sync" /\ r.place # "resp404" => o.deleted = 0)
  \* a failing answer never yields data
  /\ (o.err => o.items = 0)
=============================================================================

------------------------------ MODULE RobustJudge ------------------------------
(* F3 for C13: every observation against Robust.OutcomeOK with the classification the generator attached (re-derived here for requests). *)
EXTENDS Robust, Json, TLCExt, IOUtils, SequencesExt
Obs == ndJsonDeserialize(IOEnv.OBS)
Want(e) == IF e.k = "req" THEN Expect(e.r) ELSE e.want
OK(e) == OutcomeOK(Want(e), e) /\ (e.k = "req" => e.want = Expect(e.r))
LevelName(s, n) == IF s = "dav" THEN (IF n = 0 THEN "root" ELSE IF n = 1 THEN "file" ELSE IF n = 2 THEN "dir" ELSE "absent")
                   ELSE IF n = 0 THEN "root" ELSE IF n = 1 THEN "principal" ELSE IF n = 2 THEN "homeset" ELSE IF n = 3 THEN "collection" ELSE IF n = 4 THEN "object" ELSE "deeper"
Why(e) == IF e.panic THEN "panic in " \o e.panicin ELSE IF e.st < 100 \/ e.st > 599 THEN "no-complete-response"
          ELSE IF ~e.bodyok THEN "body-breaks-off st=" \o ToString(e.st)
          ELSE IF e.st >= 500 THEN "5xx st=" \o ToString(e.st) ELSE IF e.mut > 0 THEN "backend-mutated st=" \o ToString(e.st) ELSE "malformed-accepted st=" \o ToString(e.st)
\* the one panic that originates in the pinned go-ical dependency is identified by where it is raised, not by how the input was found
IcalPeek == "github.com/emersion/go-ical.(*lineDecoder).peek"
Sig(e) == IF e.panic /\ e.panicin = IcalPeek /\ e.r.srv = "cal" /\ e.r.m = "PUT" /\ e.r.ctype = "obj"
          THEN "cal PUT iCalendar body with a content line that has parameters but no value: panic in " \o IcalPeek
          ELSE e.k \o " " \o e.r.srv \o " " \o e.r.m \o " level=" \o LevelName(e.r.srv, e.r.level) \o " ctype=" \o e.r.ctype \o " body=" \o e.r.body
          \o (IF e.r.depth = "bad" THEN " depth=bad" ELSE "") \o (IF e.r.ow = "bad" THEN " overwrite=bad" ELSE "") \o (IF e.r.dest \in {"missing", "bad"} THEN " dest=" \o e.r.dest ELSE "") \o (IF e.r.cond # "none" THEN " cond=" \o e.r.cond ELSE "")
          \o " " \o Why(e)
VARIABLES l, bad
JInit == l = 1 /\ bad = 0
JNext == /\ l <= Len(Obs) /\ l' = l + 1
         /\ IF OK(Obs[l]) THEN bad' = bad ELSE bad' = bad + 1 /\ PrintT("REJECT|" \o ToString(l) \o "|C13 " \o Sig(Obs[l]))
JSpec == JInit /\ [][JNext]_<<l, bad>>
Done == (l = Len(Obs) + 1) => PrintT(<<"DONE", Len(Obs), bad>>)
=============================================================================

------------------------------ MODULE CalWireGen ------------------------------
(* F1 + F0 for C08: bounded universe of calendar queries / multigets and of documents outside the RFC; writer-reader law. *)
EXTENDS CalWire, Json, TLCExt, IOUtils, SequencesExt
CONSTANT Big
Seq01(S) == {<< >>} \cup {<<x>> : x \in S}
Seq02(S) == Seq01(S) \cup {<<x, y>> : x \in S, y \in S}
NoTR == << >>
TRs == {<< >>, <<[s |-> <<"i1">>, e |-> <<"i2">>]>>, <<[s |-> <<"i1">>, e |-> << >>]>>, <<[s |-> << >>, e |-> <<"i2">>]>>}
TMs == [text : {"t0", "t2"}, neg : BOOLEAN]
ParamFs == [name : {"n3"}, isnd : {TRUE}, tm : {<< >>}] \cup [name : {"n3"}, isnd : {FALSE}, tm : Seq01(TMs)]
PropFs == [name : {"n1"}, isnd : {TRUE}, tr : {NoTR}, tm : {<< >>}, params : {<< >>}]
          \cup [name : {"n1"}, isnd : {FALSE}, tr : {NoTR}, tm : Seq01(TMs), params : Seq01(ParamFs)]
          \cup [name : {"n2"}, isnd : {FALSE}, tr : TRs \ {NoTR}, tm : {<< >>}, params : {<< >>}]
L2Fs == [name : {"VALARM"}, isnd : BOOLEAN, tr : {NoTR}, props : {<< >>}, comps : {<< >>}]
L1FsOf(PS) == [name : {"VEVENT"}, isnd : {TRUE}, tr : {NoTR}, props : {<< >>}, comps : {<< >>}]
              \cup [name : {"VEVENT"}, isnd : {FALSE}, tr : TRs, props : PS, comps : Seq01(L2Fs)]
TopFsOf(PS) == [name : {"VCALENDAR"}, isnd : {TRUE}, tr : {NoTR}, props : {<< >>}, comps : {<< >>}]
               \cup [name : {"VCALENDAR"}, isnd : {FALSE}, tr : {NoTR}, props : {<< >>}, comps : Seq01(L1FsOf(PS))]
TopFs == TopFsOf(Seq01(PropFs))
\* thorough: every pair of prop-filters as well, against a handful of component requests (the two dimensions are independent)
TopFsBig == TopFsOf(Seq02(PropFs))
Sel == {<<TRUE, << >>>>, <<FALSE, << >>>>, <<FALSE, <<"n1">>>>, <<FALSE, <<"n2", "n1">>>>}
ChildReqs == {[name |-> n, allprops |-> s[1], props |-> s[2], allcomps |-> ac, comps |-> << >>, expand |-> << >>] :
                n \in {"VEVENT", "VTODO"}, s \in {<<TRUE, << >>>>, <<FALSE, <<"n1">>>>}, ac \in BOOLEAN}
Expands == {<< >>, <<[s |-> "i1", e |-> "i2"]>>}
CompReqs == {[name |-> "VCALENDAR", allprops |-> s[1], props |-> s[2], allcomps |-> TRUE, comps |-> << >>, expand |-> x] : s \in Sel, x \in Expands}
            \cup {[name |-> "VCALENDAR", allprops |-> s[1], props |-> s[2], allcomps |-> FALSE, comps |-> cs, expand |-> x] :
                    s \in (IF Big THEN Sel ELSE {<<FALSE, <<"n2", "n1">>>>}), cs \in Seq01(ChildReqs) \cup {<<a, b>> : a \in {c \in ChildReqs : c.name = "VEVENT" /\ c.allcomps}, b \in {c \in ChildReqs : c.name = "VTODO" /\ ~c.allcomps}},
                    x \in Expands}
SmallCR == {c \in CompReqs : c.allcomps \/ Len(c.comps) = 2}
DeepCR == {c \in SmallCR : /\ c.props = <<"n2", "n1">> /\ (c.allcomps => c.expand = << >>)
                            /\ (~c.allcomps => c.expand # << >> /\ c.comps[1].allprops /\ ~c.comps[2].allprops)}
Queries == {[comp |-> c, filter |-> f] : c \in (IF Big THEN CompReqs ELSE SmallCR), f \in TopFs}
           \cup {[comp |-> c, filter |-> f] : c \in CompReqs, f \in {t \in TopFs : t.isnd}}
           \cup (IF Big THEN {[comp |-> c, filter |-> f] : c \in DeepCR, f \in TopFsBig} ELSE {})
Hrefs == {"h1", "h2", "h3"}
Multigets == {[comp |-> c, hrefs |-> h] : c \in SmallCR, h \in UNION {[1..n -> Hrefs] : n \in 1..3}}
             \cup {[comp |-> c, hrefs |-> <<"h3", "h1">>] : c \in CompReqs}
             \* documents that are large in size only (beyond 64 KiB): 3 000 hrefs
             \cup {[comp |-> CHOOSE c \in SmallCR : c.expand = << >>, hrefs |-> [i \in 1..3000 |-> IF i % 3 = 0 THEN "h3" ELSE IF i % 3 = 1 THEN "h1" ELSE "h2"]]}

\* RFC-conformant spellings the library's own client never produces (server direction only): calendar-data without comp
\* (with and without expand), negate-condition="no" written out
NoComp(x) == [name |-> "", allprops |-> TRUE, props |-> << >>, allcomps |-> TRUE, comps |-> << >>, expand |-> x]
NoCompData(x) == El(DAV, "prop", << >>, <<El(DAV, "getetag", << >>, << >>),
                                         El(CAL, "calendar-data", << >>, Map(x, LAMBDA y : El(CAL, "expand", <<At("start", y.s), At("end", y.e)>>, << >>)))>>)
AltFs == {f \in TopFs : f.isnd \/ (f.comps # << >> /\ f.comps[1].isnd) \/ (f.comps # << >> /\ ~f.comps[1].isnd /\ f.comps[1].tr # << >> /\ f.comps[1].props = << >> /\ f.comps[1].comps = << >>)}
\* a collation named on every text-match (the API has no field for it: the request denoted is the same)
RECURSIVE WithCollation(_, _)
WithCollation(n, c) == IF IsText(n) THEN n
                       ELSE [n EXCEPT !.attrs = IF n.name = "text-match" THEN <<At("collation", c)>> \o @ ELSE @,
                                      !.kids = [i \in 1..Len(n.kids) |-> WithCollation(n.kids[i], c)]]
RECURSIVE ExplicitNo(_)
ExplicitNo(n) == IF IsText(n) THEN n
                 ELSE [n EXCEPT !.attrs = IF n.name = "text-match" /\ ~HasAttr(n, "negate-condition") THEN @ \o <<At("negate-condition", "no")>> ELSE @,
                                !.kids = [i \in 1..Len(n.kids) |-> ExplicitNo(n.kids[i])]]
AltQueries == {[q |-> [comp |-> NoComp(x), filter |-> f], srvonly |-> TRUE,
                doc |-> El(CAL, "calendar-query", << >>, <<NoCompData(x), El(CAL, "filter", << >>, <<CompFDoc(f)>>)>>)] : x \in Expands, f \in AltFs}
              \cup {[q |-> [comp |-> c, filter |-> f], srvonly |-> TRUE, doc |-> ExplicitNo(QueryDoc([comp |-> c, filter |-> f]))] :
                      c \in {CHOOSE c \in SmallCR : c.expand = << >>}, f \in {g \in TopFs : ExplicitNo(CompFDoc(g)) # CompFDoc(g)}}
              \cup {[q |-> [comp |-> c, filter |-> f], srvonly |-> TRUE, doc |-> WithCollation(QueryDoc([comp |-> c, filter |-> f]), col)] :
                      col \in {"i;ascii-casemap", "i;octet"}, c \in {CHOOSE c \in SmallCR : c.expand # << >>},
                      f \in {g \in TopFs : WithCollation(CompFDoc(g), "c") # CompFDoc(g)}}
\* a match text of 100 000 characters (token "tbig")
BigTextQ == [comp |-> CHOOSE c \in SmallCR : c.expand = << >>,
             filter |-> [name |-> "VCALENDAR", isnd |-> FALSE, tr |-> NoTR, props |-> << >>,
                         comps |-> <<[name |-> "VEVENT", isnd |-> FALSE, tr |-> NoTR, comps |-> << >>,
                                      props |-> <<[name |-> "n1", isnd |-> FALSE, tr |-> NoTR, tm |-> <<[text |-> "tbig", neg |-> FALSE]>>, params |-> << >>]>>]>>]]
AltMultigets == {[m |-> [comp |-> NoComp(x), hrefs |-> h], srvonly |-> TRUE,
                  doc |-> El(CAL, "calendar-multiget", << >>, <<NoCompData(x)>> \o Map(h, LAMBDA y : El(DAV, "href", << >>, <<Txt(y)>>))) ] : x \in Expands, h \in {<<"h1">>, <<"h3", "h1">>}}

\* documents outside the RFC: must be refused (4xx), no backend call
Q0 == [comp |-> CHOOSE c \in SmallCR : c.expand = << >>, filter |-> CHOOSE f \in TopFs : ~f.isnd /\ f.comps = << >>]
WithFilter(cf) == El(CAL, "calendar-query", << >>, <<PropDoc(Q0.comp), El(CAL, "filter", << >>, <<cf>>)>>)
Ev(kids) == El(CAL, "comp-filter", <<At("name", "VCALENDAR")>>, <<El(CAL, "comp-filter", <<At("name", "VEVENT")>>, kids)>>)
K(kind, S) == {[kind |-> kind, doc |-> d] : d \in S}
InvalidDocs ==
  K("comp is-not-defined with time-range", {WithFilter(Ev(<<IsNd, El(CAL, "time-range", <<At("start", "i1")>>, << >>)>>))})
  \cup K("comp is-not-defined with prop-filter", {WithFilter(Ev(<<IsNd, El(CAL, "prop-filter", <<At("name", "n1")>>, << >>)>>))})
  \cup K("prop is-not-defined with text-match", {WithFilter(Ev(<<El(CAL, "prop-filter", <<At("name", "n1")>>, <<IsNd, El(CAL, "text-match", << >>, <<Txt("t0")>>)>>)>>))})
  \cup K("param is-not-defined with text-match", {WithFilter(Ev(<<El(CAL, "prop-filter", <<At("name", "n1")>>, <<El(CAL, "param-filter", <<At("name", "n3")>>, <<IsNd, El(CAL, "text-match", << >>, <<Txt("t0")>>)>>)>>)>>))})
  \cup K("negate-condition-value", {WithFilter(Ev(<<El(CAL, "prop-filter", <<At("name", "n1")>>, <<El(CAL, "text-match", <<At("negate-condition", v)>>, <<Txt("t0")>>)>>)>>)) : v \in {"maybe", "true", "1", ""}})
  \cup K("time-range date", {WithFilter(Ev(<<El(CAL, "time-range", <<At("start", v)>>, << >>)>>)) : v \in {"baddate", "2021-03-01T12:00:00Z", "20210301", "20210301T120000", ""}})
  \cup K("expand date", {El(CAL, "calendar-query", << >>, <<El(DAV, "prop", << >>, <<El(CAL, "calendar-data", << >>, <<CompReqDoc(Q0.comp), El(CAL, "expand", <<At("start", v), At("end", "i2")>>, << >>)>>)>>),
                                                              El(CAL, "filter", << >>, <<CompFDoc(Q0.filter)>>)>>) : v \in {"baddate", "20210301"}})
  \cup K("allprop with prop", {El(CAL, "calendar-query", << >>, <<El(DAV, "prop", << >>, <<El(CAL, "calendar-data", << >>, <<El(CAL, "comp", <<At("name", "VCALENDAR")>>, <<El(CAL, "allprop", << >>, << >>), El(CAL, "prop", <<At("name", "n1")>>, << >>)>>)>>)>>),
                                                                     El(CAL, "filter", << >>, <<CompFDoc(Q0.filter)>>)>>)})
  \cup K("multiget allprop with prop", {El(CAL, "calendar-multiget", << >>, <<El(DAV, "prop", << >>, <<El(CAL, "calendar-data", << >>, <<El(CAL, "comp", <<At("name", "VCALENDAR")>>, <<El(CAL, "allprop", << >>, << >>), El(CAL, "prop", <<At("name", "n1")>>, << >>)>>)>>)>>),
                                                                     El(DAV, "href", << >>, <<Txt("h1")>>)>>)})
  \cup K("allcomp with comp", {El(CAL, "calendar-query", << >>, <<El(DAV, "prop", << >>, <<El(CAL, "calendar-data", << >>, <<El(CAL, "comp", <<At("name", "VCALENDAR")>>, <<El(CAL, "allcomp", << >>, << >>), El(CAL, "comp", <<At("name", "VEVENT")>>, << >>)>>)>>)>>),
                                                                     El(CAL, "filter", << >>, <<CompFDoc(Q0.filter)>>)>>)})
  \* the same conflicts one level down: on a comp nested in the outermost comp
  \cup K("nested allprop with prop", {El(CAL, k[1], << >>, <<El(DAV, "prop", << >>, <<El(CAL, "calendar-data", << >>, <<El(CAL, "comp", <<At("name", "VCALENDAR")>>,
                                          <<El(CAL, "allprop", << >>, << >>), El(CAL, "comp", <<At("name", "VEVENT")>>, inner)>>)>>)>>), k[2]>>) :
                                       k \in {<<"calendar-query", El(CAL, "filter", << >>, <<CompFDoc(Q0.filter)>>)>>, <<"calendar-multiget", El(DAV, "href", << >>, <<Txt("h1")>>)>>},
                                       inner \in {<<El(CAL, "allprop", << >>, << >>), El(CAL, "prop", <<At("name", "n1")>>, << >>)>>,
                                                  <<El(CAL, "prop", <<At("name", "n1")>>, << >>), El(CAL, "allcomp", << >>, << >>), El(CAL, "comp", <<At("name", "VALARM")>>, << >>)>>}})

\* ---------- F0
ASSUME \A q \in Queries \cup {BigTextQ} : QueryShape(QueryDoc(q)) /\ QueryOrder(QueryDoc(q)) /\ QueryDenotes(QueryDoc(q)) = q
ASSUME \A m \in Multigets : MultigetShape(MultigetDoc(m)) /\ MultigetDenotes(MultigetDoc(m)) = m
ASSUME \A a \in AltQueries : QueryShape(a.doc) /\ QueryOrder(a.doc) /\ QueryDenotes(a.doc) = a.q
ASSUME \A a \in AltMultigets : MultigetShape(a.doc) /\ MultigetDenotes(a.doc) = a.m
ASSUME AltQueries # {} /\ \E a \in AltQueries : a.q.comp.name # ""

Out == IOEnv.OUT
ASSUME ndJsonSerialize(Out \o "/queries.ndjson", SetToSeq(AltQueries) \o SetToSeq({[q |-> q, doc |-> QueryDoc(q), srvonly |-> FALSE] : q \in Queries \cup {BigTextQ}}))
ASSUME ndJsonSerialize(Out \o "/multigets.ndjson", SetToSeq(AltMultigets) \o SetToSeq({[m |-> m, doc |-> MultigetDoc(m), srvonly |-> FALSE] : m \in Multigets}))
ASSUME ndJsonSerialize(Out \o "/invalid.ndjson", SetToSeq(InvalidDocs))
ASSUME PrintT(<<"COUNTS", Cardinality(Queries) + Cardinality(AltQueries), Cardinality(Multigets) + Cardinality(AltMultigets), Cardinality(InvalidDocs)>>)
VARIABLE x
Init == x = 0
Next == UNCHANGED x
=============================================================================

SPECIFICATION JSpec
INVARIANT Done
CHECK_DEADLOCK FALSE

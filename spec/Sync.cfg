SPECIFICATION Spec
CONSTANTS
  Names = {"o1", "o2", "o3"}
  MaxLog = 5
  Limits = {0, 1, 2}
  HistLen = 0
  Sim = FALSE
INVARIANTS TypeOK Converged Snapshot
PROPERTIES Monotone CatchUp
CHECK_DEADLOCK FALSE

SPECIFICATION SSpec
CONSTANTS
  Cols = {"c1", "c2", "c3"}
  Names = {"o1", "o2", "o3"}
  Datas = {"d1", "d2", "d3"}
  Filters = {"all", "t1", "t3", "nd", "none"}
  MaxRev = 99
  HistLen = 20
  Sim = TRUE
INVARIANTS EmitHist WellFormed TagsFresh
CHECK_DEADLOCK FALSE

------------------------------ MODULE C05Gen ------------------------------
(***************************************************************************)
(* F1 for C05: client calls x endpoint spellings x name forms x options    *)
(* against a backend tree (LocalFileSystem on disk, or an in-memory double *)
(* holding arbitrary metadata).  Name resolution is the specification's:   *)
(*   Resolve(ep, form, name) = name's path below the endpoint path when    *)
(*   the name is relative, the same absolute path when it is absolute.     *)
(* The backend content / the call the backend must receive is the expected *)
(* value; the judge (EqJudge) requires got = want.                         *)
(***************************************************************************)
EXTENDS Naturals, Sequences, FiniteSets, TLC, Json, TLCExt, IOUtils, SequencesExt
CONSTANT Big
Eps == {"none", "slash", "p", "ptrail", "pq"}          \* endpoint URL: no path, "/", "/p", "/p/", "/p/q/"
Forms == {"abs", "rel"}
FSs == {"mem", "local"}
Files == {"f1", "f2"}
Stat == {[k |-> "stat", fs |-> f, ep |-> e, form |-> fm, name |-> n] : f \in FSs, e \in Eps, fm \in Forms, n \in Files \cup {"d1", "d1/f3"}}
ReadDir == {[k |-> "readdir", fs |-> f, ep |-> e, form |-> fm, name |-> n, rec |-> r] : f \in FSs, e \in Eps, fm \in Forms, n \in {"d1", "d1/d2", ""}, r \in BOOLEAN}
\* collections addressed with a trailing slash
SlashForms == {[c EXCEPT !.form = c.form \o "/"] : c \in {x \in ReadDir : x.name # ""} \cup {x \in Stat : x.name = "d1"}}
\* a listing that is large in size only (4 500 members, about 2 MB on the wire)
ReadDirHuge == {[k |-> "readdirhuge", fs |-> "mem", ep |-> e, form |-> "abs", name |-> "d1", rec |-> r] : e \in {"slash", "pq"}, r \in BOOLEAN}
Open == {[k |-> "open", fs |-> f, ep |-> e, form |-> fm, name |-> n] : f \in FSs, e \in Eps, fm \in Forms, n \in Files}
Create == {[k |-> "create", fs |-> f, ep |-> e, form |-> fm, name |-> n, content |-> c] : f \in FSs, e \in Eps, fm \in Forms, n \in {"f1", "new", "d1/new"}, c \in {"empty", "small", "binary", "large"}}
Simple == {[k |-> "mkdir", fs |-> "mem", ep |-> e, form |-> fm, name |-> n] : e \in Eps, fm \in Forms, n \in {"new", "d1/new"}}
          \cup {[k |-> "removeall", fs |-> "mem", ep |-> e, form |-> fm, name |-> n] : e \in Eps, fm \in Forms, n \in {"f1", "d1", "d1/f3"}}
Copy == {[k |-> "copy", fs |-> "mem", ep |-> e, form |-> fm, name |-> n, dform |-> df, dest |-> d, norec |-> nr, noow |-> no, nilopt |-> FALSE] :
           e \in Eps, fm \in Forms, n \in {"f1", "d1"}, df \in Forms, d \in {"new", "f2"}, nr \in BOOLEAN, no \in BOOLEAN}
Move == {[k |-> "move", fs |-> "mem", ep |-> e, form |-> fm, name |-> n, dform |-> df, dest |-> d, noow |-> no, nilopt |-> FALSE] :
           e \in Eps, fm \in Forms, n \in {"f1", "d1"}, df \in Forms, d \in {"new", "f2"}, no \in BOOLEAN}
\* a nil options value means the defaults (recursive, overwrite)
NilOpts == {[c EXCEPT !.nilopt = TRUE] : c \in {x \in Copy : ~x.norec /\ ~x.noow} \cup {x \in Move : ~x.noow}}
All == SlashForms \cup NilOpts \cup Stat \cup ReadDir \cup ReadDirHuge \cup Open \cup Create \cup Simple \cup Copy \cup Move
\* the resolution rule as data: segments of the endpoint path
EpSegs(e) == IF e \in {"none", "slash"} THEN << >> ELSE IF e \in {"p", "ptrail"} THEN <<"p">> ELSE <<"p", "q">>
ASSUME \A e \in Eps : Len(EpSegs(e)) \in 0..2
ASSUME ndJsonSerialize(IOEnv.OUT \o "/c05.ndjson", SetToSeq(All))
ASSUME PrintT(<<"COUNTS", Cardinality(All)>>)
VARIABLE dummy
Init == dummy = 0
Next == UNCHANGED dummy
=============================================================================

------------------------------ MODULE UploadTrace ------------------------------
(***************************************************************************)
(* Trace validation for C18 (upload half), real net/http transport.  One   *)
(* recorded upload per file: the fault the test server was set up to       *)
(* inject (fin), and the caller's events in program order: every Write     *)
(* return with its result class and the Close return with its result.      *)
(* The transport and the library goroutine are not logged: their steps are *)
(* silent and TLC infers them.  The trace is accepted iff some behaviour   *)
(* of Upload consumes every event and ends with the caller returned and    *)
(* the library goroutine exited.  Acceptance is reported by VIOLATING the  *)
(* invariant NotAccepted (a run that completes without violation means no  *)
(* behaviour of the specification explains the trace).                     *)
(***************************************************************************)
EXTENDS Upload, Json, TLCExt, IOUtils, Sequences

Row == ndJsonDeserialize(IOEnv.OBS)[1]
Events == Row.events
VARIABLE l
tvars == <<vars, l>>

TInit == Init /\ plan.fin = Row.fin /\ l = 1
Silent == /\ UNCHANGED l
          /\ \/ (WriteStart /\ ~rclosed) \/ CloseStart \/ GoCallDo \/ GoDoReturn \/ GoSend
             \/ TRead \/ TFinish \/ TCancelled \/ TCloseBody \/ Cancel
Failed(res) == res \in {"errClosed", "err"}
Logged == /\ l <= Len(Events) /\ l' = l + 1
          /\ LET e == Events[l] IN
               \/ (e.ev = "write" /\ e.res = "nil" /\ WriteReturnOK)
               \/ (e.ev = "write" /\ Failed(e.res) /\ WriteReturnErr)
               \/ (e.ev = "write" /\ Failed(e.res) /\ rclosed /\ WriteStart)       \* Write on an already closed body
               \/ (e.ev = "close" /\ CloseReturn /\ (cres' = "nil") = (e.res = "nil"))
TNext == Silent \/ Logged
TSpec == TInit /\ [][TNext]_tvars
Accepted == l = Len(Events) + 1 /\ cpc = "ret" /\ gpc = "exit" /\ ~Row.hang /\ ~Row.leak
NotAccepted == ~Accepted
=============================================================================

------------------------------ MODULE DavWireGen ------------------------------
(* F1 for C14: every (client method, scripted response) case of the bounded universe. *)
EXTENDS DavWire, Json, TLCExt, IOUtils, SequencesExt
CONSTANT Big
Methods == {
  [id |-> "dav.FindCurrentUserPrincipal", kind |-> "ms1"], [id |-> "dav.Stat", kind |-> "ms1"], [id |-> "dav.ReadDir", kind |-> "msN"],
  [id |-> "dav.Open", kind |-> "plain"], [id |-> "dav.Create", kind |-> "plain"], [id |-> "dav.RemoveAll", kind |-> "plain"], [id |-> "dav.Mkdir", kind |-> "plain"],
  [id |-> "dav.Copy", kind |-> "plain"], [id |-> "dav.Move", kind |-> "plain"],
  [id |-> "cal.FindCalendarHomeSet", kind |-> "ms1"], [id |-> "cal.FindCalendars", kind |-> "msN"], [id |-> "cal.QueryCalendar", kind |-> "msN"],
  [id |-> "cal.MultiGetCalendar", kind |-> "msN"], [id |-> "cal.GetCalendarObject", kind |-> "getobj"], [id |-> "cal.PutCalendarObject", kind |-> "plain"],
  [id |-> "card.HasSupport", kind |-> "options"], [id |-> "card.FindAddressBookHomeSet", kind |-> "ms1"], [id |-> "card.FindAddressBooks", kind |-> "msN"],
  [id |-> "card.QueryAddressBook", kind |-> "msN"], [id |-> "card.MultiGetAddressBook", kind |-> "msN"], [id |-> "card.GetAddressObject", kind |-> "getobj"],
  [id |-> "card.PutAddressObject", kind |-> "plain"], [id |-> "card.SyncCollection", kind |-> "sync"]}
Statuses == IF Big THEN 100..599
            ELSE {100, 101, 199, 200, 201, 202, 204, 206, 207, 208, 226, 299, 300, 301, 302, 304, 307, 308, 399, 400, 401, 403, 404, 405, 409, 412, 415, 423, 499, 500, 501, 502, 503, 507, 599}
CTs == {"xml", "textxml", "plain", "none", "other", "obj"}
Bodies == {"valid", "empty", "wrongroot", "truncated", "garbage", "html", "daverror"}
Cases == {[m |-> m.id, kind |-> m.kind, st |-> s, ct |-> c, body |-> b, place |-> "none"] : m \in Methods, s \in Statuses, c \in CTs, b \in Bodies}
         \cup {[m |-> m.id, kind |-> m.kind, st |-> s, ct |-> c, body |-> "valid", place |-> p] :
                 m \in {x \in Methods : x.kind \in MsKinds}, s \in {207, 200, 404}, c \in {"xml", "none"},
                 p \in {"resp404", "resp403", "resp500", "ps403", "ps500", "opt404"}}
\* number of properties each multi-status call reads (the recorder's documents carry exactly these, mandatory ones first)
NProps(id) == CASE id \in {"dav.Stat", "dav.ReadDir", "cal.FindCalendars", "card.FindAddressBooks"} -> 5
                [] id \in {"cal.QueryCalendar", "cal.MultiGetCalendar", "card.QueryAddressBook", "card.MultiGetAddressBook"} -> 4
                [] OTHER -> 1
XCases == {[m |-> m.id, kind |-> m.kind, st |-> 207, ct |-> "xml", body |-> "valid", place |-> XPlace(k, c)] :
             m \in {x \in Methods : x.kind \in MsKinds}, k \in 1..5, c \in (IF Big THEN {401, 403, 423, 500, 507} ELSE {403, 507})}
RCases == {[m |-> m.id, kind |-> m.kind, st |-> 207, ct |-> "xml", body |-> "valid", place |-> RPlace(c)] :
             m \in {x \in Methods : x.kind \in MsKinds}, c \in RespCodes}
RErrCases == {[m |-> m.id, kind |-> m.kind, st |-> 207, ct |-> "xml", body |-> "valid", place |-> p] : m \in {x \in Methods : x.kind \in MsKinds}, p \in RErrPlaces}
\* a 2xx answer whose body never completes: calls that need nothing from the body return all the same
StallCases == {[m |-> m.id, kind |-> m.kind, st |-> s, ct |-> "none", body |-> "stalled", place |-> "none"] :
                 m \in {x \in Methods : x.kind = "plain" /\ x.id # "dav.Open"}, s \in {200, 201, 204}}
EmptyMsCases == {[m |-> m.id, kind |-> m.kind, st |-> 207, ct |-> c, body |-> "emptyms", place |-> "none"] : m \in {x \in Methods : x.kind \in MsKinds}, c \in {"xml", "textxml"}}
ASSUME \A c \in EmptyMsCases : ErrExpected(c.kind, c) = (c.kind = "ms1")
ASSUME \A c \in StallCases : ~ErrExpected(c.kind, c)
ASSUME \A c \in XCases \cup RCases \cup RErrCases : ErrExpected(c.kind, c)
\* payloads that are well-formed XML but carry an unparsable object: the call must fail, not panic
PayloadMethods == {"cal.QueryCalendar", "cal.MultiGetCalendar", "cal.GetCalendarObject", "card.QueryAddressBook", "card.MultiGetAddressBook", "card.GetAddressObject"}
PayloadCases == {[m |-> m.id, kind |-> m.kind, st |-> IF m.kind = "getobj" THEN 200 ELSE 207, ct |-> IF m.kind = "getobj" THEN "obj" ELSE "xml", body |-> b, place |-> "none"] :
                   m \in {x \in Methods : x.id \in PayloadMethods}, b \in {"badpayload", "badpayload2"}}
\* F0: sanity of the classification
ASSUME \A c \in Cases : (c.kind = "plain" /\ Is2xx(c.st)) => ~ErrExpected(c.kind, c)
ASSUME \A c \in Cases : ~Is2xx(c.st) => ErrExpected(c.kind, c) /\ CodeExpected(c) = c.st
ASSUME \A c \in Cases : (c.kind \in MsKinds /\ c.st = 207 /\ c.body = "valid" /\ c.place \in {"none", "opt404"}) => ~ErrExpected(c.kind, c)
ASSUME \A c \in PayloadCases : ErrExpected(c.kind, c)
ASSUME ndJsonSerialize(IOEnv.OUT \o "/c14.ndjson", SetToSeq(Cases \cup PayloadCases \cup RCases \cup RErrCases \cup StallCases \cup EmptyMsCases \cup {c \in XCases : \E k \in 1..NProps(c.m) : \E code \in {401, 403, 423, 500, 507} : c.place = XPlace(k, code)}))
ASSUME PrintT(<<"COUNTS", Cardinality(Cases \cup PayloadCases), Cardinality(Methods)>>)
VARIABLE x
Init == x = 0
Next == UNCHANGED x
=============================================================================

------------------------------ MODULE Robust ------------------------------
(***************************************************************************)
(* C13: every request is answered; malformed input gets 4xx and reaches no *)
(* mutating backend operation.  A request is                               *)
(*   [srv, m, level, depth, ow, dest, ctype, body, cond]                   *)
(* srv in dav | cal | card | principal; level = hierarchy level (for dav:  *)
(* 0 root, 1 an existing file, 2 an existing collection, 3 absent);        *)
(* header classes absent / valid values / "bad"; ctype none | xml |        *)
(* textxml | obj (the service's object type) | objbadparam (that type with *)
(* unparsable parameters) | other | malformed;                             *)
(* body none | valid (for the method) | emptyxml | wrongroot | truncated | *)
(* garbage | badobj (unparsable iCalendar / vCard).                        *)
(* Expect(r) is the statement's classification:                            *)
(*   "4xx"  malformed: status 400-499, no mutating backend call, no panic  *)
(*   "any"  not malformed: a complete response without panic               *)
(*   "not5xx" / "no5xx"  validity undecided at this abstraction, but a     *)
(*          server error is never right (without / with a possible store)  *)
(* Structure-mutated XML documents (Mutants) are at least "not5xx": a      *)
(* document that stays valid is answered 207, a malformed one 4xx, and the *)
(* backend doubles never fail, so 5xx is never right.                      *)
(***************************************************************************)
EXTENDS XmlOps

XmlCT == {"xml", "textxml"}
BadXml == {"emptyxml", "wrongroot", "truncated", "garbage"}
NeedsXmlBody(r) == \/ r.m \in {"REPORT", "PROPPATCH"} /\ r.srv \in {"cal", "card"}
                   \/ r.m = "PROPPATCH" /\ r.srv = "dav"
HeaderMalformed(r) ==
  \* a conditional header whose value is not an entity tag, on the file server, with an existing resource to compare it with
  \/ r.cond # "none" /\ r.srv = "dav" /\ r.m \in {"PUT", "DELETE"} /\ r.level \in {1, 2}
  \/ r.m \in {"PROPFIND", "COPY", "MOVE"} /\ r.depth = "bad" /\ r.srv # "principal"
  \/ r.m \in {"COPY", "MOVE"} /\ (r.ow = "bad" \/ r.dest \in {"missing", "bad"}) /\ r.srv # "principal"
BodyMalformed(r) ==
  \* a PROPFIND that announces XML must carry a well-formed propfind; one that carries a body must announce XML
  \/ r.m = "PROPFIND" /\ r.ctype \in XmlCT /\ r.body \in BadXml \ {"emptyxml"}
  \/ r.m = "PROPFIND" /\ r.ctype \notin XmlCT /\ r.body \notin {"none", "emptyxml"}
  \/ NeedsXmlBody(r) /\ (r.ctype \notin XmlCT \/ r.body \in BadXml \cup {"none", "badobj", "badobj2"})
  \* object uploads: the object's media type and a parsable object
  \/ r.m = "PUT" /\ r.srv \in {"cal", "card"} /\ (r.ctype # "obj" \/ r.body \in BadXml \cup {"none", "badobj", "badobj2"})
  \* extended MKCOL: a body must be a well-formed mkcol document (collection level only: elsewhere the request is refused anyway)
  \/ r.m = "MKCOL" /\ r.srv \in {"cal", "card"} /\ r.level = 3 /\ r.body \notin {"none", "valid", "emptyxml"}
Malformed(r) == HeaderMalformed(r) \/ BodyMalformed(r)
\* grey: a PROPFIND that announces XML but carries no bytes is "empty XML" for one reading and "no body = allprop" (RFC 4918
\* section 9.1) for the other: either 4xx or the allprop answer, never 5xx
Grey(r) == r.m = "PROPFIND" /\ r.ctype \in XmlCT /\ r.body \in {"none", "emptyxml"}
Expect(r) == IF Malformed(r) THEN "4xx" ELSE IF Grey(r) THEN "not5xx" ELSE "any"

OutcomeOK(want, o) == /\ ~o.panic /\ o.st >= 100 /\ o.st <= 599
                      \* a complete response: a 207 carries a well-formed document
                      /\ o.bodyok
                      /\ (want = "4xx" => o.st >= 400 /\ o.st <= 499 /\ o.mut = 0)
                      /\ (want = "not5xx" => o.st <= 499 /\ o.mut = 0)
                      \* byte-level edits of a valid document or object: it either stays acceptable (and may then be stored) or is
                      \* refused; the doubles never fail, so a server error is never right
                      /\ (want = "no5xx" => o.st <= 499)

\* ---- structure-aware mutation of a document: one edit at one node
DelAt(s, i) == SubSeq(s, 1, i - 1) \o SubSeq(s, i + 1, Len(s))
DupAt(s, i) == SubSeq(s, 1, i) \o SubSeq(s, i, Len(s))
RECURSIVE Muts(_)
Muts(n) == IF IsText(n) THEN {[n EXCEPT !.text = "mutated-text"]}
           ELSE {[n EXCEPT !.name = "bogus-element"], [n EXCEPT !.ns = "urn:example:other"]}
                \cup {[n EXCEPT !.attrs = DelAt(n.attrs, i)] : i \in 1..Len(n.attrs)}
                \cup {[n EXCEPT !.attrs[i].v = "corrupt-value"] : i \in 1..Len(n.attrs)}
                \cup {[n EXCEPT !.attrs[i].n = "bogus-attr"] : i \in 1..Len(n.attrs)}
                \cup {[n EXCEPT !.kids = DelAt(n.kids, i)] : i \in 1..Len(n.kids)}
                \cup {[n EXCEPT !.kids = DupAt(n.kids, i)] : i \in 1..Len(n.kids)}
                \cup UNION {{[n EXCEPT !.kids[i] = m] : m \in Muts(n.kids[i])} : i \in 1..Len(n.kids)}
\* ---- grafts: any element of the document (whole subtree, or bare) inserted as first or last child of any element. This
\* produces the combinations of one invalid feature with every other feature of the document (allprop next to prop inside a
\* calendar-data that also carries expand, is-not-defined next to a text-match, a second filter, ...), which single edits of a
\* valid document cannot reach.
RECURSIVE Elems(_)
Elems(n) == IF IsText(n) THEN {} ELSE {n, [n EXCEPT !.kids = << >>]} \cup UNION {Elems(n.kids[i]) : i \in 1..Len(n.kids)}
RECURSIVE GraftInto(_, _)
GraftInto(n, S) == IF IsText(n) THEN {}
                   ELSE {[n EXCEPT !.kids = <<s>> \o n.kids] : s \in S} \cup {[n EXCEPT !.kids = n.kids \o <<s>>] : s \in S}
                        \cup UNION {{[n EXCEPT !.kids[i] = m] : m \in GraftInto(n.kids[i], S)} : i \in 1..Len(n.kids)}
Grafts(d, big) == GraftInto(d, IF big THEN Elems(d) ELSE {e \in Elems(d) : e.kids = << >>})
=============================================================================

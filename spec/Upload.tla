------------------------------ MODULE Upload ------------------------------
(***************************************************************************)
(* C18, upload half: the protocol behind webdav.Client.Create.             *)
(*   caller     Write(chunk)* ; Close()        (user of the io.WriteCloser)*)
(*   io.Pipe    pend = bytes of the blocked Write not yet consumed;        *)
(*              wclosed / rclosed = writer / reader side closed            *)
(*   goroutine  resp, err := Do(req); done <- result   (started by Create) *)
(*   transport  reads the body, answers (2xx / 4xx), drops, or stalls      *)
(*              until the context is cancelled; always closes the body     *)
(* One action per blocking point of the code.  The fault plan is chosen    *)
(* up front: how many units the transport consumes before it finishes      *)
(* (or everything), and how it finishes.                                   *)
(***************************************************************************)
EXTENDS Naturals, TLC
CONSTANTS NChunks, ChunkSize
Total == NChunks * ChunkSize
Plans == [readK : 0..Total, fin : {"s2xx", "s4xx", "drop", "stall"}, wantAll : BOOLEAN]

VARIABLES plan,     \* server/transport behaviour chosen up front (fault injection)
          cpc, ci, wres, cres,        \* caller: pc, chunk index, last write result, Close result
          pend, wclosed, rclosed,     \* io.Pipe: bytes of the blocked Write, writer closed, reader closed
          tpc, tread, resp,           \* transport: pc, bytes read, outcome
          gpc, gres, done,            \* library goroutine: pc, result; done channel (cap 1)
          ctx                         \* context cancelled
vars == <<plan, cpc, ci, wres, cres, pend, wclosed, rclosed, tpc, tread, resp, gpc, gres, done, ctx>>

Init == /\ plan \in Plans
        /\ cpc = "idle" /\ ci = 0 /\ wres = "none" /\ cres = "none"
        /\ pend = 0 /\ wclosed = FALSE /\ rclosed = FALSE
        /\ tpc = "notstarted" /\ tread = 0 /\ resp = "none"
        /\ gpc = "callDo" /\ gres = "none" /\ done = "empty"
        /\ ctx = FALSE

\* ---- caller (user of the io.WriteCloser returned by Client.Create)
WriteStart == /\ cpc = "idle" /\ ci < NChunks
              /\ IF rclosed THEN /\ wres' = "errClosed" /\ ci' = ci + 1 /\ UNCHANGED <<cpc, pend>>
                 ELSE /\ pend' = ChunkSize /\ cpc' = "writing" /\ UNCHANGED <<wres, ci>>
              /\ UNCHANGED <<plan, cres, wclosed, rclosed, tpc, tread, resp, gpc, gres, done, ctx>>
WriteReturnOK == /\ cpc = "writing" /\ pend = 0
                 /\ cpc' = "idle" /\ ci' = ci + 1 /\ wres' = "ok"
                 /\ UNCHANGED <<plan, cres, pend, wclosed, rclosed, tpc, tread, resp, gpc, gres, done, ctx>>
WriteReturnErr == /\ cpc = "writing" /\ pend > 0 /\ rclosed
                  /\ cpc' = "idle" /\ ci' = ci + 1 /\ wres' = "errClosed" /\ pend' = 0
                  /\ UNCHANGED <<plan, cres, wclosed, rclosed, tpc, tread, resp, gpc, gres, done, ctx>>
CloseStart == /\ cpc = "idle"          \* caller may close after any number of writes
              /\ wclosed' = TRUE /\ cpc' = "waitdone"
              /\ UNCHANGED <<plan, ci, wres, cres, pend, rclosed, tpc, tread, resp, gpc, gres, done, ctx>>
CloseReturn == /\ cpc = "waitdone" /\ done # "empty"
               /\ cres' = done /\ done' = "empty" /\ cpc' = "ret"
               /\ UNCHANGED <<plan, ci, wres, pend, wclosed, rclosed, tpc, tread, resp, gpc, gres, ctx>>

\* ---- library goroutine started by Create
GoCallDo == /\ gpc = "callDo" /\ gpc' = "inDo" /\ tpc' = "run"
            /\ UNCHANGED <<plan, cpc, ci, wres, cres, pend, wclosed, rclosed, tread, resp, gres, done, ctx>>
GoDoReturn == /\ gpc = "inDo" /\ tpc \in {"answered", "failed"}
              /\ gres' = IF tpc = "answered" /\ resp = "s2xx" THEN "nil" ELSE "err"
              /\ gpc' = "send"
              /\ UNCHANGED <<plan, cpc, ci, wres, cres, pend, wclosed, rclosed, tpc, tread, resp, done, ctx>>
GoSend == /\ gpc = "send" /\ done = "empty"
          /\ done' = gres /\ gpc' = "exit"
          /\ UNCHANGED <<plan, cpc, ci, wres, cres, pend, wclosed, rclosed, tpc, tread, resp, gres, ctx>>

\* ---- transport + server (net/http contract: body reader is always closed eventually)
BodyEOF == wclosed /\ pend = 0
TRead == /\ tpc = "run" /\ pend > 0 /\ ~rclosed
         /\ (plan.wantAll \/ tread < plan.readK)
         /\ pend' = pend - 1 /\ tread' = tread + 1
         /\ UNCHANGED <<plan, cpc, ci, wres, cres, wclosed, rclosed, tpc, resp, gpc, gres, done, ctx>>
ReadyToFinish == BodyEOF \/ (~plan.wantAll /\ tread >= plan.readK)
TFinish == /\ tpc = "run" /\ ReadyToFinish /\ plan.fin # "stall"
           /\ IF plan.fin = "drop" THEN tpc' = "failed" /\ resp' = "none"
              ELSE tpc' = "answered" /\ resp' = plan.fin
           /\ UNCHANGED <<plan, cpc, ci, wres, cres, pend, wclosed, rclosed, tread, gpc, gres, done, ctx>>
TCancelled == /\ tpc = "run" /\ ctx
              /\ tpc' = "failed" /\ resp' = "none"
              /\ UNCHANGED <<plan, cpc, ci, wres, cres, pend, wclosed, rclosed, tread, gpc, gres, done, ctx>>
TCloseBody == /\ tpc \in {"answered", "failed"} /\ ~rclosed
              /\ rclosed' = TRUE
              /\ UNCHANGED <<plan, cpc, ci, wres, cres, pend, wclosed, tpc, tread, resp, gpc, gres, done, ctx>>
Cancel == /\ ~ctx /\ plan.fin = "stall" /\ ctx' = TRUE
          /\ UNCHANGED <<plan, cpc, ci, wres, cres, pend, wclosed, rclosed, tpc, tread, resp, gpc, gres, done>>

Next == WriteStart \/ WriteReturnOK \/ WriteReturnErr \/ CloseStart \/ CloseReturn
        \/ GoCallDo \/ GoDoReturn \/ GoSend \/ TRead \/ TFinish \/ TCancelled \/ TCloseBody \/ Cancel

Fair == /\ WF_vars(WriteStart \/ CloseStart) /\ WF_vars(WriteReturnOK) /\ WF_vars(WriteReturnErr) /\ WF_vars(CloseReturn)
        /\ WF_vars(GoCallDo) /\ WF_vars(GoDoReturn) /\ WF_vars(GoSend)
        /\ WF_vars(TRead) /\ WF_vars(TFinish) /\ WF_vars(TCancelled) /\ WF_vars(TCloseBody) /\ WF_vars(Cancel)
Spec == Init /\ [][Next]_vars /\ Fair

TypeOK == /\ cpc \in {"idle", "writing", "waitdone", "ret"} /\ ci \in 0..NChunks /\ pend \in 0..ChunkSize
          /\ tpc \in {"notstarted", "run", "answered", "failed"} /\ gpc \in {"callDo", "inDo", "send", "exit"}
          /\ done \in {"empty", "nil", "err"} /\ tread \in 0..Total
\* a Write never reports success for bytes the transport did not consume
WriteOKMeansConsumed == (wres = "ok") => tread >= 1
CloseResult == cpc = "ret" => (cres = "nil" <=> (tpc = "answered" /\ resp = "s2xx"))
CloseAfterAnswer == cpc = "ret" => tpc \in {"answered", "failed"}
Terminates == <>(cpc = "ret")
NoLeak == (cpc = "ret") ~> (gpc = "exit")
WriteProgress == (cpc = "writing") ~> (cpc # "writing")
=============================================================================

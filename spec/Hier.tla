------------------------------ MODULE Hier ------------------------------
(***************************************************************************)
(* The CalDAV / CardDAV resource hierarchy below a mount prefix (C12) and  *)
(* PROPFIND scope / per-property accounting (C11).                         *)
(*   level = number of path segments below the prefix (trailing slashes    *)
(*   ignored): 0 root, 1 principal, 2 home set, 3 collection, 4 object.    *)
(* A request is [srv, m, path, own, depth, ...]: path is the sequence of   *)
(* segment tokens below the prefix, own = the path lies on the current     *)
(* user's chain (principal / home set are the current user's).             *)
(* Backend calls are observed as [op, path] with the path argument as a    *)
(* string; reqpath is the request path as a string (compared only).        *)
(***************************************************************************)
EXTENDS Naturals, Sequences, FiniteSets, TLC

Level(path) == Len(path)
Has(calls, op) == \E i \in 1..Len(calls) : calls[i].op = op
HasAt(calls, op, p) == \E i \in 1..Len(calls) : calls[i].op = op /\ calls[i].path = p
NoneOf(calls, ops) == \A i \in 1..Len(calls) : calls[i].op \notin ops
Mutators == {"CreateCalendar", "CreateAddressBook", "DeleteAddressBook", "DeleteAddressObject", "DeleteCalendarObject", "PutCalendarObject", "PutAddressObject"}
Creators == {"CreateCalendar", "CreateAddressBook"}
Deleters == {"DeleteAddressBook", "DeleteAddressObject", "DeleteCalendarObject"}
GetColl(srv) == IF srv = "cal" THEN "GetCalendar" ELSE "GetAddressBook"
GetObj(srv) == IF srv = "cal" THEN "GetCalendarObject" ELSE "GetAddressObject"
PutObj(srv) == IF srv = "cal" THEN "PutCalendarObject" ELSE "PutAddressObject"
Create(srv) == IF srv = "cal" THEN "CreateCalendar" ELSE "CreateAddressBook"
QueryOp(srv) == IF srv = "cal" THEN "QueryCalendarObjects" ELSE "QueryAddressObjects"
DavClass(srv) == IF srv = "cal" THEN "calendar-access" ELSE "addressbook"
SetOf(s) == {s[i] : i \in 1..Len(s)}

(***************************************************************************)
(* Route (DESIGN.md Appendix B): what the operation carrying the request   *)
(* must be, with the request path unchanged.  e is the observation.        *)
(***************************************************************************)
RouteOK(e) ==
  LET lv == Level(e.path) IN
  CASE e.m = "MKCOL" ->
         IF lv = 3 THEN e.st = 201 /\ HasAt(e.calls, Create(e.srv), e.reqpath) /\ NoneOf(e.calls, Mutators \ {Create(e.srv)})
         ELSE e.st = 403 /\ NoneOf(e.calls, Mutators)
    [] e.m = "DELETE" /\ e.srv = "card" ->
         IF lv = 3 THEN HasAt(e.calls, "DeleteAddressBook", e.reqpath) /\ NoneOf(e.calls, Mutators \ {"DeleteAddressBook"})
         ELSE IF lv = 4 THEN HasAt(e.calls, "DeleteAddressObject", e.reqpath) /\ NoneOf(e.calls, Mutators \ {"DeleteAddressObject"})
         ELSE e.st = 403 /\ NoneOf(e.calls, Mutators)
    [] e.m = "DELETE" /\ e.srv = "cal" -> HasAt(e.calls, "DeleteCalendarObject", e.reqpath) /\ NoneOf(e.calls, Mutators \ {"DeleteCalendarObject"})
    [] e.m = "PROPFIND" ->
         /\ NoneOf(e.calls, Mutators)
         /\ (lv = 3 => HasAt(e.calls, GetColl(e.srv), e.reqpath))
         /\ (lv = 4 => HasAt(e.calls, GetObj(e.srv), e.reqpath))
         /\ (lv \in {0, 1, 2} => e.st = 207)
         \* a principal or home-set path other than the current user's exposes none of the current user's resources
         /\ (lv \in {1, 2} /\ ~e.own => SetOf(e.hrefs) \cap SetOf(e.ownhrefs) = {})
    [] e.m = "OPTIONS" ->
         /\ NoneOf(e.calls, Mutators) /\ e.st \in {200, 204} /\ DavClass(e.srv) \in SetOf(e.dav)
         /\ (lv = 4 => HasAt(e.calls, GetObj(e.srv), e.reqpath))
         /\ (lv # 4 => NoneOf(e.calls, {GetObj(e.srv)}))
    [] e.m \in {"GET", "HEAD"} -> HasAt(e.calls, GetObj(e.srv), e.reqpath) /\ NoneOf(e.calls, Mutators)
    [] e.m = "PUT" -> HasAt(e.calls, PutObj(e.srv), e.reqpath) /\ NoneOf(e.calls, Mutators \ {PutObj(e.srv)})
    [] e.m = "REPORT" -> HasAt(e.calls, QueryOp(e.srv), e.reqpath) /\ NoneOf(e.calls, Mutators)
    [] e.m = "WELLKNOWN" -> e.st \in {301, 302, 307, 308} /\ e.location = e.principal /\ NoneOf(e.calls, Mutators)
    [] OTHER -> FALSE

(***************************************************************************)
(* Scope of a PROPFIND (C11): resources are ids "P" principal, "H" home    *)
(* set, "C<i>" collections, "C<i>/O<j>" objects; layout = [ncol, nobj].    *)
(***************************************************************************)
Cols(lay) == {"C" \o ToString(i) : i \in 1..lay.ncol}
ObjsOf(c, lay) == {c \o "/O" \o ToString(j) : j \in 1..lay.nobj}
Objs(lay) == UNION {ObjsOf(c, lay) : c \in Cols(lay)}
Deep(d) == d \in {"absent", "infinity"}
Scope(res, d, lay) ==
  IF res = "P" THEN {"P"} \cup (IF d # "0" THEN {"H"} ELSE {}) \cup (IF Deep(d) THEN Cols(lay) \cup Objs(lay) ELSE {})
  ELSE IF res = "H" THEN {"H"} \cup (IF d # "0" THEN Cols(lay) ELSE {}) \cup (IF Deep(d) THEN Objs(lay) ELSE {})
  ELSE IF res \in Cols(lay) THEN {res} \cup (IF d # "0" THEN ObjsOf(res, lay) ELSE {})
  ELSE {res}

(***************************************************************************)
(* Per-property accounting (C11).  An answer is a sequence of              *)
(* [n, st, empty] (one per property element, in any propstat).             *)
(***************************************************************************)
Names(ans) == {ans[i].n : i \in 1..Len(ans)}
Count(ans, n) == Cardinality({i \in 1..Len(ans) : ans[i].n = n})
Once(ans) == \A n \in Names(ans) : Count(ans, n) = 1
StOf(ans, n) == ans[CHOOSE i \in 1..Len(ans) : ans[i].n = n].st
EmptyOf(ans, n) == ans[CHOOSE i \in 1..Len(ans) : ans[i].n = n].empty
\* propname: available names, no values;  allprop: all of them with status 200;  prop: each DISTINCT requested name exactly once,
\* 200 if available, empty under 404 if not, and nothing that was not asked for
\* what a resource certainly "has" in the recorder's fixtures (every file and object is stored with a length -- possibly 0 for
\* files --, an entity tag, a modification time; collections have names): a lower bound for the available properties, so that
\* a property dropped consistently from all three forms does not go unnoticed
DavFiles == {"file", "dir/f1", "dir/sub/f2"}
MustHave(srv, r, lay) ==
  {"DAV: resourcetype"} \cup
  (IF srv = "dav" THEN (IF r \in DavFiles THEN {"DAV: getcontentlength", "DAV: getetag", "DAV: getlastmodified"} ELSE {})
   ELSE IF srv = "principal" THEN (IF r = "P" THEN {"DAV: current-user-principal", "SRV: home-set", "CARD: home-set"} ELSE {})
   ELSE IF r \in Objs(lay) THEN {"DAV: getetag", "DAV: getcontentlength", "DAV: getlastmodified", "DAV: getcontenttype", "SRV: data"}
   ELSE IF r \in Cols(lay) THEN {"DAV: displayname"}
   ELSE {})
PropNameOK(avail) == Once(avail) /\ \A i \in 1..Len(avail) : avail[i].st = 200 /\ avail[i].empty
AllPropOK(all, avail) == Once(all) /\ Names(all) = Names(avail) /\ \A i \in 1..Len(all) : all[i].st = 200
PropOK(ans, req, avail) == /\ Names(ans) = SetOf(req)
                           /\ Once(ans)
                           /\ \A n \in SetOf(req) : IF n \in Names(avail) THEN StOf(ans, n) = 200 ELSE StOf(ans, n) = 404 /\ EmptyOf(ans, n)
=============================================================================

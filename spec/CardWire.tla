------------------------------ MODULE CardWire ------------------------------
(***************************************************************************)
(* RFC 6352 request grammar (sections 8.7, 10.3 - 10.6) over abstract XML: *)
(* the independent writer (QueryDoc, MultigetDoc) and reader (Classify,    *)
(* Denotes) that C09 refers to.                                            *)
(*   query   [allprop, props, test, filters, limit]   limit 0 = none       *)
(*   filter  [name, test, isnd, tms, params]; text-match [text, neg, mt];  *)
(*   param   [name, isnd, tm]   (tm optional: sequence of length 0 / 1)    *)
(*   multiget [allprop, props, hrefs]                                      *)
(* test "" and mt "" are the API's "unset" (absent attribute: anyof /      *)
(* contains); any other token is written verbatim.                         *)
(***************************************************************************)
EXTENDS XmlOps

ValidTests == {"anyof", "allof"}
ValidMTs == {"equals", "contains", "starts-with", "ends-with"}

\* ---------- writer
TMDoc(tm) == El(CARD, "text-match",
                Opt(tm.neg, At("negate-condition", "yes")) \o Opt(tm.mt # "", At("match-type", tm.mt)),
                <<Txt(tm.text)>>)
ParamDoc(pf) == El(CARD, "param-filter", <<At("name", pf.name)>>,
                   IF pf.isnd THEN <<El(CARD, "is-not-defined", << >>, << >>)>> ELSE Map(pf.tm, TMDoc))
PropFDoc(pf) == El(CARD, "prop-filter", <<At("name", pf.name)>> \o Opt(pf.test # "", At("test", pf.test)),
                   IF pf.isnd THEN <<El(CARD, "is-not-defined", << >>, << >>)>>
                   ELSE Map(pf.tms, TMDoc) \o Map(pf.params, ParamDoc))
DataDoc(allprop, props) == El(CARD, "address-data", << >>,
                              IF allprop THEN <<El(CARD, "allprop", << >>, << >>)>>
                              ELSE Map(props, LAMBDA n : El(CARD, "prop", <<At("name", n)>>, << >>)))
PropDoc(allprop, props) == El(DAV, "prop", << >>, <<El(DAV, "getetag", << >>, << >>), DataDoc(allprop, props)>>)
QueryDoc(q) == El(CARD, "addressbook-query", << >>,
                  <<PropDoc(q.allprop, q.props),
                    El(CARD, "filter", Opt(q.test # "", At("test", q.test)), Map(q.filters, PropFDoc))>>
                  \o Opt(q.limit > 0, El(CARD, "limit", << >>, <<El(CARD, "nresults", << >>, <<Txt(ToString(q.limit))>>)>>)))
MultigetDoc(m) == El(CARD, "addressbook-multiget", << >>,
                     <<PropDoc(m.allprop, m.props)>> \o Map(m.hrefs, LAMBDA h : El(DAV, "href", << >>, <<Txt(h)>>)))

\* ---------- reader (defaults of the RFC applied here: test = anyof, match-type = contains, negate-condition = no)
TestOf(e) == AttrOr(e, "test", "anyof")
TMOf(e) == [text |-> Chars(e), neg |-> AttrOr(e, "negate-condition", "no") = "yes", mt |-> AttrOr(e, "match-type", "contains")]
ParamOf(e) == [name |-> Attr(e, "name"), isnd |-> HasKid(e, CARD, "is-not-defined"), tm |-> Map(Kids(e, CARD, "text-match"), TMOf)]
PropFOf(e) == [name |-> Attr(e, "name"), test |-> TestOf(e), isnd |-> HasKid(e, CARD, "is-not-defined"),
               tms |-> Map(Kids(e, CARD, "text-match"), TMOf), params |-> Map(Kids(e, CARD, "param-filter"), ParamOf)]
DataOf(d) == LET props == Kids(d, DAV, "prop")
                 data == IF Len(props) = 0 THEN << >> ELSE Kids(props[1], CARD, "address-data")
             IN [allprop |-> Len(data) > 0 /\ HasKid(data[1], CARD, "allprop"),
                 props |-> IF Len(data) = 0 THEN << >> ELSE Map(Kids(data[1], CARD, "prop"), LAMBDA p : Attr(p, "name"))]
LimitText(d) == LET lim == Kids(d, CARD, "limit") IN IF Len(lim) = 0 THEN "" ELSE Chars(Kids(lim[1], CARD, "nresults")[1])
Denotes(d) == LET f == Kids(d, CARD, "filter")[1] IN
              [allprop |-> DataOf(d).allprop, props |-> DataOf(d).props, test |-> TestOf(f),
               filters |-> Map(Kids(f, CARD, "prop-filter"), PropFOf), limittext |-> LimitText(d)]
MultigetDenotes(d) == [allprop |-> DataOf(d).allprop, props |-> DataOf(d).props, hrefs |-> Map(Kids(d, DAV, "href"), Chars)]

\* ---------- structural validity (what makes the readers above total) and RFC validity
AllHaveName(es) == \A i \in 1..Len(es) : HasAttr(es[i], "name")
PFShape(e) == /\ AllHaveName(Kids(e, CARD, "param-filter"))
              /\ \A i \in 1..Len(Kids(e, CARD, "param-filter")) : Len(Kids(Kids(e, CARD, "param-filter")[i], CARD, "text-match")) <= 1
QueryShape(d) == /\ d.ns = CARD /\ d.name = "addressbook-query"
                 /\ Len(Kids(d, CARD, "filter")) = 1 /\ Len(Kids(d, DAV, "prop")) <= 1
                 /\ LET pfs == Kids(Kids(d, CARD, "filter")[1], CARD, "prop-filter") IN
                      AllHaveName(pfs) /\ \A i \in 1..Len(pfs) : PFShape(pfs[i])
                 /\ \A i \in 1..Len(Kids(d, CARD, "limit")) : Len(Kids(Kids(d, CARD, "limit")[i], CARD, "nresults")) = 1
                 /\ \A i \in 1..Len(Kids(d, DAV, "prop")) : AllHaveName(Kids(Kids(d, DAV, "prop")[i], CARD, "address-data")) \/ TRUE
MultigetShape(d) == d.ns = CARD /\ d.name = "addressbook-multiget" /\ Len(Kids(d, DAV, "prop")) <= 1
\* DTD child order of the documents the CLIENT emits (RFC 6352 10.3: (allprop|propname|prop)?, filter, limit?)
QueryOrder(d) == Before(d, DAV, "prop", CARD, "filter") /\ Before(d, CARD, "filter", CARD, "limit")
\* enumeration values of a denoted query that the RFC does not define
InvalidEnums(q) == \/ q.test \notin ValidTests
                   \/ \E i \in 1..Len(q.filters) :
                        \/ q.filters[i].test \notin ValidTests
                        \/ \E k \in 1..Len(q.filters[i].tms) : q.filters[i].tms[k].mt \notin ValidMTs
                        \/ \E k \in 1..Len(q.filters[i].params) : \E j \in 1..Len(q.filters[i].params[k].tm) : q.filters[i].params[k].tm[j].mt \notin ValidMTs

\* comparison form of an API query (defaults applied, limit as its decimal text)
DT(t) == IF t = "" THEN "anyof" ELSE t
DM(m) == IF m = "" THEN "contains" ELSE m
NTM(tm) == [text |-> tm.text, neg |-> tm.neg, mt |-> DM(tm.mt)]
Norm(q) == [allprop |-> q.allprop, props |-> q.props, test |-> DT(q.test),
            filters |-> Map(q.filters, LAMBDA pf : [name |-> pf.name, test |-> DT(pf.test), isnd |-> pf.isnd, tms |-> Map(pf.tms, NTM),
                                                     params |-> Map(pf.params, LAMBDA pp : [name |-> pp.name, isnd |-> pp.isnd, tm |-> Map(pp.tm, NTM)])]),
            limittext |-> IF q.limit > 0 THEN ToString(q.limit) ELSE ""]
=============================================================================

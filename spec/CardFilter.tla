------------------------------ MODULE CardFilter ------------------------------
(***************************************************************************)
(* RFC 6352 section 10.5 address-book query evaluation (C07), transcribed. *)
(*   card        sequence of [n, v] with distinct names, v = letters       *)
(*   text-match  [text, neg, mt]   mt "" means contains                    *)
(*   prop-filter [name, test, isnd, tms]   test "" means anyof             *)
(*   query       [test, filters, limit, props, allprop]                    *)
(* Unknown enumeration values must be reported as an error, never guessed. *)
(* The evaluation is therefore set-valued: Vals(x) is the set of truth     *)
(* values the valid completions of x can take.  A query with nothing       *)
(* invalid has exactly one value and must yield it without error; with an  *)
(* invalid piece an error is always accepted, and a truth value only when  *)
(* every completion agrees on it (the invalid piece cannot matter).        *)
(***************************************************************************)
EXTENDS Naturals, Integers, Sequences, FiniteSets, TLC

Has(card, n) == \E i \in 1..Len(card) : card[i].n = n
Val(card, n) == card[CHOOSE i \in 1..Len(card) : card[i].n = n].v

IsPrefix(t, v) == Len(t) <= Len(v) /\ \A j \in 1..Len(t) : v[j] = t[j]
IsSuffix(t, v) == Len(t) <= Len(v) /\ \A j \in 1..Len(t) : v[Len(v) - Len(t) + j] = t[j]
IsSub(t, v) == \E i \in 0..(Len(v) - Len(t)) : \A j \in 1..Len(t) : v[i + j] = t[j]

ValidMT == {"equals", "contains", "starts-with", "ends-with"}
ValidTest == {"anyof", "allof"}
MTOf(m) == IF m = "" THEN "contains" ELSE m
TestOf(t) == IF t = "" THEN "anyof" ELSE t

Raw(mt, t, v) == CASE mt = "equals" -> t = v
                   [] mt = "contains" -> IsSub(t, v)
                   [] mt = "starts-with" -> IsPrefix(t, v)
                   [] mt = "ends-with" -> IsSuffix(t, v)
TMVals(tm, v) == {(Raw(m, tm.text, v) # tm.neg) : m \in (IF MTOf(tm.mt) \in ValidMT THEN {MTOf(tm.mt)} ELSE ValidMT)}

\* possible results of combining a sequence of value-sets under a test
AnyOf(S) == {b \in BOOLEAN : IF b THEN \E i \in 1..Len(S) : TRUE \in S[i] ELSE \A i \in 1..Len(S) : FALSE \in S[i]}
AllOf(S) == {b \in BOOLEAN : IF b THEN \A i \in 1..Len(S) : TRUE \in S[i] ELSE \E i \in 1..Len(S) : FALSE \in S[i]}
Combine(test, S) == IF TestOf(test) = "anyof" THEN AnyOf(S)
                    ELSE IF TestOf(test) = "allof" THEN AllOf(S)
                    ELSE AnyOf(S) \cup AllOf(S)

PropVals(pf, card) ==
  IF ~Has(card, pf.name) THEN (IF pf.isnd /\ pf.tms # << >> THEN BOOLEAN ELSE {pf.isnd})   \* absent, is-not-defined, yet text-matches: either reading
  ELSE IF pf.isnd THEN {FALSE}
  ELSE IF pf.tms = << >> THEN {TRUE}
  ELSE Combine(pf.test, [i \in 1..Len(pf.tms) |-> TMVals(pf.tms[i], Val(card, pf.name))])
QueryVals(q, card) == Combine(q.test, [i \in 1..Len(q.filters) |-> PropVals(q.filters[i], card)])

InvalidIn(q) == \/ TestOf(q.test) \notin ValidTest
                \/ \E i \in 1..Len(q.filters) :
                     \/ TestOf(q.filters[i].test) \notin ValidTest
                     \/ \E k \in 1..Len(q.filters[i].tms) : MTOf(q.filters[i].tms[k].mt) \notin ValidMT

\* verdict codes of the recorder: 0 false, 1 true, 2 error, 3 panic
\* "never guessed": evaluation in order, stopping at the first operand that decides (anyof: a true one, allof: a false one);
\* an unknown test is an error as soon as there is something to combine, an unknown match type as soon as its text-match is
\* evaluated.  Values "T" / "F" / "E"(rror); g is the value taken in the one case the statement leaves open.
RECURSIVE LazyFold(_, _, _)
LazyFold(test, vs, i) == IF i > Len(vs) THEN (IF test = "anyof" THEN "F" ELSE "T")
                         ELSE IF vs[i] = "E" THEN "E"
                         ELSE IF test = "anyof" /\ vs[i] = "T" THEN "T"
                         ELSE IF test = "allof" /\ vs[i] = "F" THEN "F"
                         ELSE LazyFold(test, vs, i + 1)
LazyTM(tm, v) == IF MTOf(tm.mt) \notin ValidMT THEN "E" ELSE IF Raw(MTOf(tm.mt), tm.text, v) # tm.neg THEN "T" ELSE "F"
LazyProp(pf, card, g) ==
  IF ~Has(card, pf.name) THEN (IF pf.isnd THEN (IF pf.tms # << >> THEN g ELSE "T") ELSE "F")
  ELSE IF pf.isnd THEN "F"
  ELSE IF pf.tms = << >> THEN "T"
  ELSE IF TestOf(pf.test) \notin ValidTest THEN "E"
  ELSE LazyFold(TestOf(pf.test), [i \in 1..Len(pf.tms) |-> LazyTM(pf.tms[i], Val(card, pf.name))], 1)
LazyQuery(q, card, g) == IF TestOf(q.test) \notin ValidTest THEN "E"
                         ELSE LazyFold(TestOf(q.test), [i \in 1..Len(q.filters) |-> LazyProp(q.filters[i], card, g)], 1)
CodeOf(v) == IF v = "T" THEN 1 ELSE IF v = "F" THEN 0 ELSE 2
\* accepted verdicts: an error for any query with an unknown enumeration value anywhere (eager validation), or the outcome of
\* the in-order evaluation (which is an error whenever the unknown value is actually needed)
Accepted(q, card) == (IF InvalidIn(q) THEN {2} ELSE {}) \cup {CodeOf(LazyQuery(q, card, g)) : g \in {"T", "F"}}

\* ---- Filter: matching cards in input order, cut to the first Limit, projected (valid queries only)
CardMatch(q, card) == TRUE \in QueryVals(q, card)
Matching(q, cards) == SelectSeq([i \in 1..Len(cards) |-> i], LAMBDA i : CardMatch(q, cards[i]))
Cut(q, s) == IF q.limit > 0 /\ q.limit < Len(s) THEN SubSeq(s, 1, q.limit) ELSE s
FilterIdx(q, cards) == Cut(q, Matching(q, cards))
\* names a returned card must carry: everything for allprop / no selection, else VERSION plus the requested ones it has
Projected(q, card) == IF q.allprop \/ q.props = << >> THEN {card[i].n : i \in 1..Len(card)}
                      ELSE {card[i].n : i \in {j \in 1..Len(card) : card[j].n = "VERSION" \/ \E k \in 1..Len(q.props) : q.props[k] = card[j].n}}
=============================================================================

------------------------------ MODULE CardWireJudge ------------------------------
(***************************************************************************)
(* F3 for C09.  Events:                                                    *)
(*  srv    QueryDoc(q) rendered by the independent writer, sent to the real*)
(*         handler: the query the backend received (got) must equal        *)
(*         Norm(q); a query with an invalid enumeration value must be      *)
(*         refused with 4xx without any backend call                       *)
(*  cli    the real client was asked to send q: the captured document must *)
(*         be well-formed, of the right shape and child order, and denote  *)
(*         Norm(q) (a client-side error is accepted only for values the    *)
(*         RFC cannot express)                                             *)
(*  mgsrv / mgcli   the same for addressbook-multiget                      *)
(*  bad    documents outside the RFC (invalid enumeration values, mutually *)
(*         exclusive children, invalid limits): 4xx, no backend call       *)
(***************************************************************************)
EXTENDS CardWire, Json, TLCExt, IOUtils, SequencesExt
Dir == IOEnv.DIR
QCases == ndJsonDeserialize(Dir \o "/queries.ndjson")
MCases == ndJsonDeserialize(Dir \o "/multigets.ndjson")
BadCases == ndJsonDeserialize(Dir \o "/invalid.ndjson")
Obs == ndJsonDeserialize(IOEnv.OBS)

\* lexical observation of the received query -> comparison form ("" = unset: the statement's defaults apply)
GTM(tm) == [text |-> tm.text, neg |-> tm.neg, mt |-> DM(tm.mt)]
GotNorm(g) == [allprop |-> g.allprop, props |-> g.props, test |-> DT(g.test),
               filters |-> Map(g.filters, LAMBDA pf : [name |-> pf.name, test |-> DT(pf.test), isnd |-> pf.isnd, tms |-> Map(pf.tms, GTM),
                                                        params |-> Map(pf.params, LAMBDA pp : [name |-> pp.name, isnd |-> pp.isnd, tm |-> Map(pp.tm, GTM)])]),
               limittext |-> g.limittext]
In4xx(s) == s >= 400 /\ s <= 499

SrvOK(e) == LET q == QCases[e.i].q IN
            /\ ~e.panic /\ e.mut = 0
            /\ IF QCases[e.i].zerolimit THEN e.st = 207 /\ \A j \in 1..Len(e.got) : e.got[j].limit # 0     \* never as an unlimited query
               ELSE IF InvalidEnums(Norm(q)) THEN In4xx(e.st) /\ e.got = << >>
               ELSE e.st = 207 /\ Len(e.got) = 1 /\ GotNorm(e.got[1]) = Norm(q)
CliOK(e) == LET q == QCases[e.i].q IN
            \/ (e.err /\ ~e.sent /\ InvalidEnums(Norm(q)))                   \* refused by the client: only for inexpressible values
            \/ (/\ ~e.err /\ e.sent /\ e.wf /\ Len(e.doc) = 1
                /\ QueryShape(e.doc[1]) /\ QueryOrder(e.doc[1]) /\ Denotes(e.doc[1]) = Norm(q))
MgSrvOK(e) == LET m == MCases[e.i].m IN
              /\ ~e.panic /\ e.st = 207 /\ e.paths = m.hrefs
              /\ \A j \in 1..Len(e.reqs) : e.reqs[j].allprop = m.allprop /\ e.reqs[j].props = m.props
MgCliOK(e) == LET m == MCases[e.i].m IN
              ~e.err /\ e.sent /\ e.wf /\ Len(e.doc) = 1 /\ MultigetShape(e.doc[1]) /\ MultigetDenotes(e.doc[1]) = m
BadOK(e) == ~e.panic /\ In4xx(e.st) /\ e.queries = 0 /\ e.mut = 0

Accept(e) == CASE e.k = "srv" -> SrvOK(e) [] e.k = "cli" -> CliOK(e) [] e.k = "mgsrv" -> MgSrvOK(e) [] e.k = "mgcli" -> MgCliOK(e)
               [] e.k = "bad" -> BadOK(e)
               \* a multiget without paths names the addressed collection itself, on every use of the same request value
               [] e.k = "mgself" -> ~e.err /\ e.first = <<"first">> /\ e.second = <<"second">>
               [] OTHER -> FALSE

\* signature: direction, which part differs
Diff(a, b) == (IF a.allprop # b.allprop \/ a.props # b.props THEN " selection" ELSE "") \o (IF a.test # b.test THEN " test" ELSE "")
              \o (IF a.limittext # b.limittext THEN " limit" ELSE "")
              \o (IF Len(a.filters) # Len(b.filters) THEN " filter-count"
                  ELSE IF a.filters # b.filters THEN
                    (IF \E i \in 1..Len(a.filters) : a.filters[i].name # b.filters[i].name THEN " prop-name" ELSE "")
                    \o (IF \E i \in 1..Len(a.filters) : a.filters[i].test # b.filters[i].test THEN " prop-test" ELSE "")
                    \o (IF \E i \in 1..Len(a.filters) : a.filters[i].isnd # b.filters[i].isnd THEN " is-not-defined" ELSE "")
                    \o (IF \E i \in 1..Len(a.filters) : a.filters[i].tms # b.filters[i].tms THEN " text-match" ELSE "")
                    \o (IF \E i \in 1..Len(a.filters) : a.filters[i].params # b.filters[i].params THEN " param-filter" ELSE "")
                  ELSE "")
Sig(e) == CASE e.k = "srv" -> LET q == QCases[e.i].q IN
                 IF e.panic THEN "wire->backend panic"
                 ELSE IF InvalidEnums(Norm(q)) THEN "wire->backend invalid-enumeration-not-refused st=" \o ToString(e.st) \o " calls=" \o ToString(Len(e.got))
                 ELSE IF e.st # 207 \/ Len(e.got) # 1 THEN "wire->backend valid-query st=" \o ToString(e.st) \o " calls=" \o ToString(Len(e.got))
                 ELSE "wire->backend altered:" \o Diff(GotNorm(e.got[1]), Norm(q))
            [] e.k = "cli" -> LET q == QCases[e.i].q IN
                 IF e.err THEN "client->wire client-error-for-expressible-query"
                 ELSE IF ~e.sent \/ ~e.wf \/ Len(e.doc) # 1 THEN "client->wire nothing-or-malformed-sent"
                 ELSE IF ~QueryShape(e.doc[1]) THEN "client->wire wrong-shape"
                 ELSE IF ~QueryOrder(e.doc[1]) THEN "client->wire child-order"
                 ELSE "client->wire altered:" \o Diff(Denotes(e.doc[1]), Norm(q))
            [] e.k = "mgsrv" -> "multiget wire->backend st=" \o ToString(e.st) \o (IF e.paths # MCases[e.i].m.hrefs THEN " hrefs" ELSE " data-request")
            [] e.k = "mgcli" -> "multiget client->wire" \o (IF e.err THEN " error" ELSE IF Len(e.doc) = 1 /\ MultigetShape(e.doc[1]) /\ MultigetDenotes(e.doc[1]).hrefs # MCases[e.i].m.hrefs THEN " hrefs" ELSE " other")
            [] e.k = "mgself" -> "multiget without paths, request value used twice: " \o (IF e.err THEN "error" ELSE IF e.first # <<"first">> THEN "first call names something else" ELSE "second call does not name the second collection")
            [] e.k = "bad" -> "invalid-document (" \o BadCases[e.i].kind \o ") st=" \o ToString(e.st) \o " queries=" \o ToString(e.queries)
            [] OTHER -> "unknown-event"

VARIABLES l, bad
JInit == l = 1 /\ bad = 0
JNext == /\ l <= Len(Obs) /\ l' = l + 1
         /\ IF Accept(Obs[l]) THEN bad' = bad
            ELSE bad' = bad + 1 /\ PrintT("REJECT|" \o ToString(l) \o "|C09 " \o Sig(Obs[l]))
JSpec == JInit /\ [][JNext]_<<l, bad>>
Done == (l = Len(Obs) + 1) => PrintT(<<"DONE", Len(Obs), bad>>)
=============================================================================

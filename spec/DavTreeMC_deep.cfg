SPECIFICATION Spec
CONSTANTS
  Names = {"a", "b"}
  Contents = {"x"}
  MaxDepth = 3
  Probes = 0
  MaxNodes = 6
  Slim = TRUE
  Rich = FALSE
INVARIANTS TypeOK InvWellFormed EmitTree
PROPERTIES FailureAtomic
VIEW View
CHECK_DEADLOCK FALSE

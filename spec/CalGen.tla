------------------------------ MODULE CalGen ------------------------------
(***************************************************************************)
(* F1 for C06: enumerates the bounded universes of filters and calendars   *)
(* and writes them as ndjson (env OUT = directory).  F0: internal laws of  *)
(* the CalFilter operators are checked as ASSUMEs over the same instance.  *)
(***************************************************************************)
EXTENDS CalFilter, Json, TLCExt, IOUtils, SequencesExt
CONSTANT Big      \* TRUE: the full filter-tree instance; FALSE: a smaller one (quick tier)

Seq01(S) == {<< >>} \cup {<<x>> : x \in S}
Seq02(S) == Seq01(S) \cup {<<x, y>> : x \in S, y \in S}
NoTR == << >>

\* ---------------- (ii) filter trees without time ranges
Texts == {<< >>, <<"a">>, <<"a", "b">>}
TMs == [text : Texts, neg : BOOLEAN]
ParamFs == [name : {"X"}, isnd : {TRUE}, tm : {<< >>}] \cup [name : {"X"}, isnd : {FALSE}, tm : Seq01(TMs)]
PropFs == UNION { [name : {n}, isnd : {TRUE}, tm : {<< >>}, tr : {NoTR}, params : {<< >>}]
                  \cup [name : {n}, isnd : {FALSE}, tm : Seq01(TMs), tr : {NoTR}, params : {<< >>}]
                  \cup [name : {n}, isnd : {FALSE}, tm : {<< >>}, tr : {NoTR}, params : {<<p>> : p \in ParamFs}] : n \in {"P", "Q"} }
          \* text-match and param-filter together: both must hold
          \cup [name : {"P"}, isnd : {FALSE}, tm : {<<[text |-> <<"a">>, neg |-> FALSE]>>, <<[text |-> <<"a", "b">>, neg |-> TRUE]>>}, tr : {NoTR},
                 params : {<<p>> : p \in ParamFs} \cup {<<[name |-> "X", isnd |-> FALSE, tm |-> << >>], [name |-> "Y", isnd |-> TRUE, tm |-> << >>]>>}]
L2Fs == [name : {"VALARM"}, isnd : BOOLEAN, tr : {NoTR}, props : {<< >>}, comps : {<< >>}]
L1Fs == UNION { [name : {n}, isnd : {TRUE}, tr : {NoTR}, props : {<< >>}, comps : {<< >>}]
                \cup [name : {n}, isnd : {FALSE}, tr : {NoTR}, props : (IF Big THEN Seq02(PropFs) ELSE Seq01(PropFs)), comps : Seq01(L2Fs)]
                : n \in {"VEVENT", "VTODO"} }
\* two property filters in one component filter (ALL must hold, whatever their order): every ordered pair of a few filters of
\* different kinds (text-match, negated text-match, existence, absence, parameter filter); part of both tiers
PF2 == {[name |-> "P", isnd |-> FALSE, tm |-> <<[text |-> <<"a">>, neg |-> FALSE]>>, tr |-> NoTR, params |-> << >>],
        [name |-> "P", isnd |-> FALSE, tm |-> <<[text |-> <<"a", "b">>, neg |-> TRUE]>>, tr |-> NoTR, params |-> << >>],
        [name |-> "Q", isnd |-> FALSE, tm |-> <<[text |-> <<"a">>, neg |-> FALSE]>>, tr |-> NoTR, params |-> << >>],
        [name |-> "Q", isnd |-> TRUE, tm |-> << >>, tr |-> NoTR, params |-> << >>],
        [name |-> "P", isnd |-> FALSE, tm |-> << >>, tr |-> NoTR, params |-> <<[name |-> "X", isnd |-> TRUE, tm |-> << >>]>>]}
TwoPF == {[name |-> "VCALENDAR", isnd |-> FALSE, tr |-> NoTR, props |-> << >>,
           comps |-> <<[name |-> "VEVENT", isnd |-> FALSE, tr |-> NoTR, props |-> <<a, b>>, comps |-> << >>]>>] : a \in PF2, b \in PF2}
TopFs == [name : {"VCALENDAR", "VX"}, isnd : {TRUE}, tr : {NoTR}, props : {<< >>}, comps : {<< >>}]
         \cup [name : {"VCALENDAR", "VX"}, isnd : {FALSE}, tr : {NoTR}, props : {<< >>}, comps : Seq01(L1Fs)]
         \cup TwoPF

PX(v) == <<[n |-> "X", v |-> v]>>
PVals == { [n |-> "P", v |-> <<"a">>, params |-> << >>, t |-> << >>],
           [n |-> "P", v |-> <<"a", "b">>, params |-> PX(<<"a">>), t |-> << >>],
           [n |-> "P", v |-> <<"b">>, params |-> PX(<<"b">>), t |-> << >>] }
QV == [n |-> "Q", v |-> <<"a">>, params |-> << >>, t |-> << >>]
PropSets == { << >>, <<QV>> } \cup { <<p>> : p \in PVals } \cup { <<p, QV>> : p \in PVals }
Alarm == [name |-> "VALARM", props |-> << >>, kids |-> << >>, ev |-> << >>]
L1Cs == [name : {"VEVENT", "VTODO"}, props : PropSets, kids : {<< >>, <<Alarm>>}, ev : {<< >>}]
Cals == [name : {"VCALENDAR"}, props : {<< >>}, kids : Seq02(L1Cs), ev : {<< >>}]

\* ---------------- (i) time-range overlap: every placement on a six-point line, every way to state the end
Pts == 0..5
Ranges == {[s |-> <<a>>, e |-> <<b>>] : a \in Pts, b \in Pts} \cup {[s |-> <<a>>, e |-> << >>] : a \in Pts} \cup {[s |-> << >>, e |-> <<b>>] : b \in Pts}
ValidRange(tr) == tr.s = << >> \/ tr.e = << >> \/ tr.s[1] < tr.e[1]
Timings ==
  {[ds |-> d, kind |-> k, x |-> x, rr |-> << >>] : d \in Pts, k \in {"dtend", "datedtend"}, x \in Pts} \cup
  {[ds |-> d, kind |-> "dur", x |-> x, rr |-> << >>] : d \in Pts, x \in 0..3} \cup
  {[ds |-> d, kind |-> k, x |-> 0, rr |-> << >>] : d \in Pts, k \in {"none", "date"}}
ValidTiming(ev) == ev.kind \in {"dtend", "datedtend"} => ev.x > ev.ds          \* DTEND later than DTSTART (RFC 5545)
EvFilter(tr) == [name |-> "VCALENDAR", isnd |-> FALSE, tr |-> NoTR, props |-> << >>,
                 comps |-> <<[name |-> "VEVENT", isnd |-> FALSE, tr |-> <<tr>>, props |-> << >>, comps |-> << >>]>>]
EvCal(ev) == [name |-> "VCALENDAR", props |-> << >>, ev |-> << >>,
              kids |-> <<[name |-> "VEVENT", props |-> << >>, kids |-> << >>, ev |-> <<ev>>]>>]
OverlapPairs == {[f |-> EvFilter(tr), c |-> EvCal(ev)] : tr \in {r \in Ranges : ValidRange(r)}, ev \in {t \in Timings : ValidTiming(t)}}

\* ---------------- (iii) recurring events: period in grid units (the recorder maps DAILY / WEEKLY onto it)
RecTimings == {[ds |-> 2, kind |-> "dur", x |-> x, rr |-> <<[period |-> 2, count |-> c]>>] : x \in {0, 1, 3}, c \in 1..4}
RecRanges == {[s |-> <<a>>, e |-> <<b>>] : a \in 0..12, b \in 0..12} \cup {[s |-> <<a>>, e |-> << >>] : a \in 0..12} \cup {[s |-> << >>, e |-> <<b>>] : b \in 0..12}
RecPairs == {[f |-> EvFilter(tr), c |-> EvCal(ev)] : tr \in {r \in RecRanges : ValidRange(r)}, ev \in RecTimings}

\* ---------------- (iv) property time range (the value exactly at the range start is left out: the statement is silent there)
PropTRFilter(tr) == [name |-> "VCALENDAR", isnd |-> FALSE, tr |-> NoTR, props |-> << >>,
                     comps |-> <<[name |-> "VEVENT", isnd |-> FALSE, tr |-> NoTR, comps |-> << >>,
                                  props |-> <<[name |-> "DTSTAMP", isnd |-> FALSE, tm |-> << >>, tr |-> <<tr>>, params |-> << >>]>>]>>]
PropTRCal(t) == [name |-> "VCALENDAR", props |-> << >>, ev |-> << >>,
                 kids |-> <<[name |-> "VEVENT", kids |-> << >>, ev |-> << >>,
                             props |-> <<[n |-> "DTSTAMP", v |-> << >>, params |-> << >>, t |-> <<t>>]>>]>>]
PropTRPairs == {[f |-> PropTRFilter(tr), c |-> PropTRCal(t)] : tr \in {r \in Ranges : ValidRange(r)}, t \in Pts}
PropTRDeciding == {p \in PropTRPairs : LET tr == p.f.comps[1].props[1].tr[1] IN tr.s = << >> \/ tr.s[1] # p.c.kids[1].props[1].t[1]}

\* ---------------- F0: laws of the operators on this instance
\* is-not-defined duality for filters without sub-conditions
ASSUME \A c \in Cals : \A n \in {"VCALENDAR", "VX"} :
         CompMatch([name |-> n, isnd |-> TRUE, tr |-> NoTR, props |-> << >>, comps |-> << >>], c)
         = ~CompMatch([name |-> n, isnd |-> FALSE, tr |-> NoTR, props |-> << >>, comps |-> << >>], c)
\* negate-condition is an involution on text-match
ASSUME \A t \in Texts : \A v \in Texts : TM([text |-> t, neg |-> TRUE], v) = ~TM([text |-> t, neg |-> FALSE], v)
\* a closed range overlaps iff the open-ended and the open-start ranges with the same bounds both do
ASSUME \A p \in OverlapPairs : LET tr == p.f.comps[1].tr[1] ev == p.c.kids[1].ev[1] IN
         (tr.s # << >> /\ tr.e # << >>) =>
           (Overlaps(ev, tr) = (Overlaps(ev, [s |-> tr.s, e |-> << >>]) /\ Overlaps(ev, [s |-> << >>, e |-> tr.e])))
\* a recurring event with COUNT 1 behaves like the plain event
ASSUME \A ev \in RecTimings : \A tr \in {r \in RecRanges : ValidRange(r)} :
         ev.rr[1].count = 1 => Overlaps(ev, tr) = Overlaps([ev EXCEPT !.rr = << >>], tr)
\* Filter returns a subsequence and is idempotent
ASSUME \A f \in {x \in TopFs : x.comps = << >>} : LET cs == SetToSeq({c \in Cals : Len(c.kids) <= 1}) IN
         FilterList(f, FilterList(f, cs)) = FilterList(f, cs) /\ Len(FilterList(f, cs)) <= Len(cs)

Out == IOEnv.OUT
ASSUME ndJsonSerialize(Out \o "/filters.ndjson", SetToSeq(TopFs))
ASSUME ndJsonSerialize(Out \o "/cals.ndjson", SetToSeq(Cals))
ASSUME ndJsonSerialize(Out \o "/overlap.ndjson", SetToSeq(OverlapPairs))
ASSUME ndJsonSerialize(Out \o "/rec.ndjson", SetToSeq(RecPairs))
ASSUME ndJsonSerialize(Out \o "/proptr.ndjson", SetToSeq(PropTRDeciding))
ASSUME PrintT(<<"COUNTS", Cardinality(TopFs), Cardinality(Cals), Cardinality(OverlapPairs), Cardinality(RecPairs), Cardinality(PropTRDeciding)>>)
VARIABLE x
Init == x = 0
Next == UNCHANGED x
=============================================================================

------------------------------ MODULE SyncJudge ------------------------------
(***************************************************************************)
(* F3 for the synchronisation histories.  "yreset" starts a history;       *)
(* every "ystep" is a change on the server side (sput / sdel: no call) or  *)
(* a SyncCollection call with the request the responder received (read by  *)
(* the independent reader), what the call returned, and the caller's       *)
(* replica afterwards.  Server state, token and replica are threaded by    *)
(* the MODEL; the replica the caller really holds must equal the model's.  *)
(***************************************************************************)
EXTENDS SyncOps, Json, TLCExt, IOUtils
Obs == ndJsonDeserialize(IOEnv.OBS)
VARIABLES l, bad, W, C
jvars == <<l, bad, W, C>>
JInit == l = 1 /\ bad = 0 /\ W = W0 /\ C = C0
JReset(e) == e.k = "yreset" /\ W' = W0 /\ C' = C0 /\ bad' = bad
JSrv(e) == /\ e.k = "ystep" /\ e.op.op \in {"sput", "sdel"}
           /\ W' = (IF e.op.op = "sput" THEN SrvPut(W, e.op.n) ELSE SrvDel(W, e.op.n))
           /\ C' = C
           /\ LET ok == AsFn(e.rep) = C.rep IN
              /\ bad' = (IF ok THEN bad ELSE bad + 1)
              /\ (ok \/ PrintT("REJECT|" \o ToString(l) \o "|C10 sync replica-changed-without-call"))
JSync(e) == /\ e.k = "ystep" /\ e.op.op = "sync"
            /\ LET want == Answer(W, C.tok, e.op.lim)
                   next == Apply(C, want)
                   ok == /\ ~e.panic /\ ~e.hang
                         /\ WireOK(C, e.op.lim, e.req)
                         /\ AnswerOK(want, e.res)
                         /\ AsFn(e.rep) = next.rep
               IN /\ W' = W /\ C' = next
                  /\ bad' = (IF ok THEN bad ELSE bad + 1)
                  /\ (ok \/ PrintT("REJECT|" \o ToString(l) \o "|C10 sync " \o (IF e.panic THEN "panic" ELSE IF e.hang THEN "hang" ELSE Why(C, e.op.lim, want, e))
                                   \o (IF e.op.lim > 0 THEN " limited" ELSE "") \o (IF C.tok = 0 THEN " initial" ELSE "")))
JNext == l <= Len(Obs) /\ l' = l + 1 /\ (JReset(Obs[l]) \/ JSrv(Obs[l]) \/ JSync(Obs[l]))
JSpec == JInit /\ [][JNext]_jvars
Done == (l = Len(Obs) + 1) => PrintT(<<"DONE", Len(Obs), bad>>)
=============================================================================

SPECIFICATION SSpec
CONSTANTS
  Names = {"o1", "o2", "o3", "o4"}
  MaxLog = 999
  Limits = {0, 1, 2, 3, 9}
  HistLen = 20
  Sim = TRUE
INVARIANTS EmitHist Converged
CHECK_DEADLOCK FALSE

------------------------------ MODULE XmlGen ------------------------------
(* F1 + F0 for C15: lexical element trees with every kind of namespace declaration; laws of Expand and Tokens. *)
EXTENDS Xml, Integers, Json, TLCExt, IOUtils, SequencesExt
CONSTANT Big
U1 == "urn:u1"
U2 == "urn:u2"
D(p, u) == [pfx |-> p, uri |-> u]
Leaf(k, t) == [kind |-> k, pfx |-> "", local |-> "", decls |-> << >>, attrs |-> << >>, kids |-> << >>, text |-> t]
E(p, l, ds, as, ks) == [kind |-> "el", pfx |-> p, local |-> l, decls |-> ds, attrs |-> as, kids |-> ks, text |-> ""]
RootDecls == {<< >>, <<D("", U1)>>, <<D("p", U1)>>, <<D("", U2), D("p", U1)>>, <<D("p", U1), D("", U2)>>, <<D("p", U1), D("q", U2), D("", U1)>>}
ChildDecls == {<< >>, <<D("", U2)>>, <<D("", "")>>, <<D("p", U2)>>, <<D("", U1)>>, <<D("q", U1)>>, <<D("q", U1), D("", U2)>>}
Pfx == {"", "p"}
AttrSets == {<< >>, <<[pfx |-> "", local |-> "a", val |-> "v1"]>>, <<[pfx |-> "p", local |-> "a", val |-> "v2"]>>,
             <<[pfx |-> "", local |-> "a", val |-> "v1"], [pfx |-> "p", local |-> "a", val |-> "v2"]>>}
Leaves == {<< >>, <<Leaf("text", "t1")>>, <<Leaf("cdata", "t2")>>, <<Leaf("comment", "c1")>>, <<Leaf("text", "t3")>>}
G3 == {E(p, "g", ds, as, lf) : p \in Pfx \cup {"q"}, ds \in (IF Big THEN ChildDecls ELSE {<< >>, <<D("", "")>>, <<D("p", U2)>>}), as \in {<< >>, <<[pfx |-> "p", local |-> "a", val |-> "v2"]>>}, lf \in {<< >>, <<Leaf("text", "t1")>>}}
C2 == {E(p, "c", ds, as, ks) : p \in Pfx \cup {"q"}, ds \in ChildDecls, as \in (IF Big THEN AttrSets ELSE {<< >>, <<[pfx |-> "", local |-> "a", val |-> "v1"], [pfx |-> "p", local |-> "a", val |-> "v2"]>>}),
                               ks \in Leaves \cup {<<g>> : g \in G3}}
Mixed == {<<Leaf("text", "t1"), E("", "m", << >>, << >>, << >>), Leaf("text", "t3")>>, <<E("p", "m", << >>, << >>, << >>), E("", "m", <<D("", "")>>, << >>, <<Leaf("cdata", "t2")>>)>>,
          <<Leaf("text", "t1"), Leaf("cdata", "t2")>>, <<Leaf("comment", "c1"), E("", "m", <<D("", U2)>>, <<[pfx |-> "", local |-> "a", val |-> "v1"]>>, << >>)>>}
Roots == {E(p, "r", ds, as, ks) : p \in Pfx, ds \in RootDecls, as \in {<< >>, <<[pfx |-> "", local |-> "a", val |-> "v1"]>>},
                                   ks \in {<<c>> : c \in C2} \cup Mixed \cup Leaves}
\* trees that are large in size only: a chain 48 elements deep (alternating prefixes, a default namespace every fifth level, an
\* undeclaration on the way), and a root with 300 children
RECURSIVE Chain(_)
Chain(n) == IF n = 0 THEN E("", "leaf", << >>, << >>, <<Leaf("text", "t1")>>)
            ELSE E(IF n % 2 = 0 THEN "p" ELSE "", "d", IF n % 5 = 0 THEN <<D("", U2)>> ELSE IF n = 17 THEN <<D("", "")>> ELSE << >>,
                   IF n % 7 = 0 THEN <<[pfx |-> "p", local |-> "a", val |-> "v2"]>> ELSE << >>, <<Chain(n - 1)>>)
DeepRoot == E("p", "r", <<D("p", U1)>>, << >>, <<Chain(48)>>)
WideRoot == E("", "r", <<D("", U1), D("p", U2)>>, << >>,
              [i \in 1..300 |-> IF i % 3 = 0 THEN Leaf("text", "t1") ELSE E(IF i % 2 = 0 THEN "p" ELSE "", "w", << >>, << >>, IF i % 4 = 0 THEN <<Leaf("cdata", "t2")>> ELSE << >>)])
Trees == {t \in Roots \cup {DeepRoot, WideRoot} : WF(t, << >>)}
ASSUME WF(DeepRoot, << >>) /\ WF(WideRoot, << >>)

\* ---- F0: laws
\* Expand is invariant under renaming the prefix p (to z) consistently
RECURSIVE Ren(_)
RP(x) == IF x = "p" THEN "z" ELSE x
Ren(n) == IF n.kind # "el" THEN n
          ELSE [n EXCEPT !.pfx = RP(n.pfx), !.decls = [i \in 1..Len(n.decls) |-> [n.decls[i] EXCEPT !.pfx = RP(@)]],
                         !.attrs = [i \in 1..Len(n.attrs) |-> [n.attrs[i] EXCEPT !.pfx = RP(@)]], !.kids = TLCEval([i \in 1..Len(n.kids) |-> Ren(TLCEval(n.kids[i]))])]
ASSUME \A t \in Trees : Expand(Ren(t), << >>) = Expand(t, << >>)
\* the token stream of every tree is balanced, well nested and of length 2 * elements + leaves
ASSUME \A t \in Trees : LET x == Expand(t, << >>) IN Balanced(Tokens(x)) /\ Len(Tokens(x)) = 2 * NEl(x) + NLeaf(x)
ASSUME ndJsonSerialize(IOEnv.OUT \o "/xml.ndjson", SetToSeq({[lex |-> t] : t \in Trees}))
ASSUME PrintT(<<"COUNTS", Cardinality(Trees), Cardinality(Roots)>>)
VARIABLE dummy
Init == dummy = 0
Next == UNCHANGED dummy
=============================================================================

------------------------------ MODULE CardWireGen ------------------------------
(* F1 + F0 for C09: the bounded universe of API queries / multigets and of invalid documents; writer-reader law. *)
EXTENDS CardWire, Json, TLCExt, IOUtils, SequencesExt
CONSTANT Big
Seq01(S) == {<< >>} \cup {<<x>> : x \in S}
Seq02(S) == Seq01(S) \cup {<<x, y>> : x \in S, y \in S}
Tests == {"anyof", "allof", "", "bogus"}
MTs == {"equals", "contains", "starts-with", "ends-with", "", "bogus"}
Texts == {"t0", "t1", "t2"}
TMs == [text : Texts, neg : BOOLEAN, mt : MTs]
TMsSmall == [text : {"t0", "t1"}, neg : BOOLEAN, mt : {"equals", ""}]
ParamFsOf(b) == [name : {"n3"}, isnd : {TRUE}, tm : {<< >>}]
                \cup [name : {"n3"}, isnd : {FALSE}, tm : (IF b THEN Seq01(TMs) ELSE {<< >>, <<[text |-> "t2", neg |-> TRUE, mt |-> "ends-with"]>>})]
PairTMsOf(b) == IF b THEN Seq02(TMsSmall) ELSE {<<x, y>> : x \in {[text |-> "t0", neg |-> FALSE, mt |-> ""]}, y \in [text : {"t0", "t1"}, neg : BOOLEAN, mt : {"equals"}]}
PNamesOf(b) == IF b THEN {"n1", "n2"} ELSE {"n1"}
PropFsOf(b) == [name : PNamesOf(b), test : Tests, isnd : {TRUE}, tms : {<< >>}, params : {<< >>}]
               \cup [name : PNamesOf(b), test : Tests, isnd : {FALSE}, tms : PairTMsOf(b) \cup Seq01(TMs), params : Seq01(ParamFsOf(b))]
PropFs == PropFsOf(FALSE)
PropFs2 == [name : {"n1", "n2"}, test : {"", "allof"}, isnd : {TRUE}, tms : {<< >>}, params : {<< >>}]
           \cup [name : {"n1", "n2"}, test : {"", "allof"}, isnd : {FALSE}, tms : Seq01(TMsSmall), params : {<< >>, <<[name |-> "n3", isnd |-> TRUE, tm |-> << >>]>>}]
Selections == {<<TRUE, << >>>>, <<FALSE, << >>>>, <<FALSE, <<"n1">>>>, <<FALSE, <<"n2", "n1">>>>}
\* the selection / query-level dimensions against the small filter universe; in thorough runs additionally every filter of
\* the large universe (every pair of small text-matches, every text-match inside a param-filter) under one selection
Queries == {[allprop |-> s[1], props |-> s[2], test |-> t, filters |-> f, limit |-> l] :
              s \in (IF Big THEN Selections ELSE {<<TRUE, << >>>>, <<FALSE, <<"n2", "n1">>>>}), t \in Tests, f \in Seq01(PropFs), l \in {0, 7}}
           \cup (IF Big THEN {[allprop |-> FALSE, props |-> <<"n2", "n1">>, test |-> t, filters |-> <<f>>, limit |-> 7] : t \in {"", "anyof"}, f \in PropFsOf(TRUE)} ELSE {})
           \cup {[allprop |-> TRUE, props |-> << >>, test |-> t, filters |-> <<f, g>>, limit |-> 1] :
                   t \in {"", "allof"}, f \in {p \in PropFs2 : p.name = "n1"}, g \in {p \in PropFs2 : p.name = "n2" /\ (Big \/ p.test = "allof")}}
\* a conformant spelling the library's client never produces: negate-condition="no" written out (server direction only)
\* a collation named on every text-match (the API has no field for it: the request denoted is the same)
RECURSIVE WithCollation(_, _)
WithCollation(n, c) == IF IsText(n) THEN n
                       ELSE [n EXCEPT !.attrs = IF n.name = "text-match" THEN <<At("collation", c)>> \o @ ELSE @,
                                      !.kids = [i \in 1..Len(n.kids) |-> WithCollation(n.kids[i], c)]]
RECURSIVE ExplicitNo(_)
ExplicitNo(n) == IF IsText(n) THEN n
                 ELSE [n EXCEPT !.attrs = IF n.name = "text-match" /\ ~HasAttr(n, "negate-condition") THEN @ \o <<At("negate-condition", "no")>> ELSE @,
                                !.kids = [i \in 1..Len(n.kids) |-> ExplicitNo(n.kids[i])]]
AltQueries == {[q |-> q, srvonly |-> TRUE, doc |-> ExplicitNo(QueryDoc(q))] :
                 q \in {x \in Queries : x.allprop /\ x.props = << >> /\ x.limit # 7 /\ ExplicitNo(QueryDoc(x)) # QueryDoc(x)}}
              \cup {[q |-> q, srvonly |-> TRUE, doc |-> WithCollation(QueryDoc(q), c)] : c \in {"i;ascii-casemap", "i;unicode-casemap"},
                      q \in {x \in Queries : x.allprop /\ x.props = << >> /\ x.limit = 7 /\ x.test = "" /\ WithCollation(QueryDoc(x), "c") # QueryDoc(x)}}
\* an explicit limit of ZERO results: the API has no value for it (0 means "no limit" there), so the request it denotes cannot
\* be handed to the backend; what must not happen is that it arrives as an unlimited query
RECURSIVE ZeroLimit(_)
ZeroLimit(n) == IF IsText(n) THEN n ELSE IF n.name = "nresults" THEN [n EXCEPT !.kids = <<Txt("0")>>]
                ELSE [n EXCEPT !.kids = [i \in 1..Len(n.kids) |-> ZeroLimit(n.kids[i])]]
ZeroLimitQs == {[q |-> q, srvonly |-> TRUE, zerolimit |-> TRUE, doc |-> ZeroLimit(QueryDoc(q))] :
                  q \in {x \in Queries : x.limit = 7 /\ x.allprop /\ x.props = << >> /\ x.test = "" /\ Len(x.filters) <= 1 /\ ~InvalidEnums(Norm(x))}}
Hrefs == {"h1", "h2", "h3"}
Multigets == [allprop : {TRUE}, props : {<< >>}, hrefs : UNION {[1..n -> Hrefs] : n \in 1..3}]
             \cup [allprop : {FALSE}, props : {<< >>, <<"n1">>, <<"n2", "n1">>}, hrefs : {<<"h2">>, <<"h3", "h1">>}]
             \* documents that are large in size only (beyond 64 KiB): 3 000 hrefs; a match text of 100 000 characters (token "tbig")
             \cup {[allprop |-> TRUE, props |-> << >>, hrefs |-> [i \in 1..3000 |-> IF i % 3 = 0 THEN "h3" ELSE IF i % 3 = 1 THEN "h1" ELSE "h2"]]}
\* limits at integer boundaries
LimitQs == {[allprop |-> TRUE, props |-> << >>, test |-> "", filters |-> << >>, limit |-> l] : l \in {1, 2, 2147483646, 2147483647}}   \* (TLC integers are 32-bit)
BigTextQ == [allprop |-> TRUE, props |-> << >>, test |-> "allof", limit |-> 0,
             filters |-> <<[name |-> "n1", test |-> "", isnd |-> FALSE, tms |-> <<[text |-> "tbig", neg |-> TRUE, mt |-> "equals"]>>, params |-> << >>]>>]

\* documents with an attribute value outside the RFC's enumerations, or with mutually exclusive children
BaseTM == [text |-> "t1", neg |-> FALSE, mt |-> ""]
BadTM(a, v) == El(CARD, "text-match", <<At(a, v)>>, <<Txt("t1")>>)
DocWith(pfkids, pfattrs) == El(CARD, "addressbook-query", << >>,
   <<PropDoc(TRUE, << >>), El(CARD, "filter", << >>, <<El(CARD, "prop-filter", <<At("name", "n1")>> \o pfattrs, pfkids)>>)>>)
K(kind, S) == {[kind |-> kind, doc |-> d] : d \in S}
InvalidDocs ==
  K("negate-condition-value", {DocWith(<<BadTM("negate-condition", v)>>, << >>) : v \in {"maybe", "true", "1", "YES", "false", ""}})
  \cup K("match-type-value", {DocWith(<<BadTM("match-type", v)>>, << >>) : v \in {"bogus", "EQUALS", "", "regex"}})
  \cup K("param negate-condition-value", {DocWith(<<El(CARD, "param-filter", <<At("name", "n3")>>, <<BadTM("negate-condition", v)>>)>>, << >>) : v \in {"maybe", "true"}})
  \cup K("prop-filter test-value", {DocWith(<< >>, <<At("test", v)>>) : v \in {"bogus", "ANYOF", "", "oneof"}})
  \cup K("filter test-value", {El(CARD, "addressbook-query", << >>, <<PropDoc(TRUE, << >>), El(CARD, "filter", <<At("test", v)>>, << >>)>>) : v \in {"bogus", ""}})
  \* is-not-defined together with the things it excludes
  \cup K("is-not-defined with text-match", {DocWith(<<El(CARD, "is-not-defined", << >>, << >>), BadTM("match-type", "equals")>>, << >>)})
  \cup K("is-not-defined with param-filter", {DocWith(<<El(CARD, "is-not-defined", << >>, << >>), El(CARD, "param-filter", <<At("name", "n3")>>, << >>)>>, << >>)})
  \cup K("param is-not-defined with text-match", {DocWith(<<El(CARD, "param-filter", <<At("name", "n3")>>, <<El(CARD, "is-not-defined", << >>, << >>), BadTM("match-type", "equals")>>)>>, << >>)})
  \* allprop together with prop in address-data; invalid limits
  \cup K("allprop with prop", {El(CARD, "addressbook-query", << >>, <<El(DAV, "prop", << >>, <<El(CARD, "address-data", << >>, <<El(CARD, "allprop", << >>, << >>), El(CARD, "prop", <<At("name", "n1")>>, << >>)>>)>>),
                                                El(CARD, "filter", << >>, << >>)>>)})
  \cup K("multiget allprop with prop", {El(CARD, "addressbook-multiget", << >>, <<El(DAV, "prop", << >>, <<El(CARD, "address-data", << >>, <<El(CARD, "allprop", << >>, << >>), El(CARD, "prop", <<At("name", "n1")>>, << >>)>>)>>),
                                                El(DAV, "href", << >>, <<Txt("h1")>>)>>)})
  \cup K("nresults not a number", {El(CARD, "addressbook-query", << >>, <<PropDoc(TRUE, << >>), El(CARD, "filter", << >>, << >>),
                                                El(CARD, "limit", << >>, <<El(CARD, "nresults", << >>, <<Txt(v)>>)>>)>>) : v \in {"-1", "x", "1.5", "+3", "-0", "0x10", "1e2"}})
  \cup K("nresults empty", {El(CARD, "addressbook-query", << >>, <<PropDoc(TRUE, << >>), El(CARD, "filter", << >>, << >>),
                                                El(CARD, "limit", << >>, <<El(CARD, "nresults", << >>, << >>)>>)>>)})

\* ---------- F0: the RFC grammar carries everything the API can say; reader and writer agree
ASSUME \A q \in Queries \cup {BigTextQ} \cup LimitQs : QueryShape(QueryDoc(q)) /\ QueryOrder(QueryDoc(q)) /\ Denotes(QueryDoc(q)) = Norm(q)
ASSUME \A m \in Multigets : MultigetShape(MultigetDoc(m)) /\ MultigetDenotes(MultigetDoc(m)) = m
ASSUME AltQueries # {} /\ \A a \in AltQueries : QueryShape(a.doc) /\ Denotes(a.doc) = Norm(a.q)
HasBogus(q) == \/ q.test = "bogus"
               \/ \E i \in 1..Len(q.filters) :
                    \/ q.filters[i].test = "bogus"
                    \/ \E k \in 1..Len(q.filters[i].tms) : q.filters[i].tms[k].mt = "bogus"
                    \/ \E k \in 1..Len(q.filters[i].params) : \E j \in 1..Len(q.filters[i].params[k].tm) : q.filters[i].params[k].tm[j].mt = "bogus"
ASSUME \A q \in Queries : InvalidEnums(Norm(q)) = HasBogus(q)

Out == IOEnv.OUT
ASSUME ndJsonSerialize(Out \o "/queries.ndjson", SetToSeq({[a EXCEPT !.q = a.q] @@ [zerolimit |-> FALSE] : a \in AltQueries}) \o SetToSeq(ZeroLimitQs) \o SetToSeq({[q |-> q, doc |-> QueryDoc(q), srvonly |-> FALSE, zerolimit |-> FALSE] : q \in Queries \cup {BigTextQ} \cup LimitQs}))
ASSUME ndJsonSerialize(Out \o "/multigets.ndjson", SetToSeq({[m |-> m, doc |-> MultigetDoc(m)] : m \in Multigets}))
ASSUME ndJsonSerialize(Out \o "/invalid.ndjson", SetToSeq(InvalidDocs))
ASSUME ZeroLimitQs # {}
ASSUME PrintT(<<"COUNTS", Cardinality(Queries) + Cardinality(AltQueries) + Cardinality(ZeroLimitQs) + Cardinality(LimitQs) + 1, Cardinality(Multigets), Cardinality(InvalidDocs)>>)
VARIABLE x
Init == x = 0
Next == UNCHANGED x
=============================================================================

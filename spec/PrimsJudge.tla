------------------------------ MODULE PrimsJudge ------------------------------
(* F3 for C16: round trips must return the value unchanged without error; texts outside a grammar must be refused. *)
EXTENDS Naturals, Sequences, FiniteSets, TLC, Json, TLCExt, IOUtils, SequencesExt
Obs == ndJsonDeserialize(IOEnv.OBS)
OK(e) == ~e.panic /\ (IF e.k = "reject" THEN e.err /\ e.zero ELSE ~e.err /\ e.back = e.val)
Sig(e) == IF e.k = "reject" THEN "reject " \o e.prim \o (IF e.panic THEN " panic" ELSE IF ~e.err THEN " accepted-text-outside-grammar" ELSE " error-with-value")
          ELSE "roundtrip " \o e.k \o " " \o e.what \o (IF e.panic THEN " panic" ELSE IF e.err THEN " error" ELSE " value-changed")
VARIABLES l, bad
JInit == l = 1 /\ bad = 0
JNext == /\ l <= Len(Obs) /\ l' = l + 1
         /\ IF OK(Obs[l]) THEN bad' = bad ELSE bad' = bad + 1 /\ PrintT("REJECT|" \o ToString(l) \o "|C16 " \o Sig(Obs[l]))
JSpec == JInit /\ [][JNext]_<<l, bad>>
Done == (l = Len(Obs) + 1) => PrintT(<<"DONE", Len(Obs), bad>>)
=============================================================================

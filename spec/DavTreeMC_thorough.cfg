SPECIFICATION Spec
CONSTANTS
  Names = {"a", "b"}
  Contents = {"x", "y"}
  MaxDepth = 2
  Probes = 2
  MaxNodes = 99
  Slim = FALSE
  Rich = TRUE
INVARIANTS TypeOK InvWellFormed Total EmitTree
PROPERTIES FailureAtomic SuccessCodes ReadOnly
VIEW View
CHECK_DEADLOCK FALSE

SPECIFICATION Spec
CONSTANTS
  Clients = {"c1", "c2", "c3"}
  Names = {"a"}
  MaxOps = 2
  OwnDepth = 2
INVARIANTS DisjointIndependence WellFormedInv
PROPERTIES Confined
CHECK_DEADLOCK FALSE

------------------------------ MODULE CalWire ------------------------------
(***************************************************************************)
(* RFC 4791 request grammar (sections 9.5 - 9.10) over abstract XML: the   *)
(* independent writer (QueryDoc, MultigetDoc) and reader (QueryDenotes,    *)
(* MultigetDenotes) that C08 refers to.                                    *)
(*   query      [comp, filter]                                             *)
(*   comp-req   [name, allprops, props, allcomps, comps, expand]           *)
(*              expand: optional [s, e]  (instant tokens, UTC on the wire) *)
(*   comp-filter [name, isnd, tr, props, comps]; tr optional [s, e] with   *)
(*              optional ends; prop-filter [name, isnd, tr, tm, params];   *)
(*              param-filter [name, isnd, tm]; text-match [text, neg]      *)
(*   multiget   [comp, hrefs]                                              *)
(* Instants are opaque tokens: the recorder concretises a token as an      *)
(* instant given in some time zone, and reads the UTC wire text back.      *)
(***************************************************************************)
EXTENDS XmlOps

\* ---------- writer
TRDoc(tr) == El(CAL, "time-range", Opt(tr.s # << >>, At("start", IF tr.s # << >> THEN tr.s[1] ELSE "")) \o Opt(tr.e # << >>, At("end", IF tr.e # << >> THEN tr.e[1] ELSE "")), << >>)
TMDoc(tm) == El(CAL, "text-match", Opt(tm.neg, At("negate-condition", "yes")), <<Txt(tm.text)>>)
IsNd == El(CAL, "is-not-defined", << >>, << >>)
ParamDoc(pf) == El(CAL, "param-filter", <<At("name", pf.name)>>, IF pf.isnd THEN <<IsNd>> ELSE Map(pf.tm, TMDoc))
PropFDoc(pf) == El(CAL, "prop-filter", <<At("name", pf.name)>>,
                   IF pf.isnd THEN <<IsNd>> ELSE Map(pf.tr, TRDoc) \o Map(pf.tm, TMDoc) \o Map(pf.params, ParamDoc))
RECURSIVE CompFDoc(_)
CompFDoc(f) == El(CAL, "comp-filter", <<At("name", f.name)>>,
                  IF f.isnd THEN <<IsNd>> ELSE Map(f.tr, TRDoc) \o Map(f.props, PropFDoc) \o Map(f.comps, CompFDoc))
RECURSIVE CompReqDoc(_)
CompReqDoc(c) == El(CAL, "comp", <<At("name", c.name)>>,
                    (IF c.allprops THEN <<El(CAL, "allprop", << >>, << >>)>> ELSE Map(c.props, LAMBDA n : El(CAL, "prop", <<At("name", n)>>, << >>)))
                    \o (IF c.allcomps THEN <<El(CAL, "allcomp", << >>, << >>)>> ELSE Map(c.comps, CompReqDoc)))
DataDoc(c) == El(CAL, "calendar-data", << >>,
                 <<CompReqDoc(c)>> \o Map(c.expand, LAMBDA x : El(CAL, "expand", <<At("start", x.s), At("end", x.e)>>, << >>)))
PropDoc(c) == El(DAV, "prop", << >>, <<El(DAV, "getetag", << >>, << >>), DataDoc(c)>>)
QueryDoc(q) == El(CAL, "calendar-query", << >>, <<PropDoc(q.comp), El(CAL, "filter", << >>, <<CompFDoc(q.filter)>>)>>)
MultigetDoc(m) == El(CAL, "calendar-multiget", << >>, <<PropDoc(m.comp)>> \o Map(m.hrefs, LAMBDA h : El(DAV, "href", << >>, <<Txt(h)>>)))

\* ---------- reader
TROf(e) == [s |-> IF HasAttr(e, "start") THEN <<Attr(e, "start")>> ELSE << >>, e |-> IF HasAttr(e, "end") THEN <<Attr(e, "end")>> ELSE << >>]
TMOf(e) == [text |-> Chars(e), neg |-> AttrOr(e, "negate-condition", "no") = "yes"]
ParamOf(e) == [name |-> Attr(e, "name"), isnd |-> HasKid(e, CAL, "is-not-defined"), tm |-> Map(Kids(e, CAL, "text-match"), TMOf)]
PropFOf(e) == [name |-> Attr(e, "name"), isnd |-> HasKid(e, CAL, "is-not-defined"), tr |-> Map(Kids(e, CAL, "time-range"), TROf),
               tm |-> Map(Kids(e, CAL, "text-match"), TMOf), params |-> Map(Kids(e, CAL, "param-filter"), ParamOf)]
RECURSIVE CompFOf(_)
CompFOf(e) == [name |-> Attr(e, "name"), isnd |-> HasKid(e, CAL, "is-not-defined"), tr |-> Map(Kids(e, CAL, "time-range"), TROf),
               props |-> Map(Kids(e, CAL, "prop-filter"), PropFOf), comps |-> Map(Kids(e, CAL, "comp-filter"), CompFOf)]
RECURSIVE CompReqOf(_, _)
CompReqOf(e, ex) == [name |-> Attr(e, "name"), allprops |-> HasKid(e, CAL, "allprop"), props |-> Map(Kids(e, CAL, "prop"), LAMBDA p : Attr(p, "name")),
                     allcomps |-> HasKid(e, CAL, "allcomp"), comps |-> Map(Kids(e, CAL, "comp"), LAMBDA k : CompReqOf(k, << >>)), expand |-> ex]
DataEl(d) == Kids(Kids(d, DAV, "prop")[1], CAL, "calendar-data")[1]
\* RFC 4791 9.6: calendar-data (comp?, expand?): without comp everything is requested (the API then carries no component name)
DataOf(d) == LET cd == DataEl(d)
                 ex == Map(Kids(cd, CAL, "expand"), LAMBDA x : [s |-> Attr(x, "start"), e |-> Attr(x, "end")]) IN
             IF Kids(cd, CAL, "comp") = << >>
             THEN [name |-> "", allprops |-> TRUE, props |-> << >>, allcomps |-> TRUE, comps |-> << >>, expand |-> ex]
             ELSE CompReqOf(Kids(cd, CAL, "comp")[1], ex)
QueryDenotes(d) == [comp |-> DataOf(d), filter |-> CompFOf(Kids(Kids(d, CAL, "filter")[1], CAL, "comp-filter")[1])]
MultigetDenotes(d) == [comp |-> DataOf(d), hrefs |-> Map(Kids(d, DAV, "href"), Chars)]

\* ---------- shape (makes the readers total) and DTD child order
RECURSIVE NamedAll(_, _)
NamedAll(e, nm) == HasAttr(e, "name") /\ \A i \in 1..Len(Kids(e, CAL, nm)) : NamedAll(Kids(e, CAL, nm)[i], nm)
PFShape(e) == /\ HasAttr(e, "name") /\ Len(Kids(e, CAL, "time-range")) <= 1 /\ Len(Kids(e, CAL, "text-match")) <= 1
              /\ \A i \in 1..Len(Kids(e, CAL, "param-filter")) :
                   HasAttr(Kids(e, CAL, "param-filter")[i], "name") /\ Len(Kids(Kids(e, CAL, "param-filter")[i], CAL, "text-match")) <= 1
RECURSIVE CFShape(_)
CFShape(e) == /\ HasAttr(e, "name") /\ Len(Kids(e, CAL, "time-range")) <= 1
              /\ \A i \in 1..Len(Kids(e, CAL, "prop-filter")) : PFShape(Kids(e, CAL, "prop-filter")[i])
              /\ \A i \in 1..Len(Kids(e, CAL, "comp-filter")) : CFShape(Kids(e, CAL, "comp-filter")[i])
DataShape(d) == /\ Len(Kids(d, DAV, "prop")) = 1 /\ Len(Kids(Kids(d, DAV, "prop")[1], CAL, "calendar-data")) = 1
                /\ LET cd == DataEl(d) IN
                     /\ Len(Kids(cd, CAL, "comp")) <= 1 /\ Len(Kids(cd, CAL, "expand")) <= 1
                     /\ \A i \in 1..Len(Kids(cd, CAL, "expand")) : HasAttr(Kids(cd, CAL, "expand")[i], "start") /\ HasAttr(Kids(cd, CAL, "expand")[i], "end")
                     /\ \A c \in 1..Len(Kids(cd, CAL, "comp")) :
                          /\ NamedAll(Kids(cd, CAL, "comp")[c], "comp")
                          /\ \A i \in 1..Len(Kids(Kids(cd, CAL, "comp")[c], CAL, "prop")) : HasAttr(Kids(Kids(cd, CAL, "comp")[c], CAL, "prop")[i], "name")
QueryShape(d) == /\ d.ns = CAL /\ d.name = "calendar-query" /\ DataShape(d)
                 /\ Len(Kids(d, CAL, "filter")) = 1 /\ Len(Kids(Kids(d, CAL, "filter")[1], CAL, "comp-filter")) = 1
                 /\ CFShape(Kids(Kids(d, CAL, "filter")[1], CAL, "comp-filter")[1])
MultigetShape(d) == d.ns = CAL /\ d.name = "calendar-multiget" /\ DataShape(d)
\* RFC 4791 DTDs: calendar-query (prop?, filter); comp-filter (time-range?, prop-filter*, comp-filter*);
\* prop-filter ((time-range | text-match)?, param-filter*); comp ((allprop | prop*), (allcomp | comp*)); calendar-data (comp?, expand?)
RECURSIVE CFOrder(_)
CFOrder(e) == /\ Before(e, CAL, "time-range", CAL, "prop-filter") /\ Before(e, CAL, "time-range", CAL, "comp-filter")
              /\ Before(e, CAL, "prop-filter", CAL, "comp-filter")
              /\ \A i \in 1..Len(Kids(e, CAL, "prop-filter")) :
                   LET p == Kids(e, CAL, "prop-filter")[i] IN Before(p, CAL, "time-range", CAL, "param-filter") /\ Before(p, CAL, "text-match", CAL, "param-filter")
              /\ \A i \in 1..Len(Kids(e, CAL, "comp-filter")) : CFOrder(Kids(e, CAL, "comp-filter")[i])
RECURSIVE CROrder(_)
CROrder(e) == /\ Before(e, CAL, "allprop", CAL, "allcomp") /\ Before(e, CAL, "allprop", CAL, "comp")
              /\ Before(e, CAL, "prop", CAL, "allcomp") /\ Before(e, CAL, "prop", CAL, "comp")
              /\ \A i \in 1..Len(Kids(e, CAL, "comp")) : CROrder(Kids(e, CAL, "comp")[i])
QueryOrder(d) == /\ Before(d, DAV, "prop", CAL, "filter")
                 /\ CFOrder(Kids(Kids(d, CAL, "filter")[1], CAL, "comp-filter")[1])
                 /\ Before(DataEl(d), CAL, "comp", CAL, "expand") /\ \A c \in 1..Len(Kids(DataEl(d), CAL, "comp")) : CROrder(Kids(DataEl(d), CAL, "comp")[c])
=============================================================================

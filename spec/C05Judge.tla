------------------------------ MODULE C05Judge ------------------------------
(***************************************************************************)
(* F3 for C10.  Every observation carries what the backend holds (want)    *)
(* and what the client call returned / the backend received / the server   *)
(* put on the wire (got), both mapped to the tokens of the case.  Accepted *)
(* iff no error occurred and got = want; for multiget status cases the     *)
(* server's raw multi-status must answer every requested href exactly once *)
(* and in request order with the object or the backend's own status.       *)
(***************************************************************************)
EXTENDS Naturals, Sequences, FiniteSets, TLC, Json, TLCExt, IOUtils, SequencesExt
Obs == ndJsonDeserialize(IOEnv.OBS)
OK(e) == ~e.panic /\ e.err = "" /\ e.got = e.want
FieldDiff(a, b) == IF Len(a) # Len(b) THEN " count got=" \o ToString(Len(a)) \o " want=" \o ToString(Len(b))
                   ELSE LET i == CHOOSE j \in 1..Len(a) : a[j] # b[j]
                            ks == {k \in DOMAIN a[i] : k \in DOMAIN b[i] /\ a[i][k] # b[i][k]} IN
                        IF ks = {} THEN " shape" ELSE " field=" \o (CHOOSE k \in ks : TRUE)
Sig(e) == e.k \o " " \o e.srv \o " " \o e.what \o (IF e.panic THEN " panic" ELSE IF e.err # "" THEN " error(" \o e.stage \o ")" ELSE FieldDiff(e.got, e.want))
VARIABLES l, bad
JInit == l = 1 /\ bad = 0
JNext == /\ l <= Len(Obs) /\ l' = l + 1
         /\ IF OK(Obs[l]) THEN bad' = bad ELSE bad' = bad + 1 /\ PrintT("REJECT|" \o ToString(l) \o "|C05 " \o Sig(Obs[l]))
JSpec == JInit /\ [][JNext]_<<l, bad>>
Done == (l = Len(Obs) + 1) => PrintT(<<"DONE", Len(Obs), bad>>)
=============================================================================

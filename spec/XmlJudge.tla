------------------------------ MODULE XmlJudge ------------------------------
(***************************************************************************)
(* F3 for C15.  raw events: the lexical tree i was rendered, captured as a *)
(* raw value, written out again (marshal) and pushed through the token     *)
(* reader into a second raw value and out (second); each result, re-read   *)
(* by the independent reader, must equal Canon(Expand(lexical)); the token *)
(* stream must be finite, balanced, well nested and of the model's length. *)
(* typed events: decoding a typed value from the raw value must give what  *)
(* decoding the original document gives.                                   *)
(***************************************************************************)
EXTENDS Xml, Json, TLCExt, IOUtils, SequencesExt
Cases == ndJsonDeserialize(IOEnv.CASES)
Obs == ndJsonDeserialize(IOEnv.OBS)
RECURSIVE FromObs(_)
FromObs(n) == [kind |-> n.kind, ns |-> n.ns, name |-> n.name, attrs |-> {n.attrs[i] : i \in 1..Len(n.attrs)},
               kids |-> TLCEval([i \in 1..Len(n.kids) |-> FromObs(TLCEval(n.kids[i]))]), text |-> n.text]
Want(e) == Canon(Expand(Cases[e.i].lex, << >>))
\* token kinds of the model: character data and CDATA are both "text"
WantTokens(e) == Tokens(Expand(Cases[e.i].lex, << >>))
TreeOK(e, res, err) == err = "" /\ Len(res) = 1 /\ FromObs(res[1]) = Want(e)
RawOK(e) == /\ ~e.panic /\ e.origwf
            /\ TreeOK(e, e.marshal, e.merr) /\ TreeOK(e, e.second, e.serr) /\ TreeOK(e, e.embed, e.eerr) /\ TreeOK(e, e.reused, e.rerr)
            /\ e.finite /\ Balanced(e.tokens) /\ e.tokens = WantTokens(e)
\* valid documents decode, and equally both ways; for the namespace variants only the agreement is required (both fail, or
\* both yield the same value)
TypedOK(e) == ~e.panic /\ (e.valid => ~e.derr /\ ~e.rerr) /\ e.derr = e.rerr /\ (~e.derr => e.direct = e.viaraw)
Accept(e) == IF e.k = "raw" THEN RawOK(e) ELSE IF e.k = "typed" THEN TypedOK(e) ELSE FALSE

RECURSIVE HasUndecl(_), HasDefault(_), HasPfxEl(_), HasUnprefixedUnderPfx(_, _)
HasUndecl(n) == n.kind = "el" /\ ((\E i \in 1..Len(n.decls) : n.decls[i].pfx = "" /\ n.decls[i].uri = "") \/ \E i \in 1..Len(n.kids) : HasUndecl(TLCEval(n.kids[i])))
HasDefault(n) == n.kind = "el" /\ ((\E i \in 1..Len(n.decls) : n.decls[i].pfx = "" /\ n.decls[i].uri # "") \/ \E i \in 1..Len(n.kids) : HasDefault(TLCEval(n.kids[i])))
HasPfxEl(n) == n.kind = "el" /\ (n.pfx # "" \/ \E i \in 1..Len(n.kids) : HasPfxEl(TLCEval(n.kids[i])))
\* an element in no namespace below an element that is in one
HasUnprefixedUnderPfx(x, inNs) == x.kind = "el" /\ ((inNs /\ x.ns = "") \/ \E i \in 1..Len(x.kids) : HasUnprefixedUnderPfx(TLCEval(x.kids[i]), x.ns # ""))
Which(e) == IF e.panic THEN "panic" ELSE IF ~e.origwf THEN "harness-document-not-well-formed"
            ELSE IF ~TreeOK(e, e.marshal, e.merr) THEN (IF e.merr # "" THEN "marshal-output-unreadable" ELSE "marshal-tree-differs")
            ELSE IF ~TreeOK(e, e.second, e.serr) THEN (IF e.serr # "" THEN "token-reader-output-unreadable" ELSE "token-reader-tree-differs")
            ELSE IF ~TreeOK(e, e.embed, e.eerr) THEN (IF e.eerr # "" THEN "embedded-in-prop-output-unreadable" ELSE "embedded-in-prop-tree-differs")
            ELSE IF ~TreeOK(e, e.reused, e.rerr) THEN (IF e.rerr # "" THEN "captured-into-a-used-value-output-unreadable" ELSE "captured-into-a-used-value-tree-differs")
            ELSE IF ~e.finite THEN "token-stream-endless" ELSE "token-stream-differs"
Shape(e) == LET lx == Cases[e.i].lex x == Expand(lx, << >>) IN
            (IF x.ns = "" THEN " root-in-no-namespace" ELSE "") \o (IF HasUnprefixedUnderPfx(x, FALSE) THEN " no-namespace-element-below-namespaced" ELSE "")
            \o (IF HasUndecl(lx) THEN " undeclaration" ELSE "") \o (IF HasDefault(lx) THEN " default-ns" ELSE "") \o (IF HasPfxEl(lx) THEN " prefixed-element" ELSE "")
\* an element in no namespace carried inside a typed parent is the one case the raw value cannot see (its parent's default namespace)
RECURSIVE Inherit(_, _)
Inherit(n, inh) == IF n.kind # "el" THEN n
                   ELSE LET moved == n.ns = "" /\ inh IN
                        [n EXCEPT !.ns = IF moved THEN "DAV:" ELSE n.ns, !.kids = TLCEval([i \in 1..Len(n.kids) |-> Inherit(TLCEval(n.kids[i]), moved)])]
EmbedOnly(e) == TreeOK(e, e.marshal, e.merr) /\ TreeOK(e, e.second, e.serr) /\ TreeOK(e, e.reused, e.rerr) /\ ~TreeOK(e, e.embed, e.eerr) /\ e.eerr = ""
                /\ Expand(Cases[e.i].lex, << >>).ns = "" /\ Len(e.embed) = 1
                /\ FromObs(e.embed[1]) = Inherit(Want(e), TRUE)
Sig(e) == IF e.k = "raw" /\ EmbedOnly(e) THEN "raw embedded-in-prop root-in-no-namespace: the root (and no-namespace elements directly below it) inherit the typed parent's default namespace"
          ELSE IF e.k = "raw" THEN "raw " \o Which(e) \o Shape(e) ELSE "typed " \o e.name \o (IF e.derr \/ e.rerr THEN " decode-error" ELSE " differs")
VARIABLES l, bad
JInit == l = 1 /\ bad = 0
JNext == /\ l <= Len(Obs) /\ l' = l + 1
         /\ IF Accept(Obs[l]) THEN bad' = bad ELSE bad' = bad + 1 /\ PrintT("REJECT|" \o ToString(l) \o "|C15 " \o Sig(Obs[l]))
JSpec == JInit /\ [][JNext]_<<l, bad>>
Done == (l = Len(Obs) + 1) => PrintT(<<"DONE", Len(Obs), bad>>)
=============================================================================

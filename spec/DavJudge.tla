------------------------------ MODULE DavJudge ------------------------------
(***************************************************************************)
(* F3 trace specification for the WebDAV file server.  Reads observations  *)
(* recorded from the real webdav.Handler (ndjson, env OBS) and advances    *)
(* one line per step.  "tree" lines declare a pre-state; "step" lines are  *)
(* requests executed from the declared tree ("base") or from the state the *)
(* previous step left ("cur": histories, the model's tree is threaded).    *)
(* A step that no allowed outcome explains is printed as REJECT with the   *)
(* property it breaks and a signature (abstract input shape + divergence). *)
(*   C01: status/effect/report must be an outcome of DavTree.Outcomes      *)
(*   C02: status >= 400 => tree unchanged (independent of Outcomes)        *)
(*   C03: nothing outside the root changed, no canary secret disclosed     *)
(*   C17: no host path in the response                                     *)
(* "cstep" lines come from client-driven histories (clihist): the request  *)
(* was produced by a webdav.Client call.  Besides the rules above, applied *)
(* to the request actually sent,                                           *)
(*   C05: the request sent is the one the call denotes (WireOK), the call  *)
(*        fails iff the server refused, and what Stat / ReadDir / Open     *)
(*        return is exactly the model tree's content (ResultOK).           *)
(***************************************************************************)
EXTENDS DavTree, Json, TLCExt, IOUtils

Obs == ndJsonDeserialize(IOEnv.OBS)

ToTree(es) ==
  [p \in {es[i].p : i \in 1..Len(es)} |->
     LET e == es[CHOOSE i \in 1..Len(es) : es[i].p = p] IN [k |-> e.k, d |-> e.d, n |-> e.n]]

VARIABLES l, bad, base, cur, tagof
jvars == <<l, bad, base, cur, tagof>>

(***************************************************************************)
(* C04, tag agreement.  tagof maps a path to the entity tag the server has *)
(* announced for it since the resource was last written (threaded through  *)
(* histories only).  Every later announcement -- PUT, GET, HEAD response   *)
(* header or PROPFIND getetag -- for the same unmodified resource must be  *)
(* the same string.                                                        *)
(***************************************************************************)
Restrict(f, S) == [x \in (DOMAIN f) \cap S |-> f[x]]
Touched(pre, post, e) ==       \* paths whose tag may legitimately change in this step
  LET r == e.req
      p == Normalize(r.p) IN
  IF e.st >= 400 \/ e.panic THEN (IF post = pre THEN (IF e.touched THEN {p} ELSE {}) ELSE DOMAIN pre \cup DOMAIN post)
  ELSE {q \in DOMAIN pre \cup DOMAIN post :
          \/ (r.m \in {"PUT", "DELETE", "MOVE", "MKCOL"} /\ Under(q, p))
          \/ (r.m \in {"COPY", "MOVE"} /\ Under(q, Normalize(r.dp)))
          \/ (e.touched /\ q = p)}
Ann(e) ==
  LET r == e.req IN
  IF e.st >= 300 \/ e.panic THEN {}
  ELSE IF r.m \in {"GET", "HEAD", "PUT"} THEN (IF e.rep.tag # "" THEN {<<Normalize(r.p), e.rep.tag>>} ELSE {})
  ELSE IF r.m = "PROPFIND" THEN {<<Normalize(e.rep.ms[i].href), e.rep.ms[i].tag>> : i \in {j \in 1..Len(e.rep.ms) : e.rep.ms[j].tag # ""}}
  ELSE {}
TagsAgree(kept, ann) == \A a \in ann : a[1] \in DOMAIN kept => kept[a[1]] = a[2]
Bind(kept, ann) == [q \in (DOMAIN kept) \cup {a[1] : a \in ann} |->
                      IF q \in DOMAIN kept THEN kept[q] ELSE (CHOOSE a \in ann : a[1] = q)[2]]

KindX(t, p) == LET k == Kind(t, p) IN
               IF k = "c" THEN (IF Members(t, p) = {} THEN "cE" ELSE "cN") ELSE k
ParS(t, p) == IF p = Root THEN "root" ELSE IF BelowFile(t, p) THEN "belowfile"
              ELSE IF ParentAbsent(t, p) THEN "noparent" ELSE "ok"
RelS(s, d) == IF s = d THEN "same" ELSE IF StrictUnder(s, d) THEN "srcInDst"
              ELSE IF StrictUnder(d, s) THEN "dstInSrc" ELSE "disjoint"
\* effect summary: unchanged, the success effect, or the numbers of removed / added / altered paths
Num(n) == IF n > 20 THEN "many" ELSE ToString(n)     \* runaway effects (a copy into itself) differ in size from run to run
Eff(pre, post, outs) ==
  IF post = pre THEN "same"
  ELSE IF \E o \in outs : o.ok /\ o.t = post THEN "asSuccess"
  ELSE "-" \o Num(Cardinality(DOMAIN pre \ DOMAIN post))
       \o "+" \o Num(Cardinality(DOMAIN post \ DOMAIN pre))
       \o "~" \o Num(Cardinality({p \in DOMAIN pre \cap DOMAIN post : pre[p] # post[p]}))

Sig(pre, r, st, post) ==
  LET p == Normalize(r.p)
      outs == Outcomes(pre, r) IN
  r.m \o (IF r.pflag # "ok" THEN " pflag=" \o r.pflag ELSE "")
      \o " p=" \o KindX(pre, p) \o "/" \o ParS(pre, p)
      \o (IF r.m \in {"COPY", "MOVE"} THEN
            (IF r.dform \in {"path", "abs", "foreign"} THEN
               " d=" \o KindX(pre, Normalize(r.dp)) \o "/" \o ParS(pre, Normalize(r.dp)) \o " rel=" \o RelS(p, Normalize(r.dp))
             ELSE "")
            \o " dform=" \o r.dform \o " depth=" \o r.depth \o " ow=" \o r.ow
          ELSE "")
      \o (IF r.m = "PROPFIND" THEN " depth=" \o r.depth \o " form=" \o r.pform ELSE "")
      \o (IF r.m = "MKCOL" /\ r.ctype # "none" THEN " body" ELSE "")
      \o (IF r.ifm # "unset" \/ r.ifnm # "unset" THEN " ifm=" \o r.ifm \o " ifnm=" \o r.ifnm ELSE "")
      \o (IF r.fault THEN " bodyfault" ELSE "")
      \o " st=" \o ToString(st) \o " eff=" \o Eff(pre, post, outs)

Explained(pre, e, post) ==
  \E o \in Outcomes(pre, e.req) :
     /\ e.st \in o.st
     /\ post = o.t
     /\ (o.ok => ReportOK(pre, e.req, e.rep))

\* ---- C05 on client-driven steps
OkSt(st) == st >= 200 /\ st <= 299
OwSem(o) == IF o = "F" THEN "F" ELSE "T"
CopyDepthSem(d) == IF d = "0" THEN "0" ELSE "deep"
\* the checks in order; the first failing one names the divergence
WireChecks(i, w, sent) ==
  << <<"requests-sent", sent = 1>>,
     <<"method", w.m = i.m>>,
     <<"target", w.pflag = "ok" /\ Normalize(w.p) = Normalize(i.p)>>,
     <<"conditional-header", w.ifm = "unset" /\ w.ifnm = "unset">>,
     <<"content", i.m = "PUT" => w.c = i.c>>,
     <<"destination", i.m \in {"COPY", "MOVE"} => w.dform \in {"path", "abs"} /\ Normalize(w.dp) = Normalize(i.dp)>>,
     <<"overwrite", i.m \in {"COPY", "MOVE"} => w.ow \in {"absent", "T", "F"} /\ OwSem(w.ow) = OwSem(i.ow)>>,
     <<"depth", /\ (i.m = "COPY" => w.depth \in {"absent", "0", "infinity"} /\ CopyDepthSem(w.depth) = CopyDepthSem(i.depth))
                /\ (i.m = "MOVE" => w.depth \in {"absent", "infinity"})
                /\ (i.m = "PROPFIND" => w.depth = i.depth)>>,
     <<"propfind-body", i.m = "PROPFIND" => w.pform = "fileinfo">>,
     <<"mkcol-body", i.m = "MKCOL" => w.ctype = "none">> >>
ItemsOK(t, p, depth, items) ==
  LET S == Scope(t, p, depth) IN
  /\ p \in DOMAIN t
  /\ Len(items) = Cardinality(S)
  /\ \A j \in 1..Len(items) : items[j].hflag = "ok"
  /\ {Normalize(items[j].p) : j \in 1..Len(items)} = S
  /\ \A j \in 1..Len(items) :
       LET q == Normalize(items[j].p) IN
       q \in DOMAIN t => /\ items[j].k = t[q].k
                         /\ (t[q].k = "f" => items[j].len = t[q].n /\ items[j].etag # "" /\ items[j].mtime)
ResultChecks(pre, e) ==
  LET i == e.intent
      c == e.cres
      p == Normalize(i.p) IN
  << <<"error-iff-refused", c.err = ~OkSt(e.st)>>,
     <<"open-content", (~c.err /\ i.m = "GET") => (p \in DOMAIN pre /\ pre[p].k = "f" /\ c.body = pre[p].d)>>,
     <<"listing", (~c.err /\ i.m = "PROPFIND") => ItemsOK(pre, p, i.depth, c.items)>> >>
FirstFail(cs) == IF \A j \in 1..Len(cs) : cs[j][2] THEN "" ELSE cs[CHOOSE j \in 1..Len(cs) : ~cs[j][2] /\ \A k \in 1..(j - 1) : cs[k][2]][1]
ClientWhy(pre, e) == LET w == FirstFail(WireChecks(e.intent, e.req, e.cres.sent)) IN
                     IF w # "" THEN "wire:" \o w ELSE LET r == FirstFail(ResultChecks(pre, e)) IN IF r # "" THEN "result:" \o r ELSE ""

JInit == l = 1 /\ bad = 0 /\ base = (Root :> Coll) /\ cur = (Root :> Coll) /\ tagof = << >>

StepTree(e) ==
  /\ e.k = "tree"
  /\ base' = ToTree(e.t) /\ cur' = ToTree(e.t) /\ bad' = bad /\ tagof' = << >>

\* a step whose header class could not be established by the recorder is threaded but not judged
StepSkipped(e) ==
  /\ e.k = "step" /\ e.skip # ""
  /\ cur' = (IF e.same THEN (IF e.from = "base" THEN base ELSE cur) ELSE ToTree(e.post))
  /\ base' = base /\ bad' = bad /\ tagof' = << >>

StepReq(e) ==
  /\ e.k \in {"step", "cstep"} /\ e.skip = ""
  /\ LET pre == IF e.from = "base" THEN base ELSE cur
         post == IF e.same THEN pre ELSE ToTree(e.post)
         c01 == ~e.panic /\ Explained(pre, e, post)
         c02 == (e.st >= 400 \/ e.panic) => post = pre
         c03 == e.outside = "same" /\ ~e.secret
         c17 == ~e.leak
         kept == IF e.from = "base" THEN << >> ELSE Restrict(tagof, (DOMAIN tagof) \ Touched(pre, post, e))
         ann == IF e.from = "base" THEN {} ELSE Ann(e)
         c04 == TagsAgree(kept, ann)
         sig == Sig(pre, e.req, e.st, post)
         why05 == IF e.k = "cstep" THEN ClientWhy(pre, e) ELSE ""
         c05 == why05 = ""
         nb == (IF c01 THEN 0 ELSE 1) + (IF c02 THEN 0 ELSE 1) + (IF c03 THEN 0 ELSE 1) + (IF c17 THEN 0 ELSE 1) + (IF c04 THEN 0 ELSE 1) + (IF c05 THEN 0 ELSE 1)
     \* NOTE: the printing disjunctions must come after every primed variable is assigned; before that TLC
     \* treats "c \/ PrintT(..)" as an action-level disjunction and explores (prints) both branches.
     IN /\ cur' = post
        /\ tagof' = (IF c04 THEN Bind(kept, ann) ELSE Bind(<< >>, ann))
        /\ base' = base
        /\ bad' = bad + nb
        /\ (c01 \/ PrintT("REJECT|" \o ToString(l) \o "|" \o "C01 " \o sig))
        /\ (c02 \/ PrintT("REJECT|" \o ToString(l) \o "|" \o "C02 " \o sig))
        /\ (c03 \/ PrintT("REJECT|" \o ToString(l) \o "|" \o "C03 " \o sig \o " outside=" \o e.outside \o (IF e.secret THEN " secret" ELSE "")))
        /\ (c17 \/ PrintT("REJECT|" \o ToString(l) \o "|" \o "C17 " \o sig))
        /\ (c04 \/ PrintT("REJECT|" \o ToString(l) \o "|" \o "C04 tag-changed-without-write " \o sig))
        /\ (c05 \/ PrintT("REJECT|" \o ToString(l) \o "|" \o "C05 client " \o e.cres.op \o " " \o why05 \o " " \o Sig(pre, e.intent, e.st, post)))

JNext == /\ l <= Len(Obs)
         /\ l' = l + 1
         /\ (StepTree(Obs[l]) \/ StepReq(Obs[l]) \/ StepSkipped(Obs[l]))
JSpec == JInit /\ [][JNext]_jvars
Done == (l = Len(Obs) + 1) => PrintT(<<"DONE", Len(Obs), bad>>)
=============================================================================

------------------------------ MODULE DavJudge ------------------------------
(***************************************************************************)
(* F3 trace specification for the WebDAV file server.  Reads observations  *)
(* recorded from the real webdav.Handler (ndjson, env OBS) and advances    *)
(* one line per step.  "tree" lines declare a pre-state; "step" lines are  *)
(* requests executed from the declared tree ("base") or from the state the *)
(* previous step left ("cur": histories, the model's tree is threaded).    *)
(* A step that no allowed outcome explains is printed as REJECT with the   *)
(* property it breaks and a signature (abstract input shape + divergence). *)
(*   C01: status/effect/report must be an outcome of DavTree.Outcomes      *)
(*   C02: status >= 400 => tree unchanged (independent of Outcomes)        *)
(*   C03: nothing outside the root changed, no canary secret disclosed     *)
(*   C17: no host path in the response                                     *)
(***************************************************************************)
EXTENDS DavTree, Json, TLCExt, IOUtils

Obs == ndJsonDeserialize(IOEnv.OBS)

ToTree(es) ==
  [p \in {es[i].p : i \in 1..Len(es)} |->
     LET e == es[CHOOSE i \in 1..Len(es) : es[i].p = p] IN [k |-> e.k, d |-> e.d, n |-> e.n]]

VARIABLES l, bad, base, cur
jvars == <<l, bad, base, cur>>

KindX(t, p) == LET k == Kind(t, p) IN
               IF k = "c" THEN (IF Members(t, p) = {} THEN "cE" ELSE "cN") ELSE k
ParS(t, p) == IF p = Root THEN "root" ELSE IF BelowFile(t, p) THEN "belowfile"
              ELSE IF ParentAbsent(t, p) THEN "noparent" ELSE "ok"
RelS(s, d) == IF s = d THEN "same" ELSE IF StrictUnder(s, d) THEN "srcInDst"
              ELSE IF StrictUnder(d, s) THEN "dstInSrc" ELSE "disjoint"
\* effect summary: unchanged, the success effect, or the numbers of removed / added / altered paths
Eff(pre, post, outs) ==
  IF post = pre THEN "same"
  ELSE IF \E o \in outs : o.ok /\ o.t = post THEN "asSuccess"
  ELSE "-" \o ToString(Cardinality(DOMAIN pre \ DOMAIN post))
       \o "+" \o ToString(Cardinality(DOMAIN post \ DOMAIN pre))
       \o "~" \o ToString(Cardinality({p \in DOMAIN pre \cap DOMAIN post : pre[p] # post[p]}))

Sig(pre, r, st, post) ==
  LET p == Normalize(r.p)
      outs == Outcomes(pre, r) IN
  r.m \o (IF r.pflag # "ok" THEN " pflag=" \o r.pflag ELSE "")
      \o " p=" \o KindX(pre, p) \o "/" \o ParS(pre, p)
      \o (IF r.m \in {"COPY", "MOVE"} THEN
            (IF r.dform \in {"path", "abs", "foreign"} THEN
               " d=" \o KindX(pre, Normalize(r.dp)) \o "/" \o ParS(pre, Normalize(r.dp)) \o " rel=" \o RelS(p, Normalize(r.dp))
             ELSE "")
            \o " dform=" \o r.dform \o " depth=" \o r.depth \o " ow=" \o r.ow
          ELSE "")
      \o (IF r.m = "PROPFIND" THEN " depth=" \o r.depth \o " form=" \o r.pform ELSE "")
      \o (IF r.m = "MKCOL" /\ r.ctype # "none" THEN " body" ELSE "")
      \o (IF r.ifm # "unset" \/ r.ifnm # "unset" THEN " ifm=" \o r.ifm \o " ifnm=" \o r.ifnm ELSE "")
      \o (IF r.fault THEN " bodyfault" ELSE "")
      \o " st=" \o ToString(st) \o " eff=" \o Eff(pre, post, outs)

Explained(pre, e, post) ==
  \E o \in Outcomes(pre, e.req) :
     /\ e.st \in o.st
     /\ post = o.t
     /\ (o.ok => ReportOK(pre, e.req, e.rep))

JInit == l = 1 /\ bad = 0 /\ base = (Root :> Coll) /\ cur = (Root :> Coll)

StepTree(e) ==
  /\ e.k = "tree"
  /\ base' = ToTree(e.t) /\ cur' = ToTree(e.t) /\ bad' = bad

StepReq(e) ==
  /\ e.k = "step"
  /\ LET pre == IF e.from = "base" THEN base ELSE cur
         post == IF e.same THEN pre ELSE ToTree(e.post)
         c01 == ~e.panic /\ Explained(pre, e, post)
         c02 == (e.st >= 400 \/ e.panic) => post = pre
         c03 == e.outside = "same" /\ ~e.secret
         c17 == ~e.leak
         sig == Sig(pre, e.req, e.st, post)
         nb == (IF c01 THEN 0 ELSE 1) + (IF c02 THEN 0 ELSE 1) + (IF c03 THEN 0 ELSE 1) + (IF c17 THEN 0 ELSE 1)
     IN /\ cur' = post
        /\ base' = base
        /\ bad' = bad + nb
        /\ (c01 \/ PrintT("REJECT|" \o ToString(l) \o "|" \o "C01 " \o sig))
        /\ (c02 \/ PrintT("REJECT|" \o ToString(l) \o "|" \o "C02 " \o sig))
        /\ (c03 \/ PrintT("REJECT|" \o ToString(l) \o "|" \o "C03 " \o sig \o " outside=" \o e.outside \o (IF e.secret THEN " secret" ELSE "")))
        /\ (c17 \/ PrintT("REJECT|" \o ToString(l) \o "|" \o "C17 " \o sig))

JNext == /\ l <= Len(Obs)
         /\ l' = l + 1
         /\ (StepTree(Obs[l]) \/ StepReq(Obs[l]))
JSpec == JInit /\ [][JNext]_jvars
Done == (l = Len(Obs) + 1) => PrintT(<<"DONE", Len(Obs), bad>>)
=============================================================================

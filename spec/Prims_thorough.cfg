INIT Init
NEXT Next
CONSTANTS MaxLen = 3
 AllCodes = TRUE

------------------------------ MODULE DavPairs ------------------------------
(***************************************************************************)
(* F1: two-step histories "transfer, then write".  For a few trees, every  *)
(* COPY / MOVE the model carries out is followed by every PUT / DELETE on  *)
(* its source, its destination and everything below them in the resulting  *)
(* tree, and by a full listing.  What a transfer leaves behind must be     *)
(* independent resources: a later write to one side must not show on the   *)
(* other (no shared storage between source and copy).                      *)
(***************************************************************************)
EXTENDS DavTreeMC
F(c) == [k |-> "f", d |-> c, n |-> 0]
T1 == (Root :> Coll) @@ (<<"a">> :> F("x")) @@ (<<"b">> :> Coll) @@ (<<"b", "a">> :> F("y"))
T2 == (Root :> Coll) @@ (<<"a">> :> Coll) @@ (<<"a", "a">> :> F("x")) @@ (<<"a", "b">> :> Coll) @@ (<<"a", "b", "a">> :> F("y")) @@ (<<"b">> :> F(""))
Trees0 == {T1, T2}
Near(t) == {Root} \cup DOMAIN t \cup {Append(q, n) : q \in {x \in DOMAIN t : t[x].k = "c" /\ Len(x) < 3}, n \in Names}
Transfers(t) == {[Base(m, p) EXCEPT !.dform = "path", !.dp = q, !.depth = d, !.ow = o] :
                   m \in {"COPY", "MOVE"}, p \in DOMAIN t \ {Root}, q \in Near(t) \ {Root}, d \in {"absent", "0"}, o \in {"T", "F"}}
Writes(t, r) == LET near == {x \in DOMAIN t : Under(x, r.p) \/ Under(x, r.dp)} IN
                {[Base("PUT", q) EXCEPT !.c = c] : q \in {x \in near : t[x].k = "f"}, c \in {"x", "y"}}
                \cup {Base("DELETE", q) : q \in near}
List == [Base("PROPFIND", Root) EXCEPT !.depth = "infinity", !.pform = "fileinfo"]
Pairs == UNION {UNION {UNION {{[init |-> SetToSeq(Entries(t)), reqs |-> <<r, w, List>>] : w \in Writes(o.t, r)} : o \in {x \in Outcomes(t, r) : x.ok}}
                       : r \in {x \in Transfers(t) : x.m = "COPY" \/ x.depth = "absent"}} : t \in Trees0}
ASSUME \A t \in Trees0 : WellFormed(t)
ASSUME Pairs # {}
ASSUME ndJsonSerialize(IOEnv.PAIRSOUT, SetToSeq(Pairs))
ASSUME PrintT(<<"NPAIRS", Cardinality(Pairs)>>)
=============================================================================

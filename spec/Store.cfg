SPECIFICATION Spec
CONSTANTS
  Cols = {"c1", "c3"}
  Names = {"o1", "o2"}
  Datas = {"d1", "d2"}
  Filters = {"all", "t1", "none"}
  MaxRev = 4
  HistLen = 0
  Sim = FALSE
INVARIANTS TypeOK TagsFresh WellFormed
PROPERTIES Pure ReadYourWrite QuerySound NewTag
CHECK_DEADLOCK FALSE

------------------------------ MODULE DavSim ------------------------------
(* F1 (iii): request histories by TLC simulation over a larger instance, biased towards requests *)
(* that address mapped resources or their would-be children (the failing rest is covered by the *)
(* exhaustive product).  The history is printed as JSON when it reaches HistLen.                *)
EXTENDS DavTreeMC
CONSTANTS HistLen, CondMix, ClientMix
VARIABLE hist
\* paths worth addressing in state t: mapped ones and the would-be children of collections
NearPaths(t) == {Root} \cup DOMAIN t
                \cup {Append(q, n) : q \in {x \in DOMAIN t : t[x].k = "c" /\ Len(x) < MaxDepth}, n \in Names}
CondFor(k) == IF k = "f" THEN {"unset", "unset", "star", "cur", "cur", "stale", "other", "bad"} ELSE {"unset", "unset", "star", "other", "bad"}
\* ClientMix: only what webdav.Client can express -- Create, RemoveAll, Mkdir, Copy (Depth 0 | infinity, Overwrite T | F), Move
\* (Overwrite T | F), Open, Stat (PROPFIND Depth 0), ReadDir (Depth 1 | infinity); the recorder performs the client call and
\* the judge compares the request actually sent with this one (C05)
ClientReq(t) ==
  LET m == RandomElement({"PUT", "PUT", "PUT", "MKCOL", "MKCOL", "DELETE", "COPY", "COPY", "MOVE", "MOVE", "GET", "GET", "PROPFIND", "PROPFIND", "PROPFIND"})
      p == RandomElement(NearPaths(t))
      b == [Base(m, p) EXCEPT !.c = IF m = "PUT" THEN RandomElement(Contents) ELSE ""]
  IN CASE m = "COPY" -> [b EXCEPT !.dform = "path", !.dp = RandomElement(NearPaths(t)), !.depth = RandomElement({"0", "infinity"}), !.ow = RandomElement({"T", "F"})]
       [] m = "MOVE" -> [b EXCEPT !.dform = "path", !.dp = RandomElement(NearPaths(t)), !.ow = RandomElement({"T", "F"})]
       [] m = "PROPFIND" -> [b EXCEPT !.depth = RandomElement({"0", "1", "infinity"}), !.pform = "fileinfo"]
       [] OTHER -> b
\* after a COPY or MOVE, every other request goes to its source, its destination or something below them (what the transfer
\* left behind must be independent resources: a later write to one side must not show on the other)
FollowUp(t, lr) ==
  LET near == {lr.p, lr.dp} \cup {x \in DOMAIN t : Under(x, lr.p) \/ Under(x, lr.dp)}
      q == RandomElement(near)
      m == RandomElement({"PUT", "DELETE", "PROPFIND", "GET"})
      b == [Base(m, q) EXCEPT !.c = IF m = "PUT" THEN RandomElement(Contents) ELSE ""]
  IN IF m = "PROPFIND" THEN [b EXCEPT !.depth = RandomElement({"0", "1", "infinity"}), !.pform = "fileinfo"] ELSE b
GenReq(t) ==
  IF ClientMix THEN ClientReq(t) ELSE
  LET m == RandomElement(IF CondMix THEN {"PUT", "PUT", "PUT", "DELETE", "DELETE", "MKCOL", "COPY", "MOVE", "GET", "GET", "HEAD", "HEAD", "PROPFIND", "PROPFIND"}
                         ELSE {"PUT", "PUT", "MKCOL", "MKCOL", "DELETE", "COPY", "COPY", "MOVE", "MOVE", "GET", "HEAD", "OPTIONS", "PROPFIND"})
      p == RandomElement(NearPaths(t))
      b == [Base(m, p) EXCEPT !.c = IF m = "PUT" THEN RandomElement(Contents) ELSE ""]
  IN CASE m \in {"COPY", "MOVE"} ->
            [b EXCEPT !.dform = "path", !.dp = RandomElement(NearPaths(t)),
                      !.depth = RandomElement(IF m = "COPY" THEN {"absent", "0", "infinity"} ELSE {"absent", "infinity"}),
                      !.ow = RandomElement({"absent", "T", "F"})]
       [] m = "PROPFIND" -> [b EXCEPT !.depth = RandomElement({"absent", "0", "1", "infinity"}), !.pform = RandomElement({"empty", "fileinfo"})]
       [] m \in {"PUT", "DELETE"} /\ CondMix ->
            [b EXCEPT !.ifm = RandomElement(CondFor(Kind(t, p))), !.ifnm = RandomElement(CondFor(Kind(t, p)))]
       [] OTHER -> b
SInit == Init /\ hist = << >>
\* one random successor per step (RandomElement draws from TLC's seeded generator): cheap simulation
SNext == /\ Len(hist) < HistLen
         /\ \E r \in {IF hist # << >> /\ hist[Len(hist)].m \in {"COPY", "MOVE"} /\ hist[Len(hist)].dform = "path" /\ RandomElement(1..2) = 1
                        THEN FollowUp(tree, hist[Len(hist)]) ELSE GenReq(tree)} : \E o \in {RandomElement(Outcomes(tree, r))} :
              /\ tree' = (IF TooDeep(o.t) THEN tree ELSE o.t)
              /\ last' = [ok |-> o.ok, st |-> o.st, m |-> r.m, cond |-> TRUE]
              /\ hist' = IF TooDeep(o.t) THEN hist ELSE Append(hist, r)
SSpec == SInit /\ [][SNext]_<<tree, last, hist>>
EmitHist == (Len(hist) = HistLen) => PrintT(<<"HIST", ToJson(hist)>>)
=============================================================================

------------------------------ MODULE HierJudge ------------------------------
(***************************************************************************)
(* F3 for C11 / C12.  Events:                                              *)
(*  route  one request under a mount prefix: Hier.RouteOK                  *)
(*  chain  the real client's discovery chain against the backend's layout  *)
(*  pf     PROPFIND accounting: propname / allprop / prop(names) answers   *)
(*         of one resource at one Depth: scope, one href per response,     *)
(*         per-property accounting, 207, well-formed namespace-correct XML *)
(***************************************************************************)
EXTENDS Hier, Json, TLCExt, IOUtils, SequencesExt
Obs == ndJsonDeserialize(IOEnv.OBS)
Prop == IOEnv.PROP      \* "C11" | "C12": which property's events this run judges

ChainOK(e) == /\ e.err = ""
              /\ e.principal = e.wprincipal /\ e.home = e.whome
              /\ e.principal2 = e.wprincipal2        \* a second user, same handler, same starting point
              /\ e.cols = e.wcols
              /\ e.objs = e.wobjs

\* ---- C11
DavScope(res, d) == IF res = "dir" THEN {"dir"} \cup (IF d # "0" THEN {"dir/f1", "dir/sub"} ELSE {}) \cup (IF Deep(d) THEN {"dir/sub/f2"} ELSE {})
                    ELSE {res}
WantScope(e) == IF e.srv = "dav" THEN DavScope(e.res, e.depth)
                ELSE IF e.srv = "principal" THEN {"P"}
                ELSE Scope(e.res, e.depth, [ncol |-> e.ncol, nobj |-> e.nobj])
ResIds(a) == [i \in 1..Len(a.resps) |-> a.resps[i].res]
\* every answer: 207, well-formed, namespace-correct, exactly one response per resource in scope, one href each
ShapeOK(e, a) == /\ a.st = 207 /\ ~a.panic /\ a.wf /\ a.nsok
                 /\ \A i \in 1..Len(a.resps) : a.resps[i].nhref = 1
                 /\ IF e.res = "ROOT" THEN Len(a.resps) = 1          \* the root answers as the principal (named deviation): count rules only
                    ELSE SetOf(ResIds(a)) = WantScope(e) /\ Len(a.resps) = Cardinality(WantScope(e))
\* the three answers agree resource by resource
RespOf(a, r) == a.resps[CHOOSE i \in 1..Len(a.resps) : a.resps[i].res = r].props
AcctOK(e) == \A i \in 1..Len(e.propname.resps) :
               LET r == e.propname.resps[i].res
                   avail == e.propname.resps[i].props IN
               /\ PropNameOK(avail)
               /\ MustHave(e.srv, r, [ncol |-> e.ncol, nobj |-> e.nobj]) \subseteq Names(avail)
               /\ (\E j \in 1..Len(e.allprop.resps) : e.allprop.resps[j].res = r) /\ AllPropOK(RespOf(e.allprop, r), avail)
               /\ (\E j \in 1..Len(e.prop.resps) : e.prop.resps[j].res = r) /\ PropOK(RespOf(e.prop, r), e.names, avail)
               /\ (e.depth = "0" /\ i = 1 => Len(e.emptybody.resps) >= 1 /\ AllPropOK(e.emptybody.resps[1].props, avail))
PfOK(e) == /\ ShapeOK(e, e.propname) /\ ShapeOK(e, e.allprop) /\ ShapeOK(e, e.prop)
           /\ e.emptybody.st = 207 /\ e.emptybody.wf
           /\ e.noform = 400
           /\ AcctOK(e)

Accept(e) == CASE e.k = "route" -> ~e.panic /\ RouteOK(e)
               [] e.k = "chain" -> ChainOK(e)
               [] e.k = "pf" -> PfOK(e)
               [] OTHER -> FALSE
LevelName(n) == IF n = 0 THEN "root" ELSE IF n = 1 THEN "principal" ELSE IF n = 2 THEN "homeset" ELSE IF n = 3 THEN "collection" ELSE IF n = 4 THEN "object" ELSE "deeper"
B(b) == IF b THEN "T" ELSE "F"
PfWhy(e) == IF ~(ShapeOK(e, e.propname) /\ ShapeOK(e, e.allprop) /\ ShapeOK(e, e.prop)) THEN
               (IF e.prop.st # 207 THEN "status=" \o ToString(e.prop.st)
                ELSE IF ~(e.prop.wf /\ e.prop.nsok /\ e.allprop.wf /\ e.allprop.nsok /\ e.propname.wf /\ e.propname.nsok) THEN "malformed-xml"
                ELSE IF \E i \in 1..Len(e.prop.resps) : e.prop.resps[i].nhref # 1 THEN "href-count"
                ELSE "scope got=" \o ToString(Len(e.prop.resps)) \o " want=" \o ToString(Cardinality(WantScope(e))))
            ELSE IF e.noform # 400 THEN "no-form-not-400 st=" \o ToString(e.noform)
            ELSE IF e.emptybody.st # 207 THEN "empty-body st=" \o ToString(e.emptybody.st)
            ELSE IF \E i \in 1..Len(e.propname.resps) : ~(MustHave(e.srv, e.propname.resps[i].res, [ncol |-> e.ncol, nobj |-> e.nobj]) \subseteq Names(e.propname.resps[i].props))
                 THEN "property-of-the-resource-not-available"
            ELSE IF \E i \in 1..Len(e.prop.resps) : ~Once(e.prop.resps[i].props) THEN "property-accounted-more-than-once"
            ELSE IF \E i \in 1..Len(e.prop.resps) : Names(e.prop.resps[i].props) # SetOf(e.names) THEN "requested-names-not-all-accounted"
            ELSE "accounting-inconsistent"
Sig(e) == CASE e.k = "route" -> "route " \o e.srv \o " " \o e.m \o " level=" \o LevelName(Len(e.path)) \o " own=" \o B(e.own) \o " prefixlen=" \o ToString(e.plen)
                                \o " ptrail=" \o B(e.ptrail) \o " rtrail=" \o B(e.rtrail) \o (IF e.m = "PROPFIND" THEN " depth=" \o e.depth ELSE "") \o " seg=" \o e.seg
                                \o " st=" \o ToString(e.st)
            [] e.k = "chain" -> "chain " \o e.srv \o " start=" \o e.start \o " prefixlen=" \o ToString(e.plen) \o " ptrail=" \o B(e.ptrail) \o " seg=" \o e.seg \o
                                (IF e.err # "" THEN " error" ELSE IF e.principal # e.wprincipal THEN " principal" ELSE IF e.principal2 # e.wprincipal2 THEN " principal-of-second-user" ELSE IF e.home # e.whome THEN " homeset"
                                 ELSE IF e.cols # e.wcols THEN " collections" ELSE " objects")
            [] e.k = "pf" -> "propfind " \o e.srv \o " res=" \o e.res \o " depth=" \o e.depth \o " " \o PfWhy(e)
            [] OTHER -> "unknown-event"
Mine(e) == IF Prop = "C11" THEN e.k = "pf" ELSE e.k \in {"route", "chain"}

VARIABLES l, bad
JInit == l = 1 /\ bad = 0
JNext == /\ l <= Len(Obs) /\ l' = l + 1
         /\ IF ~Mine(Obs[l]) \/ Accept(Obs[l]) THEN bad' = bad
            ELSE bad' = bad + 1 /\ PrintT("REJECT|" \o ToString(l) \o "|" \o Prop \o " " \o Sig(Obs[l]))
JSpec == JInit /\ [][JNext]_<<l, bad>>
Done == (l = Len(Obs) + 1) => PrintT(<<"DONE", Len(Obs), bad>>)
=============================================================================

------------------------------ MODULE SyncOps ------------------------------
(***************************************************************************)
(* RFC 6578 collection synchronisation as the CardDAV client of the        *)
(* library drives it (C10: SyncCollection yields equal values; C14: a 404  *)
(* resource is a deletion, any other failing resource an error).           *)
(*                                                                         *)
(* Server side W = [store, log, rev]: store maps a member name to the      *)
(* revision that wrote it; log is the sequence of changes [n, set]; the    *)
(* sync token handed out after k changes stands for k.  Client side        *)
(* C = [rep, tok]: the replica a caller keeps by applying each answer, and *)
(* the token of its last successful synchronisation (0 = never).           *)
(***************************************************************************)
EXTENDS Naturals, Sequences, FiniteSets, TLC
Range(s) == {s[i] : i \in 1..Len(s)}
W0 == [store |-> << >>, log |-> << >>, rev |-> 0]
C0 == [rep |-> << >>, tok |-> 0]
Drop(f, n) == [x \in (DOMAIN f) \ {n} |-> f[x]]
Set(f, n, v) == [x \in (DOMAIN f) \cup {n} |-> IF x = n THEN v ELSE f[x]]
SrvPut(W, n) == [W EXCEPT !.rev = W.rev + 1, !.store = Set(W.store, n, W.rev + 1), !.log = Append(W.log, [n |-> n, set |-> TRUE])]
SrvDel(W, n) == IF n \in DOMAIN W.store THEN [W EXCEPT !.store = Drop(W.store, n), !.log = Append(W.log, [n |-> n, set |-> FALSE])] ELSE W
\* did member n exist after the first k changes?
ExistedAt(W, k, n) == LET is == {i \in 1..k : W.log[i].n = n} IN is # {} /\ W.log[CHOOSE i \in is : \A j \in is : j <= i].set
Changed(W, since) == {W.log[i].n : i \in (since + 1)..Len(W.log)}
\* members to report as changed / removed since token `since` (a member created and removed in between is not mentioned)
Upd(W, since) == {n \in Changed(W, since) : n \in DOMAIN W.store}
Del(W, since) == {n \in Changed(W, since) : n \notin DOMAIN W.store /\ ExistedAt(W, since, n)}
\* the server truncates (507 on the collection) when more changes are due than the client allows
Truncated(W, since, lim) == lim > 0 /\ Cardinality(Upd(W, since)) + Cardinality(Del(W, since)) > lim
\* what SyncCollection must return: [err, code, tok, upd (set of [n, e]), del (set of names)]
Answer(W, since, lim) ==
  IF Truncated(W, since, lim) THEN [err |-> TRUE, code |-> 507, tok |-> 0, upd |-> {}, del |-> {}]
  ELSE [err |-> FALSE, code |-> 0, tok |-> Len(W.log), upd |-> {[n |-> n, e |-> W.store[n]] : n \in Upd(W, since)}, del |-> Del(W, since)]
\* the caller applies an answer to its replica
Apply(C, a) == IF a.err THEN C
               ELSE LET kept == [x \in (DOMAIN C.rep) \ a.del |-> C.rep[x]]
                        names == (DOMAIN kept) \cup {u.n : u \in a.upd} IN
                    [rep |-> [x \in names |-> IF \E u \in a.upd : u.n = x THEN (CHOOSE u \in a.upd : u.n = x).e ELSE kept[x]], tok |-> a.tok]
\* the request the client must put on the wire: the caller's token unchanged, sync-level 1, a limit element iff a positive limit is asked for
WireOK(C, lim, req) == req.tok = C.tok /\ req.level = "1" /\ req.lim = (IF lim > 0 THEN lim ELSE 0) /\ req.nprop >= 1
\* observed answer (sequences) against the expected one (sets; order within the answer is the server's)
SeqIsSet(s, S) == Len(s) = Cardinality(S) /\ Range(s) = S
AnswerOK(want, got) == /\ got.err = want.err
                       /\ want.err => got.code = want.code
                       /\ ~want.err => got.tok = want.tok /\ SeqIsSet(got.upd, want.upd) /\ SeqIsSet(got.del, want.del)
AsFn(rows) == [x \in {r.n : r \in Range(rows)} |-> (CHOOSE r \in Range(rows) : r.n = x).e]
Why(C, lim, want, e) ==
  IF ~WireOK(C, lim, e.req) THEN (IF e.req.tok # C.tok THEN "wire:token" ELSE IF e.req.level # "1" THEN "wire:level" ELSE IF e.req.nprop < 1 THEN "wire:prop" ELSE "wire:limit")
  ELSE IF e.res.err # want.err THEN (IF e.res.err THEN "unexpected-error" ELSE "no-error")
  ELSE IF want.err THEN "code"
  ELSE IF e.res.tok # want.tok THEN "token"
  ELSE IF ~SeqIsSet(e.res.del, want.del) THEN "deleted"
  ELSE IF ~SeqIsSet(e.res.upd, want.upd) THEN "updated"
  ELSE "replica"
=============================================================================

module verif/harness

go 1.21

require (
	github.com/emersion/go-ical v0.0.0-20240127095438-fc1c9d8fb2b6
	github.com/emersion/go-vcard v0.0.0-20230815062825-8fda7d206ec9
	github.com/emersion/go-webdav v0.0.0
)

require github.com/teambition/rrule-go v1.8.2 // indirect

replace github.com/emersion/go-webdav => /repo

// Package backends provides thread-safe recording doubles for caldav.Backend, carddav.Backend and an in-memory
// webdav.FileSystem that can hold arbitrary metadata. They log every call with its arguments (lexically) and
// answer from a fixed layout; they never interpret filters or preconditions.
package backends

import (
	"bytes"
	"context"
	"fmt"
	"io"
	"net/http"
	"sort"
	"strings"
	"sync"
	"time"

	"github.com/emersion/go-ical"
	"github.com/emersion/go-vcard"
	webdav "github.com/emersion/go-webdav"
	"github.com/emersion/go-webdav/caldav"
	"github.com/emersion/go-webdav/carddav"
)

// Call is one recorded backend invocation.
type Call struct {
	Op   string      `json:"op"`
	Path string      `json:"path"`
	Arg  interface{} `json:"arg,omitempty"`
}

type Log struct {
	mu    sync.Mutex
	Calls []Call
	mu2      sync.Mutex
	failNext map[string]error
}

// FailOnce: the next call of the named backend operation fails with the given error (store histories: backend faults)
func (l *Log) FailOnce(op string, err error) {
	l.mu2.Lock()
	defer l.mu2.Unlock()
	if l.failNext == nil {
		l.failNext = map[string]error{}
	}
	l.failNext[op] = err
}

// FailPending reports whether an injected fault has not been consumed yet
func (l *Log) FailPending() bool {
	l.mu2.Lock()
	defer l.mu2.Unlock()
	return len(l.failNext) > 0
}

// ClearFail drops injected faults that were not consumed
func (l *Log) ClearFail() {
	l.mu2.Lock()
	defer l.mu2.Unlock()
	l.failNext = nil
}

func (l *Log) takeFail(op string) error {
	l.mu2.Lock()
	defer l.mu2.Unlock()
	if err, ok := l.failNext[op]; ok {
		delete(l.failNext, op)
		return err
	}
	return nil
}

func (l *Log) add(op, path string, arg interface{}) {
	l.mu.Lock()
	l.Calls = append(l.Calls, Call{Op: op, Path: path, Arg: arg})
	l.mu.Unlock()
}
func (l *Log) Take() []Call {
	l.mu.Lock()
	defer l.mu.Unlock()
	c := l.Calls
	l.Calls = nil
	return c
}

// Mutations returns the recorded create/update/delete operations.
func Mutations(cs []Call) []Call {
	var out []Call
	for _, c := range cs {
		if strings.HasPrefix(c.Op, "Create") || strings.HasPrefix(c.Op, "Put") || strings.HasPrefix(c.Op, "Delete") {
			out = append(out, c)
		}
	}
	return out
}

func notFound(what string) error {
	return webdav.NewHTTPError(http.StatusNotFound, fmt.Errorf("%s not found", what))
}

// ---------------------------------------------------------------- CalDAV

type Cal struct {
	Log
	Principal string
	HomeSet   string
	mu        sync.Mutex
	Calendars []caldav.Calendar
	Objects   map[string]*caldav.CalendarObject // by path
	// per-path forced errors (for multiget outcomes)
	Fail map[string]int
	// what Put returns
	PutResult func(path string, cal *ical.Calendar) (*caldav.CalendarObject, error)
	// results of QueryCalendarObjects
	QueryResult []caldav.CalendarObject
	// ListOnQuery: answer a query with the objects stored under the path (discovery chains)
	ListOnQuery bool
	// PrincipalFor: principal path of a user named in the request context (multi-user deployments)
	PrincipalFor func(user string) string
	// FilterOnQuery: answer a query with the stored objects under the path that the library's own Filter selects (store histories)
	FilterOnQuery bool
	// UniqueCols: creating a collection that exists is refused with 405 (store histories)
	UniqueCols bool
}

// UserKey: a request context may name the authenticated user (set by the front of a multi-user deployment); PrincipalFor then
// maps it to that user's principal path.
type userKey struct{}

var UserKey = userKey{}

func principalOf(ctx context.Context, def string, f func(string) string) string {
	if u, ok := ctx.Value(UserKey).(string); ok && u != "" && f != nil {
		return f(u)
	}
	return def
}

func (b *Cal) CurrentUserPrincipal(ctx context.Context) (string, error) {
	b.add("CurrentUserPrincipal", "", nil)
	return principalOf(ctx, b.Principal, b.PrincipalFor), nil
}
func (b *Cal) CalendarHomeSetPath(ctx context.Context) (string, error) {
	b.add("CalendarHomeSetPath", "", nil)
	return b.HomeSet, nil
}
func (b *Cal) CreateCalendar(ctx context.Context, c *caldav.Calendar) error {
	b.add("CreateCalendar", c.Path, *c)
	if err := b.takeFail("CreateCalendar"); err != nil {
		return err
	}
	b.mu.Lock()
	defer b.mu.Unlock()
	if b.UniqueCols {
		for _, x := range b.Calendars {
			if x.Path == c.Path {
				return webdav.NewHTTPError(http.StatusMethodNotAllowed, fmt.Errorf("calendar exists"))
			}
		}
	}
	b.Calendars = append(b.Calendars, *c)
	return nil
}
func (b *Cal) ListCalendars(ctx context.Context) ([]caldav.Calendar, error) {
	b.add("ListCalendars", "", nil)
	if err := b.takeFail("ListCalendars"); err != nil {
		return nil, err
	}
	b.mu.Lock()
	defer b.mu.Unlock()
	return append([]caldav.Calendar{}, b.Calendars...), nil
}
func (b *Cal) GetCalendar(ctx context.Context, path string) (*caldav.Calendar, error) {
	b.add("GetCalendar", path, nil)
	b.mu.Lock()
	defer b.mu.Unlock()
	for _, c := range b.Calendars {
		if c.Path == path {
			cc := c
			return &cc, nil
		}
	}
	return nil, notFound("calendar")
}
func (b *Cal) GetCalendarObject(ctx context.Context, path string, req *caldav.CalendarCompRequest) (*caldav.CalendarObject, error) {
	b.add("GetCalendarObject", path, copyCompReq(req))
	if err := b.takeFail("GetCalendarObject"); err != nil {
		return nil, err
	}
	b.mu.Lock()
	defer b.mu.Unlock()
	if code, ok := b.Fail[path]; ok {
		if code < 0 {
			// the status travels inside a wrapped error, as a layered backend would return it
			return nil, fmt.Errorf("storage layer: %w", webdav.NewHTTPError(-code, fmt.Errorf("forced")))
		}
		return nil, webdav.NewHTTPError(code, fmt.Errorf("forced"))
	}
	if o, ok := b.Objects[path]; ok {
		oo := *o
		return &oo, nil
	}
	return nil, notFound("calendar object")
}
func (b *Cal) ListCalendarObjects(ctx context.Context, path string, req *caldav.CalendarCompRequest) ([]caldav.CalendarObject, error) {
	b.add("ListCalendarObjects", path, copyCompReq(req))
	b.mu.Lock()
	defer b.mu.Unlock()
	var out []caldav.CalendarObject
	var keys []string
	for k := range b.Objects {
		keys = append(keys, k)
	}
	sort.Strings(keys)
	for _, k := range keys {
		if strings.HasPrefix(k, strings.TrimSuffix(path, "/")+"/") {
			out = append(out, *b.Objects[k])
		}
	}
	return out, nil
}
func (b *Cal) QueryCalendarObjects(ctx context.Context, path string, q *caldav.CalendarQuery) ([]caldav.CalendarObject, error) {
	b.add("QueryCalendarObjects", path, *q)
	if err := b.takeFail("QueryCalendarObjects"); err != nil {
		return nil, err
	}
	if b.FilterOnQuery {
		return caldav.Filter(q, b.under(path))
	}
	if b.QueryResult == nil && b.ListOnQuery {
		return b.under(path), nil
	}
	return b.QueryResult, nil
}

func (b *Cal) under(path string) []caldav.CalendarObject {
	b.mu.Lock()
	defer b.mu.Unlock()
	var out []caldav.CalendarObject
	var keys []string
	for k := range b.Objects {
		keys = append(keys, k)
	}
	sort.Strings(keys)
	for _, k := range keys {
		if strings.HasPrefix(k, strings.TrimSuffix(path, "/")+"/") {
			out = append(out, *b.Objects[k])
		}
	}
	return out
}
func (b *Cal) PutCalendarObject(ctx context.Context, path string, cal *ical.Calendar, opts *caldav.PutCalendarObjectOptions) (*caldav.CalendarObject, error) {
	var buf bytes.Buffer
	ical.NewEncoder(&buf).Encode(cal)
	b.add("PutCalendarObject", path, map[string]interface{}{"ifm": string(opts.IfMatch), "ifnm": string(opts.IfNoneMatch), "data": buf.String()})
	if err := b.takeFail("PutCalendarObject"); err != nil {
		return nil, err
	}
	if b.PutResult != nil {
		return b.PutResult(path, cal)
	}
	b.mu.Lock()
	defer b.mu.Unlock()
	o := &caldav.CalendarObject{Path: path, ETag: "put-etag", ModTime: time.Unix(1700000000, 0), Data: cal}
	if b.Objects == nil {
		b.Objects = map[string]*caldav.CalendarObject{}
	}
	b.Objects[path] = o
	return o, nil
}
func (b *Cal) DeleteCalendarObject(ctx context.Context, path string) error {
	b.add("DeleteCalendarObject", path, nil)
	if err := b.takeFail("DeleteCalendarObject"); err != nil {
		return err
	}
	b.mu.Lock()
	defer b.mu.Unlock()
	if _, ok := b.Objects[path]; !ok {
		return notFound("calendar object")
	}
	delete(b.Objects, path)
	return nil
}

func copyCompReq(r *caldav.CalendarCompRequest) interface{} {
	if r == nil {
		return nil
	}
	return *r
}

// ---------------------------------------------------------------- CardDAV

type Card struct {
	Log
	Principal string
	HomeSet   string
	mu        sync.Mutex
	Books     []carddav.AddressBook
	Objects   map[string]*carddav.AddressObject
	Fail      map[string]int
	PutResult func(path string, card vcard.Card) (*carddav.AddressObject, error)
	// results of QueryAddressObjects
	QueryResult []carddav.AddressObject
	ListOnQuery bool
	// PrincipalFor: principal path of a user named in the request context (multi-user deployments)
	PrincipalFor func(user string) string
	// FilterOnQuery / UniqueCols: as for Cal
	FilterOnQuery bool
	UniqueCols    bool
}

func (b *Card) CurrentUserPrincipal(ctx context.Context) (string, error) {
	b.add("CurrentUserPrincipal", "", nil)
	return principalOf(ctx, b.Principal, b.PrincipalFor), nil
}
func (b *Card) AddressBookHomeSetPath(ctx context.Context) (string, error) {
	b.add("AddressBookHomeSetPath", "", nil)
	return b.HomeSet, nil
}
func (b *Card) ListAddressBooks(ctx context.Context) ([]carddav.AddressBook, error) {
	b.add("ListAddressBooks", "", nil)
	if err := b.takeFail("ListAddressBooks"); err != nil {
		return nil, err
	}
	b.mu.Lock()
	defer b.mu.Unlock()
	return append([]carddav.AddressBook{}, b.Books...), nil
}
func (b *Card) GetAddressBook(ctx context.Context, path string) (*carddav.AddressBook, error) {
	b.add("GetAddressBook", path, nil)
	b.mu.Lock()
	defer b.mu.Unlock()
	for _, c := range b.Books {
		if c.Path == path {
			cc := c
			return &cc, nil
		}
	}
	return nil, notFound("address book")
}
func (b *Card) CreateAddressBook(ctx context.Context, ab *carddav.AddressBook) error {
	b.add("CreateAddressBook", ab.Path, *ab)
	if err := b.takeFail("CreateAddressBook"); err != nil {
		return err
	}
	b.mu.Lock()
	defer b.mu.Unlock()
	if b.UniqueCols {
		for _, x := range b.Books {
			if x.Path == ab.Path {
				return webdav.NewHTTPError(http.StatusMethodNotAllowed, fmt.Errorf("address book exists"))
			}
		}
	}
	b.Books = append(b.Books, *ab)
	return nil
}
func (b *Card) DeleteAddressBook(ctx context.Context, path string) error {
	b.add("DeleteAddressBook", path, nil)
	b.mu.Lock()
	defer b.mu.Unlock()
	for i, c := range b.Books {
		if c.Path == path {
			b.Books = append(b.Books[:i:i], b.Books[i+1:]...)
			return nil
		}
	}
	return notFound("address book")
}
func (b *Card) GetAddressObject(ctx context.Context, path string, req *carddav.AddressDataRequest) (*carddav.AddressObject, error) {
	b.add("GetAddressObject", path, copyDataReq(req))
	if err := b.takeFail("GetAddressObject"); err != nil {
		return nil, err
	}
	b.mu.Lock()
	defer b.mu.Unlock()
	if code, ok := b.Fail[path]; ok {
		if code < 0 {
			// the status travels inside a wrapped error, as a layered backend would return it
			return nil, fmt.Errorf("storage layer: %w", webdav.NewHTTPError(-code, fmt.Errorf("forced")))
		}
		return nil, webdav.NewHTTPError(code, fmt.Errorf("forced"))
	}
	if o, ok := b.Objects[path]; ok {
		oo := *o
		return &oo, nil
	}
	return nil, notFound("address object")
}
func (b *Card) ListAddressObjects(ctx context.Context, path string, req *carddav.AddressDataRequest) ([]carddav.AddressObject, error) {
	b.add("ListAddressObjects", path, copyDataReq(req))
	b.mu.Lock()
	defer b.mu.Unlock()
	var out []carddav.AddressObject
	var keys []string
	for k := range b.Objects {
		keys = append(keys, k)
	}
	sort.Strings(keys)
	for _, k := range keys {
		if strings.HasPrefix(k, strings.TrimSuffix(path, "/")+"/") {
			out = append(out, *b.Objects[k])
		}
	}
	return out, nil
}
func (b *Card) QueryAddressObjects(ctx context.Context, path string, q *carddav.AddressBookQuery) ([]carddav.AddressObject, error) {
	b.add("QueryAddressObjects", path, *q)
	if err := b.takeFail("QueryAddressObjects"); err != nil {
		return nil, err
	}
	if b.FilterOnQuery {
		b.mu.Lock()
		var all []carddav.AddressObject
		var ks []string
		for k := range b.Objects {
			ks = append(ks, k)
		}
		sort.Strings(ks)
		for _, k := range ks {
			if strings.HasPrefix(k, strings.TrimSuffix(path, "/")+"/") {
				all = append(all, *b.Objects[k])
			}
		}
		b.mu.Unlock()
		return carddav.Filter(q, all)
	}
	if b.QueryResult == nil && b.ListOnQuery {
		b.mu.Lock()
		defer b.mu.Unlock()
		var out []carddav.AddressObject
		var keys []string
		for k := range b.Objects {
			keys = append(keys, k)
		}
		sort.Strings(keys)
		for _, k := range keys {
			if strings.HasPrefix(k, strings.TrimSuffix(path, "/")+"/") {
				out = append(out, *b.Objects[k])
			}
		}
		return out, nil
	}
	return b.QueryResult, nil
}
func (b *Card) PutAddressObject(ctx context.Context, path string, card vcard.Card, opts *carddav.PutAddressObjectOptions) (*carddav.AddressObject, error) {
	var buf bytes.Buffer
	vcard.NewEncoder(&buf).Encode(card)
	b.add("PutAddressObject", path, map[string]interface{}{"ifm": string(opts.IfMatch), "ifnm": string(opts.IfNoneMatch), "data": buf.String()})
	if err := b.takeFail("PutAddressObject"); err != nil {
		return nil, err
	}
	if b.PutResult != nil {
		return b.PutResult(path, card)
	}
	b.mu.Lock()
	defer b.mu.Unlock()
	o := &carddav.AddressObject{Path: path, ETag: "put-etag", ModTime: time.Unix(1700000000, 0), Card: card}
	if b.Objects == nil {
		b.Objects = map[string]*carddav.AddressObject{}
	}
	b.Objects[path] = o
	return o, nil
}
func (b *Card) DeleteAddressObject(ctx context.Context, path string) error {
	b.add("DeleteAddressObject", path, nil)
	if err := b.takeFail("DeleteAddressObject"); err != nil {
		return err
	}
	b.mu.Lock()
	defer b.mu.Unlock()
	if _, ok := b.Objects[path]; !ok {
		return notFound("address object")
	}
	delete(b.Objects, path)
	return nil
}

func copyDataReq(r *carddav.AddressDataRequest) interface{} {
	if r == nil {
		return nil
	}
	return *r
}

// ---------------------------------------------------------------- in-memory webdav.FileSystem

type MemFile struct {
	Info webdav.FileInfo
	Data []byte
}

// Mem is a FileSystem double holding arbitrary metadata. It records the arguments of mutating calls and applies
// them literally (it does NOT evaluate preconditions: the options it received are part of the log).
type Mem struct {
	Log
	mu    sync.Mutex
	Files map[string]*MemFile // by path; directories have Info.IsDir
}

func NewMem() *Mem {
	return &Mem{Files: map[string]*MemFile{"/": {Info: webdav.FileInfo{Path: "/", IsDir: true}}}}
}

// key normalises a path: no trailing slash except for the root
func key(p string) string {
	if p == "/" || p == "" {
		return "/"
	}
	return strings.TrimSuffix(p, "/")
}

func (m *Mem) Put(fi webdav.FileInfo, data []byte) {
	m.mu.Lock()
	defer m.mu.Unlock()
	fi.Path = key(fi.Path)
	fi.Size = int64(len(data))
	if fi.IsDir {
		fi.Size = 0
	}
	m.Files[fi.Path] = &MemFile{Info: fi, Data: data}
}

func (m *Mem) Open(ctx context.Context, name string) (io.ReadCloser, error) {
	m.add("Open", name, nil)
	m.mu.Lock()
	defer m.mu.Unlock()
	f, ok := m.Files[key(name)]
	if !ok {
		return nil, notFound("file")
	}
	return io.NopCloser(bytes.NewReader(f.Data)), nil
}
func (m *Mem) Stat(ctx context.Context, name string) (*webdav.FileInfo, error) {
	m.add("Stat", name, nil)
	m.mu.Lock()
	defer m.mu.Unlock()
	f, ok := m.Files[key(name)]
	if !ok {
		return nil, notFound("file")
	}
	fi := f.Info
	return &fi, nil
}
func (m *Mem) ReadDir(ctx context.Context, name string, recursive bool) ([]webdav.FileInfo, error) {
	m.add("ReadDir", name, map[string]interface{}{"recursive": recursive})
	m.mu.Lock()
	defer m.mu.Unlock()
	base := key(name)
	if _, ok := m.Files[base]; !ok {
		return nil, notFound("directory")
	}
	var keys []string
	for k := range m.Files {
		keys = append(keys, k)
	}
	sort.Strings(keys)
	var out []webdav.FileInfo
	pre := base + "/"
	if base == "/" {
		pre = "/"
	}
	for _, k := range keys {
		if k == base {
			out = append(out, m.Files[k].Info)
			continue
		}
		if !strings.HasPrefix(k, pre) {
			continue
		}
		rest := strings.TrimPrefix(k, pre)
		if !recursive && strings.Contains(rest, "/") {
			continue
		}
		out = append(out, m.Files[k].Info)
	}
	return out, nil
}
func (m *Mem) Create(ctx context.Context, name string, body io.ReadCloser, opts *webdav.CreateOptions) (*webdav.FileInfo, bool, error) {
	data, err := io.ReadAll(body)
	m.add("Create", name, map[string]interface{}{"ifm": string(opts.IfMatch), "ifnm": string(opts.IfNoneMatch), "data": string(data), "readerr": err != nil})
	if err != nil {
		return nil, false, err
	}
	m.mu.Lock()
	defer m.mu.Unlock()
	old, existed := m.Files[key(name)]
	fi := webdav.FileInfo{Path: key(name), Size: int64(len(data)), ETag: "created-etag", ModTime: time.Unix(1700000001, 0)}
	if existed {
		fi.ETag = old.Info.ETag
		fi.MIMEType = old.Info.MIMEType
	}
	m.Files[key(name)] = &MemFile{Info: fi, Data: data}
	return &fi, !existed, nil
}
func (m *Mem) RemoveAll(ctx context.Context, name string, opts *webdav.RemoveAllOptions) error {
	m.add("RemoveAll", name, map[string]interface{}{"ifm": string(opts.IfMatch), "ifnm": string(opts.IfNoneMatch)})
	m.mu.Lock()
	defer m.mu.Unlock()
	base := key(name)
	if _, ok := m.Files[base]; !ok {
		return notFound("file")
	}
	for k := range m.Files {
		if k == base || strings.HasPrefix(k, base+"/") {
			delete(m.Files, k)
		}
	}
	return nil
}
func (m *Mem) Mkdir(ctx context.Context, name string) error {
	m.add("Mkdir", name, nil)
	m.mu.Lock()
	defer m.mu.Unlock()
	m.Files[key(name)] = &MemFile{Info: webdav.FileInfo{Path: key(name), IsDir: true}}
	return nil
}
func (m *Mem) Copy(ctx context.Context, name, dest string, options *webdav.CopyOptions) (bool, error) {
	m.add("Copy", name, map[string]interface{}{"dest": dest, "norecursive": options.NoRecursive, "nooverwrite": options.NoOverwrite})
	return true, nil
}
func (m *Mem) Move(ctx context.Context, name, dest string, options *webdav.MoveOptions) (bool, error) {
	m.add("Move", name, map[string]interface{}{"dest": dest, "nooverwrite": options.NoOverwrite})
	return true, nil
}

// Package dav holds the pieces of the F2 harness shared by the file-server recorders:
// abstract trees and requests (the JSON the TLA+ judge reads), the sandbox on disk,
// concretisation of abstract requests into real *http.Request values, and the lexical
// observation of what the real handler did. It never computes what SHOULD happen.
package dav

import (
	"bytes"
	"context"
	"crypto/sha1"
	"encoding/hex"
	"encoding/json"
	"encoding/xml"
	"errors"
	"fmt"
	"io"
	"net/http"
	"net/http/httptest"
	"net/url"
	"os"
	"path/filepath"
	"regexp"
	"runtime/debug"
	"sort"
	"strconv"
	"strings"
	"sync"
	"syscall"
	"time"
)

type Entry struct {
	P []string `json:"p"`
	K string   `json:"k"`
	D string   `json:"d"`
	N int      `json:"n"`
}

type Req struct {
	M     string   `json:"m"`
	P     []string `json:"p"`
	Pflag string   `json:"pflag"`
	C     string   `json:"c"`
	Cn    int      `json:"cn"`
	Fault bool     `json:"fault"`
	Fk    int      `json:"fk"`
	Dform string   `json:"dform"`
	Dp    []string `json:"dp"`
	Depth string   `json:"depth"`
	Ow    string   `json:"ow"`
	Ctype string   `json:"ctype"`
	Ifm   string   `json:"ifm"`
	Ifnm  string   `json:"ifnm"`
	Pform string   `json:"pform"`
	// concretisation choices (ignored by the judge, kept for replay)
	Spell   string `json:"spell,omitempty"`   // verbatim request target
	DestRaw string `json:"destraw,omitempty"` // verbatim Destination header
	Fmode   string `json:"fmode,omitempty"`
}

type MsResp struct {
	Nhref int      `json:"nhref"`
	Href  []string `json:"href"`
	Hflag string   `json:"hflag"`
	K     string   `json:"k"`
	Len   int      `json:"len"`
	Etag  bool     `json:"etag"`
	Tag   string   `json:"tag"`
	Lm    bool     `json:"lm"` // getlastmodified answered with a parsable HTTP date
}

type Report struct {
	Clen  int      `json:"clen"`
	Body  string   `json:"body"`
	Etag  bool     `json:"etag"`
	Tag   string   `json:"tag"`
	Lm    bool     `json:"lm"`
	Allow []string `json:"allow"`
	Dav   []string `json:"dav"`
	Ms    []MsResp `json:"ms"`
	MsOK  bool     `json:"msok"`
}

type Step struct {
	K       string   `json:"k"`
	From    string   `json:"from"`
	Req     Req      `json:"req"`
	St      int      `json:"st"`
	Same    bool     `json:"same"`
	Post    []Entry  `json:"post"`
	Rep     Report   `json:"rep"`
	Leak    bool     `json:"leak"`
	Secret  bool     `json:"secret"`
	Outside string   `json:"outside"`
	Panic   bool     `json:"panic"`
	Conc    string   `json:"conc,omitempty"`
	Skip    string   `json:"skip"`
	Cid     string   `json:"cid"`
	Touched bool     `json:"touched"`
	Hrefs   []string `json:"-"` // literal hrefs of a multi-status (for follow-up requests)
}

type TreeLine struct {
	K string  `json:"k"`
	T []Entry `json:"t"`
}

// ---------------------------------------------------------------- tokens <-> bytes

var bigTok = regexp.MustCompile(`^B(\d+)$`)

// ContentBytes concretises a content token. Distinct tokens give distinct byte strings of distinct length.
func ContentBytes(tok string) []byte {
	switch tok {
	case "":
		return []byte{}
	case "x":
		return []byte("xxx")
	case "y":
		return []byte("yyyyy")
	case "z":
		return []byte("zzzzzzz")
	}
	if m := bigTok.FindStringSubmatch(tok); m != nil {
		n, _ := strconv.Atoi(m[1])
		b := make([]byte, n)
		s := uint32(2463534242) ^ uint32(n)
		for i := range b {
			s ^= s << 13
			s ^= s >> 17
			s ^= s << 5
			b[i] = byte('A' + s%26)
		}
		return b
	}
	return []byte("tok:" + tok + ":" + strings.Repeat("#", len(tok)+9))
}

type Tokens struct {
	rev map[string]string
}

func NewTokens(toks ...string) *Tokens {
	t := &Tokens{rev: map[string]string{}}
	for _, k := range toks {
		t.Add(k)
	}
	return t
}
func (t *Tokens) Add(tok string) {
	t.rev[string(ContentBytes(tok))] = tok
}

// TokenOf maps stored bytes back to the token they were generated from; anything else is a fresh "?..." token.
func (t *Tokens) TokenOf(b []byte) string {
	if tok, ok := t.rev[string(b)]; ok {
		return tok
	}
	h := sha1.Sum(b)
	return fmt.Sprintf("?%d:%s", len(b), hex.EncodeToString(h[:4]))
}

// NameMap is an injective concretisation of abstract names into real path segments.
type NameMap struct {
	Fwd map[string]string
	Rev map[string]string
	ID  string
}

func NewNameMap(id string, fwd map[string]string) *NameMap {
	m := &NameMap{Fwd: fwd, Rev: map[string]string{}, ID: id}
	for k, v := range fwd {
		m.Rev[v] = k
	}
	return m
}
func (m *NameMap) Conc(a string) string {
	if m == nil {
		return a
	}
	if v, ok := m.Fwd[a]; ok {
		return v
	}
	return a
}
func (m *NameMap) Abs(c string) string {
	if m == nil {
		return c
	}
	if v, ok := m.Rev[c]; ok {
		return v
	}
	if _, clash := m.Fwd[c]; clash {
		return "?" + c
	}
	return c
}

// ---------------------------------------------------------------- sandbox

const SecretMark = "CANARY-SECRET-7f3a9"

type Sandbox struct {
	Base string // scratch directory owning everything
	Root string // the served directory
	outs string // fingerprint of everything outside Root
	Toks *Tokens
	NM   *NameMap
	// strings whose appearance in a response is a host-path leak
	leaks []string
	// Style selects how raw segment sequences are spelled (0 literal, 1 encoded dots, 2 encoded slashes, 3 absolute form)
	Style int
	// Prefix: this sandbox is one client's private subtree of a shared served root (concurrency runs): request paths
	// are prefixed with it, reported hrefs must lie below it and are stripped, Root is the subtree's directory.
	Prefix []string
	// Shared: other clients work next to this subtree, so the surroundings are not compared
	Shared bool
}

// The served root sits below a chain of padding directories that is longer than the largest number of ".." any
// generated path contains, so that even a server that fails to clamp dot-dot segments cannot reach above Base
// (the checks run as root: an escaping DELETE must never be able to reach the real file system).
const padLevels = 14

func NewSandbox(parent string, toks *Tokens, nm *NameMap) (*Sandbox, error) {
	base, err := os.MkdirTemp(parent, "sbx")
	if err != nil {
		return nil, err
	}
	sb := &Sandbox{Base: base, Toks: toks, NM: nm}
	sb.Root = filepath.Join(sb.srvDir(), "root")
	sb.plant()
	sb.leaks = []string{base}
	if r, err := filepath.EvalSymlinks(base); err == nil && r != base {
		sb.leaks = append(sb.leaks, r)
	}
	sb.outs = sb.outsideFP()
	return sb, nil
}

// RootSpelling returns the served directory as an operator might configure it: 0 clean, 1 trailing slash, 2 "/." suffix,
// 3 doubled separator, 4 dot-dot detour, 5 "./" inside, 6 relative to the working directory, 7 the same with "./".
// All name the same directory (6 and 7 fall back to the clean form if the working directory is not an ancestor).
const RootSpellings = 8

func (sb *Sandbox) RootSpelling(style int) string {
	dir, base := filepath.Dir(sb.Root), filepath.Base(sb.Root)
	switch style % RootSpellings {
	case 6, 7:
		wd, err := os.Getwd()
		if err != nil {
			return sb.Root
		}
		rel, err := filepath.Rel(wd, sb.Root)
		if err != nil || strings.HasPrefix(rel, "..") {
			return sb.Root
		}
		if style%RootSpellings == 7 {
			return "./" + rel
		}
		return rel
	case 1:
		return sb.Root + "/"
	case 2:
		return sb.Root + "/."
	case 3:
		return dir + "//" + base
	case 4:
		return dir + "/root2/../" + base
	case 5:
		return dir + "/./" + base + "//"
	}
	return sb.Root
}

func (sb *Sandbox) srvDir() string {
	parts := []string{sb.Base}
	for i := 0; i < padLevels; i++ {
		parts = append(parts, fmt.Sprintf("p%d", i))
	}
	parts = append(parts, "srv")
	return filepath.Join(parts...)
}

// plant (re)creates the canaries around the root: in the parent, in a sibling whose name extends the root's,
// in siblings named like in-root resources, and at the top of the sandbox.
func (sb *Sandbox) plant() {
	srv := sb.srvDir()
	os.MkdirAll(filepath.Join(srv, "root2"), 0755)
	os.MkdirAll(filepath.Join(srv, "a"), 0755)
	os.WriteFile(filepath.Join(sb.Base, "top-secret.txt"), []byte(SecretMark+"-top"), 0644)
	os.WriteFile(filepath.Join(filepath.Dir(srv), "up-secret.txt"), []byte(SecretMark+"-up"), 0644)
	os.WriteFile(filepath.Join(srv, "secret.txt"), []byte(SecretMark+"-parent"), 0644)
	os.WriteFile(filepath.Join(srv, "root2", "secret.txt"), []byte(SecretMark+"-sibling"), 0644)
	os.WriteFile(filepath.Join(srv, "a", "secret.txt"), []byte(SecretMark+"-samename"), 0644)
	if fi, err := os.Lstat(filepath.Join(srv, "b")); err == nil && fi.IsDir() {
		os.RemoveAll(filepath.Join(srv, "b"))
	}
	os.WriteFile(filepath.Join(srv, "b"), []byte(SecretMark+"-samename-file"), 0644)
}

func (sb *Sandbox) Close() { os.RemoveAll(sb.Base) }

func (sb *Sandbox) outsideFP() string {
	var parts []string
	filepath.Walk(sb.Base, func(p string, fi os.FileInfo, err error) error {
		if err != nil {
			parts = append(parts, p+":ERR")
			return nil
		}
		if p == sb.Root {
			if fi.IsDir() {
				return filepath.SkipDir
			}
			return nil
		}
		if fi.IsDir() {
			parts = append(parts, p+"/")
		} else {
			b, _ := os.ReadFile(p)
			parts = append(parts, p+"="+string(b))
		}
		return nil
	})
	return strings.Join(parts, "\n")
}

// OutsideState reports whether anything outside the served root differs from the initial sandbox.
func (sb *Sandbox) OutsideState() string {
	if sb.outsideFP() == sb.outs {
		return "same"
	}
	return "changed"
}

// RepairOutside restores the canaries after a violation so that later events are judged on their own.
func (sb *Sandbox) RepairOutside() {
	sb.plant()
	if sb.outsideFP() != sb.outs {
		// something extra was left outside: start from a clean surrounding
		entries, _ := os.ReadDir(sb.Base)
		for _, e := range entries {
			os.RemoveAll(filepath.Join(sb.Base, e.Name()))
		}
		sb.plant()
		sb.outs = sb.outsideFP()
	}
}

// Setup makes the served directory equal to the abstract tree t.
func (sb *Sandbox) Setup(t []Entry) error {
	if err := os.RemoveAll(sb.Root); err != nil {
		return err
	}
	if _, err := os.Stat(sb.srvDir()); err != nil {
		sb.plant()
	}
	es := append([]Entry{}, t...)
	sort.SliceStable(es, func(i, j int) bool { return len(es[i].P) < len(es[j].P) })
	for _, e := range es {
		p := sb.hostPath(e.P)
		if e.K == "c" {
			if err := os.Mkdir(p, 0755); err != nil {
				return err
			}
		} else {
			if err := os.WriteFile(p, ContentBytes(e.D), 0644); err != nil {
				return err
			}
		}
	}
	return nil
}

func (sb *Sandbox) hostPath(p []string) string {
	parts := []string{sb.Root}
	for _, s := range p {
		parts = append(parts, sb.NM.Conc(s))
	}
	return filepath.Join(parts...)
}

// MaxSnapshotDepth bounds how deep a snapshot descends (the deepest tree of any universe has 9 levels)
const MaxSnapshotDepth = 16

// Snapshot reads the served directory back as an abstract tree (names, kinds, bytes -> tokens).
func (sb *Sandbox) Snapshot() []Entry {
	out := []Entry{}
	fi, err := os.Lstat(sb.Root)
	if err != nil {
		return out
	}
	var walk func(p string, segs []string, fi os.FileInfo)
	walk = func(p string, segs []string, fi os.FileInfo) {
		cp := append([]string{}, segs...)
		if len(cp) > MaxSnapshotDepth {
			// a runaway nest (a transfer copying into its own output): one marker stands for everything below, so that the
			// observation stays small; no tree of any specification has it
			out = append(out, Entry{P: append(cp[:MaxSnapshotDepth:MaxSnapshotDepth], "...deeper"), K: "f", D: "?runaway", N: 0})
			return
		}
		if fi.IsDir() {
			out = append(out, Entry{P: cp, K: "c"})
			l, _ := os.ReadDir(p)
			for _, c := range l {
				ci, err := os.Lstat(filepath.Join(p, c.Name()))
				if err != nil {
					continue
				}
				walk(filepath.Join(p, c.Name()), append(cp, sb.NM.Abs(c.Name())), ci)
			}
		} else {
			b, _ := os.ReadFile(p)
			out = append(out, Entry{P: cp, K: "f", D: sb.Toks.TokenOf(b), N: len(b)})
		}
	}
	walk(sb.Root, []string{}, fi)
	return out
}

func NormEntries(a []Entry) []Entry {
	c := append([]Entry{}, a...)
	sort.Slice(c, func(i, j int) bool { return strings.Join(c[i].P, "\x00") < strings.Join(c[j].P, "\x00") })
	return c
}

func SameTree(a, b []Entry) bool {
	x, _ := json.Marshal(NormEntries(a))
	y, _ := json.Marshal(NormEntries(b))
	return bytes.Equal(x, y)
}

// WithSizes fills the length field of file entries from their content tokens.
func WithSizes(t []Entry) []Entry {
	out := make([]Entry, len(t))
	for i, e := range t {
		if e.K == "f" {
			e.N = len(ContentBytes(e.D))
		}
		if e.P == nil {
			e.P = []string{}
		}
		out[i] = e
	}
	return out
}

// ---------------------------------------------------------------- concretisation of requests

type faultReader struct {
	data []byte
	k    int
	off  int
	err  error
	ctxc context.CancelFunc
	gone string // host path removed just before the failure is reported
}

func (f *faultReader) Read(p []byte) (int, error) {
	if f.off >= f.k {
		if f.ctxc != nil {
			f.ctxc()
		}
		if f.gone != "" {
			os.Remove(f.gone)
		}
		return 0, f.err
	}
	n := copy(p, f.data[f.off:f.k])
	f.off += n
	return n, nil
}
func (f *faultReader) Close() error { return nil }

// flipCtx is a context whose Err() starts to report context.Canceled at the k-th call (Done is closed at that moment)
type flipCtx struct {
	mu   sync.Mutex
	n, k int
	done chan struct{}
}

func (c *flipCtx) Deadline() (time.Time, bool)       { return time.Time{}, false }
func (c *flipCtx) Value(key interface{}) interface{} { return nil }
func (c *flipCtx) Done() <-chan struct{} {
	c.mu.Lock()
	defer c.mu.Unlock()
	return c.done
}
func (c *flipCtx) Err() error {
	c.mu.Lock()
	defer c.mu.Unlock()
	c.n++
	if c.n >= c.k {
		select {
		case <-c.done:
		default:
			close(c.done)
		}
		return context.Canceled
	}
	return nil
}

// WriteLimit (bytes): while a request with Fmode "wfault" is served, no file may grow beyond it (RLIMIT_FSIZE; the recorder
// must run single-threaded and ignore SIGXFSZ). 0 = write faults are not available.
var WriteLimit uint64

func serveLimited(h http.Handler, req *http.Request) Served {
	var old syscall.Rlimit
	if err := syscall.Getrlimit(syscall.RLIMIT_FSIZE, &old); err != nil {
		return Serve(h, req)
	}
	low := old
	low.Cur = WriteLimit
	if err := syscall.Setrlimit(syscall.RLIMIT_FSIZE, &low); err != nil {
		return Serve(h, req)
	}
	defer syscall.Setrlimit(syscall.RLIMIT_FSIZE, &old)
	return Serve(h, req)
}

// pieceReader hands out its data in reads of 1, 2, 3, 1, 2, 3, ... bytes (at most 700 at a time for long bodies)
type pieceReader struct {
	data []byte
	off  int
	k    int
}

func (p *pieceReader) Read(b []byte) (int, error) {
	if p.off >= len(p.data) {
		return 0, io.EOF
	}
	p.k = p.k%3 + 1
	n := p.k
	if len(p.data) > 4096 {
		n *= 233
	}
	if n > len(b) {
		n = len(b)
	}
	if n > len(p.data)-p.off {
		n = len(p.data) - p.off
	}
	copy(b, p.data[p.off:p.off+n])
	p.off += n
	return n, nil
}

// EscapePath spells an absolute path for the given concrete segments.
func EscapePath(segs []string) string {
	if len(segs) == 0 {
		return "/"
	}
	var b strings.Builder
	for _, s := range segs {
		b.WriteByte('/')
		b.WriteString(url.PathEscape(s))
	}
	return b.String()
}

// EscapePathRaw is EscapePath for already concrete segments (client API names).
func EscapePathRaw(segs []string) string {
	if len(segs) == 0 {
		return "/"
	}
	return "/" + strings.Join(segs, "/")
}

// CopyLeaks shares the leak strings of the sandbox that owns the scratch directory.
func (sb *Sandbox) CopyLeaks(o *Sandbox) { sb.leaks = o.leaks }

// Spell renders raw segments as a request target / Destination in the given style.
func Spell(segs []string, style int) string {
	if len(segs) == 0 {
		if style == 3 {
			return "http://example.com/"
		}
		return "/"
	}
	esc := make([]string, len(segs))
	for i, s := range segs {
		switch {
		case style == 1 && s == "..":
			esc[i] = "%2e%2e"
		case style == 1 && s == ".":
			esc[i] = "%2E"
		default:
			esc[i] = url.PathEscape(s)
		}
	}
	switch style {
	case 2:
		return "/" + strings.Join(esc, "%2F")
	case 3:
		return "http://example.com/" + strings.Join(esc, "/")
	}
	return "/" + strings.Join(esc, "/")
}

func (sb *Sandbox) concSegs(p []string) []string {
	out := make([]string, 0, len(p)+len(sb.Prefix))
	out = append(out, sb.Prefix...)
	for _, s := range p {
		out = append(out, sb.NM.Conc(s))
	}
	return out
}

var propfindBodies = map[string]string{
	"allprop":  `<?xml version="1.0" encoding="utf-8"?><propfind xmlns="DAV:"><allprop/></propfind>`,
	"propname": `<?xml version="1.0"?><D:propfind xmlns:D="DAV:"><D:propname/></D:propfind>`,
	"fileinfo": `<?xml version="1.0"?><D:propfind xmlns:D="DAV:"><D:prop><D:resourcetype/><D:getcontentlength/><D:getlastmodified/><D:getcontenttype/><D:getetag/></D:prop></D:propfind>`,
	"none":     `<?xml version="1.0"?><D:propfind xmlns:D="DAV:"></D:propfind>`,
	"badxml":   `<?xml version="1.0"?><D:propfind xmlns:D="DAV:"><D:allprop>`,
}

// Build turns the abstract request into a real one. tags resolves the conditional-header classes.
func (sb *Sandbox) Build(r *Req, variant int, tags func(class string) string) (*http.Request, context.CancelFunc, error) {
	target := r.Spell
	relPath := ""
	if target == "" {
		target = Spell(sb.concSegs(r.P), sb.Style)
		if sb.Style == 0 && (r.Pflag == "ok" || r.Pflag == "") && len(r.P) >= 1 && variant%5 == 4 {
			// the same resource under a noisy but equivalent spelling: a trailing slash, an empty segment, a "." segment (never a
			// leading "//", which would be another authority); the exact spelling is kept in the observation for replay
			segs := sb.concSegs(r.P)
			switch (variant / 5) % 3 {
			case 0:
				target = Spell(segs, 0) + "/"
			case 1:
				target = Spell(segs[:len(segs)-1], 0)
				if target == "/" {
					target = ""
				}
				target += "//" + url.PathEscape(segs[len(segs)-1])
				if strings.HasPrefix(target, "//") {
					target = "/." + target[1:]
				}
			default:
				target = "/." + Spell(segs, 0)
			}
		}
		switch r.Pflag {
		case "nul":
			target = Spell(sb.concSegs(r.P), 0) + "%00"
		case "rel":
			if len(r.P) == 0 || r.P[0] == "" {
				return nil, nil, fmt.Errorf("no relative spelling")
			}
			relPath = strings.Join(sb.concSegs(r.P), "/")
			target = "/"
		case "star":
			target = "*"
		}
	}
	var body io.Reader
	var cancel context.CancelFunc
	ctx := context.Background()
	var fr *faultReader
	pieces := int64(-1)
	switch r.M {
	case "PUT":
		data := ContentBytes(r.C)
		if r.Fault && r.Fmode == "wfault" {
			// the body is intact; the fault is on the storage side (Exec lowers the file size limit while the request is served)
			body = bytes.NewReader(data)
		} else if r.Fault {
			fr = &faultReader{data: data, k: r.Fk, err: io.ErrUnexpectedEOF}
			if r.Fmode == "errgone" {
				// by the time the body fails, another request has removed the target (and a collection has taken its name)
				fr.gone = sb.hostPath(r.P)
			}
			if r.Fmode == "cancel" {
				ctx, cancel = context.WithCancel(ctx)
				fr.err = context.Canceled
				fr.ctxc = cancel
			}
			body = fr
		} else {
			body = bytes.NewReader(data)
			if r.Fmode == "" && variant%2 == 1 {
				// the body arrives in several short reads (a chunked upload, several segments), never filling the server's buffer
				body = &pieceReader{data: data}
				pieces = int64(len(data))
			}
			if r.Fmode == "precancel" {
				// the request's context is already cancelled when the handler starts; the body itself is intact
				ctx, cancel = context.WithCancel(ctx)
				cancel()
			}
		}
	case "MKCOL":
		if r.Ctype != "none" {
			body = strings.NewReader("<x/>")
		}
	case "PROPFIND":
		if b, ok := propfindBodies[r.Pform]; ok {
			body = strings.NewReader(b)
		}
	case "PROPPATCH":
		body = strings.NewReader(`<?xml version="1.0"?><D:propertyupdate xmlns:D="DAV:"><D:set><D:prop><D:displayname>x</D:displayname></D:prop></D:set></D:propertyupdate>`)
	}
	if r.M != "PUT" && r.Fmode == "precancel" {
		ctx, cancel = context.WithCancel(ctx)
		cancel()
	}
	if strings.HasPrefix(r.Fmode, "ctxk") {
		// a context that reports cancellation from its k-th look on (a client that goes away while the request is being served)
		k, _ := strconv.Atoi(r.Fmode[4:])
		ctx = &flipCtx{k: k, done: make(chan struct{})}
	}
	req, err := newRequest(r.M, target, body)
	if err != nil {
		return nil, nil, err
	}
	if relPath != "" {
		req.URL.Path = relPath
		req.URL.RawPath = ""
		req.RequestURI = relPath
	}
	if fr != nil {
		req.ContentLength = int64(len(fr.data))
	}
	if pieces >= 0 {
		req.ContentLength = pieces
	}
	req = req.WithContext(ctx)
	switch r.M {
	case "MKCOL":
		if r.Ctype == "xml" {
			req.Header.Set("Content-Type", "application/xml")
		} else if r.Ctype != "none" {
			req.Header.Set("Content-Type", "text/plain")
		}
	case "PROPFIND":
		if _, ok := propfindBodies[r.Pform]; ok {
			if variant%2 == 0 {
				req.Header.Set("Content-Type", "application/xml; charset=utf-8")
			} else {
				req.Header.Set("Content-Type", "text/xml")
			}
		}
	case "PROPPATCH":
		req.Header.Set("Content-Type", "application/xml")
	}
	if r.M == "COPY" || r.M == "MOVE" {
		dpath := EscapePath(sb.concSegs(r.Dp))
		dform := r.Dform
		if r.DestRaw != "" {
			req.Header.Set("Destination", r.DestRaw)
			dform = "verbatim"
		}
		switch dform {
		case "path":
			style := sb.Style
			if len(r.Dp) > 0 && r.Dp[0] == "" {
				// a Destination starting with "//" would be a network-path reference (RFC 3986 4.2), i.e. another
				// authority: sequences with an empty first segment are spelled in absolute-URL form, which is unambiguous
				style = 3
			}
			req.Header.Set("Destination", Spell(sb.concSegs(r.Dp), style))
		case "unmappable":
			if variant%2 == 0 && len(r.Dp) > 0 && r.Dp[0] != "" {
				req.Header.Set("Destination", strings.Join(sb.concSegs(r.Dp), "/")) // relative reference
			} else {
				req.Header.Set("Destination", dpath+"%00")
			}
		case "abs":
			req.Header.Set("Destination", "http://example.com"+dpath)
		case "foreign":
			req.Header.Set("Destination", "https://other.invalid:8443"+dpath)
		case "bad":
			req.Header.Set("Destination", []string{dpath + "%zz", "http://[::1" + dpath, "/%"}[variant%3])
		case "missing":
		}
	}
	switch r.Depth {
	case "0", "1", "infinity":
		req.Header.Set("Depth", r.Depth)
	case "bad":
		req.Header.Set("Depth", []string{"2", "Infinity", "-1", " 0", "infinite", "0,1"}[variant%6])
	}
	switch r.Ow {
	case "T", "F":
		req.Header.Set("Overwrite", r.Ow)
	case "bad":
		req.Header.Set("Overwrite", []string{"X", "true", "t", "TF", "0"}[variant%5])
	}
	if r.Ifm != "" && r.Ifm != "unset" {
		req.Header.Set("If-Match", tags(r.Ifm))
	}
	if r.Ifnm != "" && r.Ifnm != "unset" {
		req.Header.Set("If-None-Match", tags(r.Ifnm))
	}
	return req, cancel, nil
}

// newRequest builds a server-side request like net/http would, but never panics on odd targets.
func newRequest(method, target string, body io.Reader) (req *http.Request, err error) {
	defer func() {
		if e := recover(); e != nil {
			err = fmt.Errorf("unbuildable request: %v", e)
		}
	}()
	if body == nil {
		body = http.NoBody
	}
	return httptest.NewRequest(method, target, body), nil
}

// ---------------------------------------------------------------- observation

type Served struct {
	Code    int
	Header  http.Header
	Body    []byte
	Panic   bool
	PanicIn string // function in which the panic was raised (first non-runtime frame)
	Hang    bool   // the handler did not return within ServeTimeout
}

// PanicOrigin returns the function that raised the panic: the first frame below the runtime's panic machinery.
func PanicOrigin(stack string) string {
	seenPanic := false
	for _, line := range strings.Split(stack, "\n") {
		if line == "" || line[0] == '\t' || strings.HasPrefix(line, "goroutine ") {
			continue
		}
		f := line
		if k := strings.LastIndex(f, "("); k > 0 {
			f = f[:k]
		}
		if strings.HasPrefix(f, "panic") || strings.HasPrefix(f, "runtime.") {
			seenPanic = true
			continue
		}
		if seenPanic {
			return f
		}
	}
	return "unknown"
}

// ServeTimeout bounds one request: a handler that does not return is reported as status 0 (no response), which no
// outcome of any specification explains; the recorder goes on with the next case.
var ServeTimeout = 120 * time.Second

func Serve(h http.Handler, req *http.Request) (s Served) {
	rw := httptest.NewRecorder()
	done := make(chan struct{})
	var panicked bool
	var panicIn string
	go func() {
		defer close(done)
		defer func() {
			if e := recover(); e != nil {
				panicked = true
				panicIn = PanicOrigin(string(debug.Stack()))
			}
		}()
		h.ServeHTTP(rw, req)
	}()
	select {
	case <-done:
	case <-time.After(ServeTimeout):
		return Served{Code: 0, Header: http.Header{}, Hang: true}
	}
	s.Panic, s.PanicIn = panicked, panicIn
	s.Code = rw.Code
	s.Header = rw.Header()
	s.Body = rw.Body.Bytes()
	return s
}

func (sb *Sandbox) Leaks(s Served) (leak, secret bool) {
	hay := []string{string(s.Body)}
	for k, vs := range s.Header {
		hay = append(hay, k)
		hay = append(hay, vs...)
	}
	for _, h := range hay {
		for _, l := range sb.leaks {
			if strings.Contains(h, l) {
				leak = true
			}
		}
		if strings.Contains(h, SecretMark) {
			secret = true
		}
	}
	return
}

func splitList(vs []string) []string {
	out := []string{}
	for _, v := range vs {
		for _, f := range strings.Split(v, ",") {
			f = strings.TrimSpace(f)
			if f != "" {
				out = append(out, f)
			}
		}
	}
	return out
}

// HrefSegs splits an href (as found in a multi-status) into raw path segments, mapped back to abstract names.
func (sb *Sandbox) HrefSegs(href string) ([]string, string) {
	// The statement reads hrefs "when sent back as a request path": origin-form strings get request-target
	// semantics (a leading "//" is path, not authority), absolute URLs reference semantics.
	href = strings.TrimSpace(href)
	var u *url.URL
	var err error
	if strings.HasPrefix(href, "/") {
		u, err = url.ParseRequestURI(href)
	} else {
		u, err = url.Parse(href)
	}
	if err != nil {
		return []string{}, "unparsable"
	}
	if u.Host != "" && u.Host != "example.com" {
		return []string{}, "foreignhost"
	}
	p := u.Path
	if !strings.HasPrefix(p, "/") {
		return []string{}, "relative"
	}
	if p == "/" && len(sb.Prefix) == 0 {
		return []string{}, "ok"
	}
	segs := strings.Split(p[1:], "/")
	if len(sb.Prefix) > 0 {
		// a private subtree of a shared root: the href is normalised (empty and "." segments dropped, ".." resolved) before the
		// subtree's prefix is taken off; without a prefix the raw segments go to the specification, which normalises itself
		var cl []string
		for _, x := range segs {
			switch x {
			case "", ".":
			case "..":
				if len(cl) > 0 {
					cl = cl[:len(cl)-1]
				}
			default:
				cl = append(cl, x)
			}
		}
		segs = cl
		if len(segs) < len(sb.Prefix) {
			return []string{}, "outside-prefix"
		}
		for i, x := range sb.Prefix {
			if segs[i] != x {
				return []string{}, "outside-prefix"
			}
		}
		segs = segs[len(sb.Prefix):]
	}
	for i, s := range segs {
		segs[i] = sb.NM.Abs(s)
	}
	return segs, "ok"
}

// Observe turns the real response into the lexical report the judge reads.
func (sb *Sandbox) Observe(r *Req, s Served) Report {
	rep := Report{Clen: -1, Allow: []string{}, Dav: []string{}, Ms: []MsResp{}}
	if v := s.Header.Get("Content-Length"); v != "" {
		if n, err := strconv.Atoi(v); err == nil {
			rep.Clen = n
		}
	}
	if et := s.Header.Get("ETag"); et != "" {
		rep.Etag = true
		rep.Tag = et
	}
	if _, err := http.ParseTime(s.Header.Get("Last-Modified")); err == nil {
		rep.Lm = true
	}
	rep.Allow = splitList(s.Header["Allow"])
	rep.Dav = splitList(s.Header["Dav"])
	switch r.M {
	case "GET", "HEAD":
		if s.Code == 200 {
			if len(s.Body) == 0 {
				rep.Body = ""
			} else {
				rep.Body = sb.Toks.TokenOf(s.Body)
			}
		}
	case "PROPFIND":
		if s.Code == 207 {
			ms, ok := ParseMultiStatus(s.Body)
			rep.MsOK = ok
			for _, x := range ms {
				m := MsResp{Nhref: len(x.Hrefs), Href: []string{}, Hflag: "none", K: "f", Len: -1}
				if len(x.Hrefs) > 0 {
					m.Href, m.Hflag = sb.HrefSegs(x.Hrefs[0])
				}
				if x.IsColl {
					m.K = "c"
				}
				if !x.HasType {
					m.K = "?"
				}
				if v, ok := x.Props["getcontentlength"]; ok {
					if n, err := strconv.Atoi(strings.TrimSpace(v)); err == nil {
						m.Len = n
					}
				}
				if v, ok := x.Props["getetag"]; ok && v != "" {
					m.Etag = true
					m.Tag = v
				}
				if v, ok := x.Props["getlastmodified"]; ok {
					if _, err := http.ParseTime(strings.TrimSpace(v)); err == nil {
						m.Lm = true
					}
				}
				rep.Ms = append(rep.Ms, m)
			}
		}
	}
	return rep
}

type RawResp struct {
	Hrefs   []string
	IsColl  bool
	HasType bool
	Props   map[string]string // DAV: properties answered under a 2xx propstat -> character data
	Status  map[string]int    // every answered property "ns local" -> status code
	Counts  map[string]int    // how often each property was answered
}

// ParseMultiStatus is a minimal, independent, namespace-aware reader of RFC 4918 multistatus bodies.
func ParseMultiStatus(b []byte) ([]RawResp, bool) {
	d := xml.NewDecoder(bytes.NewReader(b))
	d.Strict = true
	var out []RawResp
	var stack []xml.Name
	var cur *RawResp
	type pst struct {
		names []xml.Name
		text  map[xml.Name]string
		coll  map[xml.Name]bool
		code  int
	}
	var ps *pst
	var text strings.Builder
	var propTop xml.Name
	seenRoot := false
	for {
		tok, err := d.Token()
		if err == io.EOF {
			break
		}
		if err != nil {
			return out, false
		}
		switch t := tok.(type) {
		case xml.StartElement:
			stack = append(stack, t.Name)
			text.Reset()
			depth := len(stack)
			if depth == 1 {
				if t.Name.Space != "DAV:" || t.Name.Local != "multistatus" {
					return nil, false
				}
				seenRoot = true
			}
			if depth == 2 && t.Name.Space == "DAV:" && t.Name.Local == "response" {
				out = append(out, RawResp{Props: map[string]string{}, Status: map[string]int{}, Counts: map[string]int{}})
				cur = &out[len(out)-1]
			}
			if cur != nil && depth == 3 && t.Name.Space == "DAV:" && t.Name.Local == "propstat" {
				ps = &pst{text: map[xml.Name]string{}, coll: map[xml.Name]bool{}}
			}
			if ps != nil && depth == 5 && stack[3].Space == "DAV:" && stack[3].Local == "prop" {
				propTop = t.Name
				ps.names = append(ps.names, t.Name)
			}
			if ps != nil && depth == 6 && stack[3].Local == "prop" && propTop.Space == "DAV:" && propTop.Local == "resourcetype" &&
				t.Name.Space == "DAV:" && t.Name.Local == "collection" {
				ps.coll[propTop] = true
			}
		case xml.CharData:
			text.Write(t)
		case xml.EndElement:
			depth := len(stack)
			if cur != nil && depth == 3 && t.Name.Space == "DAV:" && t.Name.Local == "href" {
				cur.Hrefs = append(cur.Hrefs, text.String())
			}
			if ps != nil && depth == 4 && t.Name.Space == "DAV:" && t.Name.Local == "status" {
				f := strings.Fields(text.String())
				if len(f) >= 2 {
					ps.code, _ = strconv.Atoi(f[1])
				}
			}
			if ps != nil && depth == 5 && stack[3].Space == "DAV:" && stack[3].Local == "prop" {
				ps.text[t.Name] = text.String()
			}
			if ps != nil && depth == 3 && t.Name.Local == "propstat" {
				for _, n := range ps.names {
					key := n.Space + " " + n.Local
					cur.Status[key] = ps.code
					cur.Counts[key]++
					if ps.code/100 == 2 && n.Space == "DAV:" {
						cur.Props[n.Local] = ps.text[n]
						if n.Local == "resourcetype" {
							cur.HasType = true
							cur.IsColl = ps.coll[n]
						}
					}
				}
				ps = nil
			}
			if depth == 2 {
				cur = nil
			}
			stack = stack[:len(stack)-1]
			text.Reset()
		}
	}
	return out, seenRoot && len(stack) == 0
}

// Exec runs one abstract request against the handler in this sandbox and returns the observation.
func (sb *Sandbox) Exec(h http.Handler, r Req, from string, pre []Entry, variant int, tags func(string) string) Step {
	st := Step{K: "step", From: from, Req: r, Post: []Entry{}, Outside: "same", Conc: sb.NM.ID}
	if st.Req.P == nil {
		st.Req.P = []string{}
	}
	if st.Req.Dp == nil {
		st.Req.Dp = []string{}
	}
	if r.M == "PUT" {
		st.Req.Cn = len(ContentBytes(r.C))
	}
	req, cancel, err := sb.Build(&r, variant, tags)
	if err != nil {
		st.Skip = err.Error()
		st.Rep = Report{Clen: -1, Allow: []string{}, Dav: []string{}, Ms: []MsResp{}}
		st.Same = true
		return st
	}
	// keep the exact spelling that was sent, so that a replay of this observation is byte-identical
	if r.Pflag == "ok" || r.Pflag == "" {
		st.Req.Spell = req.RequestURI
	}
	if d := req.Header.Get("Destination"); d != "" {
		st.Req.DestRaw = d
	}
	var s Served
	if r.Fmode == "wfault" && WriteLimit > 0 {
		s = serveLimited(h, req)
	} else {
		s = Serve(h, req)
	}
	if cancel != nil {
		cancel()
	}
	st.St = s.Code
	st.Panic = s.Panic
	st.Rep = sb.Observe(&r, s)
	if r.M == "PROPFIND" && s.Code == 207 {
		if ms, ok := ParseMultiStatus(s.Body); ok {
			for _, x := range ms {
				if len(x.Hrefs) > 0 {
					st.Hrefs = append(st.Hrefs, strings.TrimSpace(x.Hrefs[0]))
				}
			}
		}
	}
	st.Leak, st.Secret = sb.Leaks(s)
	if !sb.Shared {
		st.Outside = sb.OutsideState()
	}
	post := sb.Snapshot()
	if SameTree(pre, post) {
		st.Same = true
	} else {
		st.Post = NormEntries(post)
	}
	return st
}

var ErrSkip = errors.New("skip")

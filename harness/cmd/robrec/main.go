// robrec is the F2 recorder for C13: every request of the TLC-enumerated universe (and every structure-mutated
// document, every truncation of the valid documents, seeded random bytes) is sent to the real WebDAV / CalDAV /
// CardDAV handlers and the principal helper; status, panic and mutating backend calls are recorded.
package main

import (
	"bufio"
	"bytes"
	"encoding/json"
	"flag"
	"fmt"
	"net/http"
	"net/http/httptest"
	"net/url"
	"os"
	"path/filepath"
	"sort"
	"strings"

	webdav "github.com/emersion/go-webdav"
	"github.com/emersion/go-webdav/caldav"
	"github.com/emersion/go-webdav/carddav"

	"verif/harness/backends"
	"verif/harness/dav"
	"verif/harness/xmlt"
)

type Req struct {
	Srv   string `json:"srv"`
	M     string `json:"m"`
	Level int    `json:"level"`
	Depth string `json:"depth"`
	Ow    string `json:"ow"`
	Dest  string `json:"dest"`
	Ctype string `json:"ctype"`
	Body  string `json:"body"`
	Cond  string `json:"cond"` // "none" or "<ifm|ifnm>-<form>": a conditional header whose value is not an entity tag
}
type Case struct {
	R    Req    `json:"r"`
	Want string `json:"want"`
}
type Mutant struct {
	Srv   string    `json:"srv"`
	M     string    `json:"m"`
	Level int       `json:"level"`
	Doc   xmlt.Node `json:"doc"`
	Want  string    `json:"want"` // classification, if the generator attached one ("4xx" for documents outside the RFC)
	What  string    `json:"what"` // which rule of the RFC the document breaks
}

const icalBody = "BEGIN:VCALENDAR\r\nVERSION:2.0\r\nPRODID:-//x//y//EN\r\nBEGIN:VEVENT\r\nUID:u1\r\nDTSTAMP:20200101T000000Z\r\nDTSTART:20200101T000000Z\r\nEND:VEVENT\r\nEND:VCALENDAR\r\n"
const vcardBody = "BEGIN:VCARD\r\nVERSION:3.0\r\nFN:x\r\nEND:VCARD\r\n"

// richer valid documents for the byte-edit universe: every construct of the request grammars and of the object formats
const richIcal = "BEGIN:VCALENDAR\r\nVERSION:2.0\r\nPRODID:-//x//y//EN\r\nBEGIN:VTIMEZONE\r\nTZID:Europe/Paris\r\nBEGIN:STANDARD\r\nDTSTART:19701025T030000\r\nTZOFFSETFROM:+0200\r\nTZOFFSETTO:+0100\r\nEND:STANDARD\r\nEND:VTIMEZONE\r\n" +
	"BEGIN:VEVENT\r\nUID:u1\r\nDTSTAMP:20200101T000000Z\r\nDTSTART;TZID=Europe/Paris:20200101T100000\r\nDURATION:PT1H30M\r\nRRULE:FREQ=WEEKLY;COUNT=3;BYDAY=MO,WE\r\n" +
	"SUMMARY;LANGUAGE=en;X-P=\"q;u:o,ted\":a\\, b\\; c\\n d\r\nDESCRIPTION:folded\r\n  line\r\nATTENDEE;CN=\"A B\";ROLE=CHAIR:mailto:a@example.com\r\n" +
	"BEGIN:VALARM\r\nACTION:DISPLAY\r\nTRIGGER;RELATED=START:-PT15M\r\nDESCRIPTION:x\r\nEND:VALARM\r\nEND:VEVENT\r\nEND:VCALENDAR\r\n"
const richVcard = "BEGIN:VCARD\r\nVERSION:4.0\r\nFN;LANGUAGE=en:Jane \\\"J\\\" Doe\r\nN:Doe;Jane;;;\r\nitem1.EMAIL;TYPE=work,home;PREF=1:jane@example.com\r\nTEL;TYPE=\"voice,cell\":+1 555\r\n" +
	"NOTE:folded\r\n  text\\nwith escapes\\, and\\; more\r\nUID:urn:uuid:1\r\nEND:VCARD\r\n"
const richCalQuery = `<?xml version="1.0" encoding="utf-8"?><C:calendar-query xmlns:C="urn:ietf:params:xml:ns:caldav" xmlns:D="DAV:"><D:prop><D:getetag/><C:calendar-data><C:comp name="VCALENDAR"><C:prop name="VERSION"/><C:comp name="VEVENT"><C:allprop/><C:allcomp/></C:comp></C:comp><C:expand start="20200101T000000Z" end="20200201T000000Z"/></C:calendar-data></D:prop>` +
	`<C:filter><C:comp-filter name="VCALENDAR"><C:comp-filter name="VEVENT"><C:time-range start="20200101T000000Z" end="20200201T000000Z"/><C:prop-filter name="SUMMARY"><C:text-match negate-condition="yes" collation="i;ascii-casemap">a &amp; b</C:text-match><C:param-filter name="LANGUAGE"><C:is-not-defined/></C:param-filter></C:prop-filter><C:comp-filter name="VALARM"><C:is-not-defined/></C:comp-filter></C:comp-filter></C:comp-filter></C:filter></C:calendar-query>`
const richCardQuery = `<?xml version="1.0" encoding="utf-8"?><C:addressbook-query xmlns:C="urn:ietf:params:xml:ns:carddav" xmlns:D="DAV:"><D:prop><D:getetag/><C:address-data content-type="text/vcard" version="4.0"><C:prop name="FN"/><C:prop name="EMAIL"/></C:address-data></D:prop>` +
	`<C:filter test="allof"><C:prop-filter name="EMAIL" test="anyof"><C:text-match negate-condition="yes" match-type="starts-with" collation="i;unicode-casemap">ja&lt;ne</C:text-match><C:param-filter name="TYPE"><C:text-match match-type="equals">work</C:text-match></C:param-filter></C:prop-filter><C:prop-filter name="NICKNAME"><C:is-not-defined/></C:prop-filter></C:filter><C:limit><C:nresults>5</C:nresults></C:limit></C:addressbook-query>`
const richCalMultiget = `<?xml version="1.0"?><C:calendar-multiget xmlns:C="urn:ietf:params:xml:ns:caldav" xmlns:D="DAV:"><D:prop><D:getetag/><C:calendar-data/></D:prop><D:href>/u/cal/c1/o1.ics</D:href><D:href>/u/cal/c1/a%20b.ics</D:href></C:calendar-multiget>`
const richCardMultiget = `<?xml version="1.0"?><C:addressbook-multiget xmlns:C="urn:ietf:params:xml:ns:carddav" xmlns:D="DAV:"><D:prop><D:getetag/><C:address-data/></D:prop><D:href>/u/card/b1/o1.vcf</D:href><D:href>/u/card/b1/%C3%BC.vcf</D:href></C:addressbook-multiget>`
const richPropfind = `<?xml version="1.0"?><D:propfind xmlns:D="DAV:" xmlns:C="urn:ietf:params:xml:ns:caldav" xmlns:A="urn:ietf:params:xml:ns:carddav"><D:prop><D:resourcetype/><D:displayname/><D:getetag/><D:current-user-principal/><C:calendar-home-set/><A:addressbook-home-set/><C:supported-calendar-component-set/><x:foo xmlns:x="urn:x"/></D:prop></D:propfind>`

// richBodies are further valid bodies of a (service, method) whose byte edits are sent
func richBodies(r Req) []string {
	switch r.M {
	case "PROPFIND":
		return []string{richPropfind}
	case "REPORT":
		if r.Srv == "card" {
			return []string{richCardQuery, richCardMultiget}
		}
		return []string{richCalQuery, richCalMultiget}
	case "PUT":
		if r.Srv == "card" {
			return []string{richVcard}
		}
		return []string{richIcal}
	}
	return nil
}

var calPaths = []string{"/", "/u/", "/u/cal/", "/u/cal/c1/", "/u/cal/c1/o1.ics", "/u/cal/c1/o1.ics/deep"}
var cardPaths = []string{"/", "/u/", "/u/card/", "/u/card/b1/", "/u/card/b1/o1.vcf", "/u/card/b1/o1.vcf/deep"}
var davPaths = []string{"/", "/f.txt", "/d", "/absent"}

type world struct {
	h    http.Handler
	cal  *backends.Cal
	card *backends.Card
	root string
}

func fingerprint(root string) string {
	var parts []string
	filepath.Walk(root, func(p string, fi os.FileInfo, err error) error {
		if err != nil {
			return nil
		}
		if fi.IsDir() {
			parts = append(parts, p+"/")
		} else {
			b, _ := os.ReadFile(p)
			parts = append(parts, p+"="+string(b))
		}
		return nil
	})
	sort.Strings(parts)
	return strings.Join(parts, "\n")
}

func build(srv, scratch string) *world {
	w := &world{}
	switch srv {
	case "cal":
		w.cal = &backends.Cal{Principal: "/u/", HomeSet: "/u/cal/", Calendars: []caldav.Calendar{{Path: "/u/cal/c1/", Name: "n"}}, Objects: map[string]*caldav.CalendarObject{}}
		w.h = &caldav.Handler{Backend: w.cal}
	case "card":
		w.card = &backends.Card{Principal: "/u/", HomeSet: "/u/card/", Books: []carddav.AddressBook{{Path: "/u/card/b1/", Name: "n"}}, Objects: map[string]*carddav.AddressObject{}}
		w.h = &carddav.Handler{Backend: w.card}
	case "dav":
		root, _ := os.MkdirTemp(scratch, "rob")
		os.Mkdir(filepath.Join(root, "d"), 0755)
		os.WriteFile(filepath.Join(root, "f.txt"), []byte("content"), 0644)
		os.WriteFile(filepath.Join(root, "d", "g"), []byte("g"), 0644)
		w.root = root
		w.h = &webdav.Handler{FileSystem: webdav.LocalFileSystem(root)}
	case "principal":
		opts := &webdav.ServePrincipalOptions{CurrentUserPrincipalPath: "/u/", HomeSets: []webdav.BackendSuppliedHomeSet{caldav.NewCalendarHomeSet("/u/cal/")}}
		w.h = http.HandlerFunc(func(rw http.ResponseWriter, r *http.Request) { webdav.ServePrincipal(rw, r, opts) })
	}
	return w
}

func pathOf(srv string, level int) string {
	switch srv {
	case "cal":
		return calPaths[level]
	case "card":
		return cardPaths[level]
	case "dav":
		return davPaths[level]
	}
	return "/u/"
}

func validBody(r Req) string {
	switch r.M {
	case "PROPFIND":
		return `<?xml version="1.0"?><D:propfind xmlns:D="DAV:"><D:prop><D:resourcetype/></D:prop></D:propfind>`
	case "PROPPATCH":
		return `<?xml version="1.0"?><D:propertyupdate xmlns:D="DAV:"><D:set><D:prop><D:displayname>x</D:displayname></D:prop></D:set></D:propertyupdate>`
	case "REPORT":
		if r.Srv == "card" {
			return `<?xml version="1.0"?><C:addressbook-query xmlns:C="urn:ietf:params:xml:ns:carddav" xmlns:D="DAV:"><D:prop><D:getetag/></D:prop><C:filter/></C:addressbook-query>`
		}
		return `<?xml version="1.0"?><C:calendar-query xmlns:C="urn:ietf:params:xml:ns:caldav" xmlns:D="DAV:"><D:prop><D:getetag/></D:prop><C:filter><C:comp-filter name="VCALENDAR"/></C:filter></C:calendar-query>`
	case "MKCOL":
		t := `<C:calendar xmlns:C="urn:ietf:params:xml:ns:caldav"/>`
		if r.Srv == "card" {
			t = `<C:addressbook xmlns:C="urn:ietf:params:xml:ns:carddav"/>`
		}
		return `<?xml version="1.0"?><D:mkcol xmlns:D="DAV:"><D:set><D:prop><D:resourcetype><D:collection/>` + t + `</D:resourcetype><D:displayname>n</D:displayname></D:prop></D:set></D:mkcol>`
	case "PUT":
		if r.Srv == "card" {
			return vcardBody
		}
		return icalBody
	}
	return "body"
}

func bodyOf(r Req, variant int) []byte {
	switch r.Body {
	case "none":
		return nil
	case "valid":
		return []byte(validBody(r))
	case "emptyxml":
		return []byte{}
	case "wrongroot":
		return []byte(`<?xml version="1.0"?><D:href xmlns:D="DAV:">/x</D:href>`)
	case "truncated":
		v := validBody(r)
		if len(v) < 30 {
			v = `<?xml version="1.0"?><D:propfind xmlns:D="DAV:"><D:allprop/></D:propfind>`
		}
		return []byte(v[:len(v)*(25+variant%70)/100])
	case "garbage":
		return []byte("\x00\xff<<<&&& ]]> not xml, not ical, not vcard \x1b")
	case "badobj":
		return []byte("BEGIN:VCALENDAR\r\nthis line has no colon\r\nBEGIN:VCARD\r\nEND:NOTHING\r\n")
	case "badobj2":
		// a content line that ends inside a parameter
		return []byte("BEGIN:VCALENDAR\r\nSUMMARY;LANGUAGE=en\r\nEND:VCALENDAR\r\n")
	}
	return nil
}

var badParamTurn int // rotates through the unparsable parameter forms (the recorder is sequential, so runs repeat exactly)

func send(w *world, r Req, path string, body []byte, forceEmptyBody bool) map[string]interface{} {
	var req *http.Request
	if body != nil || forceEmptyBody {
		req = httptest.NewRequest(r.M, (&url.URL{Path: path}).EscapedPath(), bytes.NewReader(body))
	} else {
		req = httptest.NewRequest(r.M, (&url.URL{Path: path}).EscapedPath(), http.NoBody)
	}
	switch r.Ctype {
	case "xml":
		req.Header.Set("Content-Type", "application/xml; charset=utf-8")
	case "textxml":
		req.Header.Set("Content-Type", "text/xml")
	case "obj":
		if r.Srv == "card" {
			req.Header.Set("Content-Type", "text/vcard; charset=utf-8")
		} else {
			req.Header.Set("Content-Type", "text/calendar")
		}
	case "objbadparam":
		// the object's media type followed by parameters that cannot be parsed
		t := "text/calendar"
		if r.Srv == "card" {
			t = "text/vcard"
		}
		req.Header.Set("Content-Type", t+[]string{"; charset", "; charset=", `; charset="utf-8`, ";;", "; =x"}[badParamTurn%5])
		badParamTurn++
	case "other":
		req.Header.Set("Content-Type", "application/octet-stream")
	case "malformed":
		req.Header.Set("Content-Type", "text/;;=")
	}
	switch r.Depth {
	case "0", "1", "infinity":
		req.Header.Set("Depth", r.Depth)
	case "bad":
		req.Header.Set("Depth", "2")
	}
	switch r.Ow {
	case "T", "F":
		req.Header.Set("Overwrite", r.Ow)
	case "bad":
		req.Header.Set("Overwrite", "maybe")
	}
	if k := strings.Index(r.Cond, "-"); k > 0 {
		val := map[string]string{"onebyte": "x", "quote": `"`, "unterminated": `"abc`, "weakprefix": "W/", "bare": "abc", "comma": ","}[r.Cond[k+1:]]
		req.Header.Set(map[string]string{"ifm": "If-Match", "ifnm": "If-None-Match"}[r.Cond[:k]], val)
	}
	switch r.Dest {
	case "ok":
		req.Header.Set("Destination", "/dest-"+strings.Trim(path, "/"))
	case "bad":
		req.Header.Set("Destination", "/a%zz")
	}
	before := ""
	if w.root != "" {
		before = fingerprint(w.root)
	}
	if w.cal != nil {
		w.cal.Take()
	}
	if w.card != nil {
		w.card.Take()
	}
	s := dav.Serve(w.h, req)
	mut := 0
	if w.cal != nil {
		mut = len(backends.Mutations(w.cal.Take()))
	}
	if w.card != nil {
		mut = len(backends.Mutations(w.card.Take()))
	}
	if w.root != "" && fingerprint(w.root) != before {
		mut = 1
	}
	// a complete response: a multi-status answer carries a well-formed XML document (an answer that breaks off in the middle of
	// its body, because encoding failed after the status line was out, is not one)
	bodyok := true
	if s.Code == 207 && !s.Panic {
		if _, err := xmlt.Read(s.Body, nil); err != nil {
			bodyok = false
		}
	}
	return map[string]interface{}{"st": s.Code, "panic": s.Panic, "panicin": s.PanicIn, "mut": mut, "bodyok": bodyok}
}

func main() {
	mode := flag.String("mode", "reqs", "reqs | mutants | fuzz")
	in := flag.String("in", "", "")
	out := flag.String("out", "", "")
	seed := flag.Int("seed", 1, "")
	scratch := flag.String("scratch", os.TempDir(), "")
	nfuzz := flag.Int("n", 2000, "")
	flag.Parse()
	fh, err := os.Create(*out)
	if err != nil {
		fmt.Fprintln(os.Stderr, err)
		os.Exit(2)
	}
	bw := bufio.NewWriterSize(fh, 1<<20)
	enc := json.NewEncoder(bw)
	enc.SetEscapeHTML(false)
	n := 0
	worlds := map[string]*world{}
	get := func(srv string, fresh bool) *world {
		if w, ok := worlds[srv]; ok && !fresh {
			return w
		}
		if w, ok := worlds[srv]; ok && w.root != "" {
			os.RemoveAll(w.root)
		}
		worlds[srv] = build(srv, *scratch)
		return worlds[srv]
	}
	defer func() {
		for _, w := range worlds {
			if w.root != "" {
				os.RemoveAll(w.root)
			}
		}
	}()
	scan := func(each func([]byte)) {
		inf, err := os.Open(*in)
		if err != nil {
			fmt.Fprintln(os.Stderr, err)
			os.Exit(2)
		}
		sc := bufio.NewScanner(inf)
		sc.Buffer(make([]byte, 1<<20), 64<<20)
		for sc.Scan() {
			each(append([]byte{}, sc.Bytes()...))
		}
	}
	switch *mode {
	case "reqs":
		i := 0
		scan(func(b []byte) {
			i++
			var c Case
			if err := json.Unmarshal(b, &c); err != nil {
				fmt.Fprintln(os.Stderr, err)
				os.Exit(2)
			}
			w := get(c.R.Srv, false)
			ev := send(w, c.R, pathOf(c.R.Srv, c.R.Level), bodyOf(c.R, *seed+i), c.R.Body == "emptyxml")
			if ev["mut"].(int) > 0 {
				get(c.R.Srv, true) // start the next case from the initial state again
			}
			ev["k"], ev["ci"], ev["want"], ev["r"] = "req", i, c.Want, c.R
			enc.Encode(ev)
			n++
		})
	case "mutants":
		conc := xmlt.NewConc(map[string]string{"t0": " lead&trail <x> ", "t1": "plain", "t2": "é\"q'", "n1": "SUMMARY", "n2": "X-FOO", "n3": "TYPE",
			"i1": "20210301T120000Z", "i2": "20210307T093015Z", "h1": "/u/cal/c1/a.ics", "h2": "/u/card/b1/a%20b.vcf", "h3": "/u/cal/c1/%C3%BC.ics"})
		i := 0
		scan(func(b []byte) {
			i++
			var m Mutant
			if err := json.Unmarshal(b, &m); err != nil {
				fmt.Fprintln(os.Stderr, err)
				os.Exit(2)
			}
			w := get(m.Srv, false)
			r := Req{Srv: m.Srv, M: m.M, Level: m.Level, Depth: "absent", Ctype: "xml", Body: "mutant", Cond: "none"}
			if m.M == "PROPFIND" {
				r.Depth = "0"
			}
			for style := 0; style < 2; style++ {
				ev := send(w, r, pathOf(m.Srv, m.Level), xmlt.Render(m.Doc, style*2, conc), false)
				if ev["mut"].(int) > 0 {
					w = get(m.Srv, true)
					// a mutated mkcol that stays a valid request may create the collection: that is not a violation of "not5xx"
					if m.M == "MKCOL" && ev["st"].(int) == 201 {
						ev["mut"] = 0
					}
				}
				want := "not5xx"
				if m.M == "PROPPATCH" && m.Srv == "cal" {
					want = "any"
				}
				if m.Want != "" {
					want = m.Want // documents the wire specifications classify as outside the RFC: 4xx, no backend call
				}
				ev["k"], ev["ci"], ev["want"], ev["r"] = "mutant", i, want, r
				if m.What != "" {
					rr := r
					rr.Body = "outside-rfc(" + m.What + ")"
					ev["k"], ev["r"] = "invalid", rr
				}
				enc.Encode(ev)
				n++
			}
		})
	case "fuzz":
		// below the abstraction: every truncation of the valid documents, and seeded random bytes that cannot start a document
		s := uint64(*seed)*0x9E3779B97F4A7C15 + 1
		next := func() uint64 { s ^= s << 13; s ^= s >> 7; s ^= s << 17; return s }
		for _, srv := range []string{"dav", "cal", "card", "principal"} {
			for _, m := range []string{"PROPFIND", "REPORT", "PROPPATCH", "MKCOL", "PUT"} {
				if (srv == "dav" || srv == "principal") && (m == "REPORT" || m == "MKCOL" || m == "PUT") {
					continue
				}
				level := map[string]int{"dav": 1, "cal": 3, "card": 3, "principal": 1}[srv]
				if m == "PUT" {
					level = 4
				}
				r := Req{Srv: srv, M: m, Level: level, Depth: "absent", Ctype: "xml", Body: "valid", Cond: "none"}
				if m == "PUT" {
					r.Ctype = "obj"
				}
				v := validBody(r)
				step := 1
				if len(v)*4 > *nfuzz {
					step = len(v)*4 / *nfuzz + 1
				}
				for cut := 1; cut < len(v)-1; cut += step {
					w := get(srv, false)
					rr := r
					rr.Body = "truncated"
					ev := send(w, rr, pathOf(srv, level), []byte(v[:cut]), true)
					if ev["mut"].(int) > 0 {
						get(srv, true)
					}
					want := "4xx"
					if t := strings.TrimRight(v[:cut], "\r\n"); m == "PUT" && (strings.HasSuffix(t, "END:VCARD") || strings.HasSuffix(t, "END:VCALENDAR")) {
						want = "any" // the document is complete: only its final line break is missing
					}
					ev["k"], ev["ci"], ev["want"], ev["r"] = "truncation", cut, want, rr
					enc.Encode(ev)
					n++
				}
				// byte-level edits of the valid documents / objects: each position x {delete, structural characters of XML, iCalendar
				// and vCard, NUL, a non-UTF-8 byte}, and seeded pairs of such edits; the result is either still acceptable or
				// refused, never a server error
				alphabet := []int{-1, ';', ':', '=', '"', '\n', '\r', '<', '>', '&', '/', ',', ' ', 0, 0xff, '\\'}
				edit := func(v []byte, pos, a int) []byte {
					var b []byte
					if a < 0 {
						return append(append(b, v[:pos]...), v[pos+1:]...)
					}
					return append(append(append(b, v[:pos]...), byte(a)), v[pos+1:]...)
				}
				for vi, v := range append([]string{v}, richBodies(r)...) {
					if base := send(get(srv, true), r, pathOf(srv, level), []byte(v), false); base["st"].(int) >= 500 {
						if vi > 0 {
							fmt.Fprintln(os.Stderr, "rich document refused with", base["st"], srv, m)
							os.Exit(2)
						}
						continue
					} else if vi > 0 && base["st"].(int) >= 400 {
						fmt.Fprintln(os.Stderr, "rich document is not valid:", base["st"], srv, m, vi)
						os.Exit(2)
					}
					get(srv, true)
					sendEdit := func(kind string, ci int, b []byte) {
						w := get(srv, false)
						rr := r
						rr.Body = "byte-edited"
						ev := send(w, rr, pathOf(srv, level), b, false)
						if ev["mut"].(int) > 0 {
							get(srv, true)
						}
						ev["k"], ev["ci"], ev["want"], ev["r"] = kind, ci, "no5xx", rr
						enc.Encode(ev)
						n++
					}
					bstep := 1
					if len(v)*len(alphabet)*6 > *nfuzz {
						bstep = len(v)*len(alphabet)*6 / *nfuzz + 1
					}
					for pos := int(next() % uint64(bstep)); pos < len(v); pos += bstep {
						for _, a := range alphabet {
							if a >= 0 && byte(a) == v[pos] {
								continue
							}
							sendEdit("byteedit", pos, edit([]byte(v), pos, a))
						}
					}
					for k := 0; k < *nfuzz/40; k++ {
						b := edit([]byte(v), int(next()%uint64(len(v))), alphabet[next()%uint64(len(alphabet))])
						b = edit(b, int(next()%uint64(len(b))), alphabet[next()%uint64(len(alphabet))])
						sendEdit("byteedit2", k, b)
					}
				}
				for k := 0; k < 40; k++ {
					ln := int(next()%200) + 1
					b := make([]byte, ln)
					for j := range b {
						b[j] = byte(next())
					}
					b[0] = []byte{0, 0xff, 0x80, ']', '}', 0x1b}[int(next()%6)] // cannot start an XML document, an iCalendar or a vCard
					w := get(srv, false)
					rr := r
					rr.Body = "garbage"
					ev := send(w, rr, pathOf(srv, level), b, false)
					if ev["mut"].(int) > 0 {
						get(srv, true)
					}
					ev["k"], ev["ci"], ev["want"], ev["r"] = "random", k, "4xx", rr
					enc.Encode(ev)
					n++
				}
			}
		}
	}
	bw.Flush()
	fh.Close()
	fmt.Printf("{\"recorded\":%d}\n", n)
}

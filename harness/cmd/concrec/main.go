// concrec records C18's concurrency half: N goroutines x M operations on pairwise disjoint subtrees through ONE
// webdav.Handler (mode handler: direct ServeHTTP) or ONE webdav.Client over one real HTTP server (mode client: the wire
// exchanges of the shared client are captured per subtree). Every goroutine logs its own requests in program order with
// the response and the snapshot of its own subtree; each per-client log is a sequential DavTree history that the TLC
// judge validates (projection: nobody else touches that subtree). Build with -race: a race report fails the run.
package main

import (
	"bufio"
	"bytes"
	"context"
	"encoding/json"
	"flag"
	"fmt"
	"io"
	"net/http"
	"net/http/httptest"
	"net/url"
	"os"
	"path/filepath"
	"runtime"
	"strings"
	"sync"
	"time"

	webdav "github.com/emersion/go-webdav"

	"verif/harness/dav"
)

type rng struct{ s uint64 }

func (r *rng) next() uint64 {
	r.s ^= r.s << 13
	r.s ^= r.s >> 7
	r.s ^= r.s << 17
	return r.s
}
func (r *rng) pick(n int) int { return int(r.next() % uint64(n)) }

func base(m string, p []string) dav.Req {
	return dav.Req{M: m, P: p, Pflag: "ok", Dform: "na", Dp: []string{}, Depth: "absent", Ow: "absent", Ctype: "none", Ifm: "unset", Ifnm: "unset", Pform: "na"}
}

// near returns paths worth addressing: mapped ones and would-be children of collections
func near(cur []dav.Entry) [][]string {
	names := []string{"a", "b", "c"}
	out := [][]string{}
	for _, e := range cur {
		out = append(out, e.P)
		if e.K == "c" && len(e.P) < 3 {
			for _, n := range names {
				out = append(out, append(append([]string{}, e.P...), n))
			}
		}
	}
	if len(out) == 0 {
		out = append(out, []string{})
	}
	return out
}

func genReq(g *rng, cur []dav.Entry) dav.Req {
	ps := near(cur)
	p := ps[g.pick(len(ps))]
	switch g.pick(10) {
	case 0, 1, 2:
		r := base("PUT", p)
		r.C = []string{"x", "y", "z"}[g.pick(3)]
		return r
	case 3:
		return base("MKCOL", p)
	case 4:
		return base("DELETE", p)
	case 5:
		r := base("COPY", p)
		r.Dform, r.Dp = "path", ps[g.pick(len(ps))]
		r.Depth = []string{"absent", "0", "infinity"}[g.pick(3)]
		r.Ow = []string{"absent", "T", "F"}[g.pick(3)]
		return r
	case 6:
		r := base("MOVE", p)
		r.Dform, r.Dp = "path", ps[g.pick(len(ps))]
		r.Ow = []string{"absent", "T", "F"}[g.pick(3)]
		return r
	case 7:
		return base("GET", p)
	case 8:
		r := base("PROPFIND", p)
		r.Depth = []string{"0", "1", "infinity"}[g.pick(3)]
		r.Pform = "fileinfo"
		return r
	}
	return base("HEAD", p)
}

// ---- client mode: capture the exchanges of the one shared client

type exch struct {
	req  *http.Request
	code int
	hdr  http.Header
	body []byte
}
type capture struct {
	inner http.RoundTripper
	mu    sync.Mutex
	byKey map[string][]exch
}

func (c *capture) RoundTrip(req *http.Request) (*http.Response, error) {
	resp, err := c.inner.RoundTrip(req)
	if err != nil {
		return resp, err
	}
	b, _ := io.ReadAll(resp.Body)
	resp.Body.Close()
	resp.Body = io.NopCloser(bytes.NewReader(b))
	key := strings.SplitN(strings.TrimPrefix(req.URL.Path, "/"), "/", 2)[0]
	c.mu.Lock()
	c.byKey[key] = append(c.byKey[key], exch{req, resp.StatusCode, resp.Header.Clone(), b})
	c.mu.Unlock()
	return resp, nil
}
func (c *capture) take(key string) []exch {
	c.mu.Lock()
	defer c.mu.Unlock()
	x := c.byKey[key]
	c.byKey[key] = nil
	return x
}

// clientCall performs the abstract request through the shared webdav.Client API.
func clientCall(cli *webdav.Client, sb *dav.Sandbox, r dav.Req) {
	ctx := context.Background()
	name := dav.EscapePathRaw(append(append([]string{}, sb.Prefix...), r.P...))
	dest := dav.EscapePathRaw(append(append([]string{}, sb.Prefix...), r.Dp...))
	switch r.M {
	case "PUT":
		w, err := cli.Create(ctx, name)
		if err == nil {
			w.Write(dav.ContentBytes(r.C))
			w.Close()
		}
	case "MKCOL":
		cli.Mkdir(ctx, name)
	case "DELETE":
		cli.RemoveAll(ctx, name)
	case "COPY":
		cli.Copy(ctx, name, dest, &webdav.CopyOptions{NoRecursive: r.Depth == "0", NoOverwrite: r.Ow == "F"})
	case "MOVE":
		cli.Move(ctx, name, dest, &webdav.MoveOptions{NoOverwrite: r.Ow == "F"})
	case "GET", "HEAD":
		if rc, err := cli.Open(ctx, name); err == nil {
			io.Copy(io.Discard, rc)
			rc.Close()
		}
	case "PROPFIND":
		if r.Depth == "0" {
			cli.Stat(ctx, name)
		} else {
			cli.ReadDir(ctx, name, r.Depth == "infinity")
		}
	}
}

// wireReq reads the abstract request back from what the client put on the wire (lexical).
func wireReq(sb *dav.Sandbox, x exch, content string) (dav.Req, bool) {
	segs, fl := sb.HrefSegs(x.req.URL.EscapedPath())
	r := base(x.req.Method, segs)
	if fl != "ok" {
		return r, false
	}
	if x.req.Method == "PUT" {
		r.C = content
		r.Cn = len(dav.ContentBytes(content))
	}
	if d := x.req.Header.Get("Destination"); d != "" {
		u, err := url.Parse(d)
		if err != nil {
			return r, false
		}
		ds, fl2 := sb.HrefSegs(u.EscapedPath())
		if fl2 != "ok" {
			return r, false
		}
		r.Dform, r.Dp = "path", ds
	}
	switch v := x.req.Header.Get("Depth"); v {
	case "":
	case "0", "1", "infinity":
		r.Depth = v
	default:
		r.Depth = "bad"
	}
	switch v := x.req.Header.Get("Overwrite"); v {
	case "":
	case "T", "F":
		r.Ow = v
	default:
		r.Ow = "bad"
	}
	if x.req.Method == "PROPFIND" {
		r.Pform = "fileinfo"
	}
	return r, true
}

func main() {
	mode := flag.String("mode", "handler", "handler | client")
	out := flag.String("out", "", "output directory")
	nclients := flag.Int("clients", 4, "")
	nops := flag.Int("ops", 20, "")
	seed := flag.Int("seed", 1, "")
	procs := flag.Int("procs", 0, "GOMAXPROCS")
	scratch := flag.String("scratch", os.TempDir(), "")
	rounds := flag.Int("rounds", 1, "")
	flag.Parse()
	if *procs > 0 {
		runtime.GOMAXPROCS(*procs)
	}
	os.MkdirAll(*out, 0755)
	toks := dav.NewTokens("x", "y", "z", "")
	total := 0
	for round := 0; round < *rounds; round++ {
		shared, err := dav.NewSandbox(*scratch, toks, dav.NewNameMap("id", map[string]string{}))
		if err != nil {
			fmt.Fprintln(os.Stderr, err)
			os.Exit(2)
		}
		shared.Setup([]dav.Entry{{P: []string{}, K: "c"}})
		h := &webdav.Handler{FileSystem: webdav.LocalFileSystem(shared.Root)}
		var srv *httptest.Server
		var cli *webdav.Client
		var cap *capture
		if *mode == "client" {
			srv = httptest.NewServer(h)
			cap = &capture{inner: &http.Transport{MaxIdleConnsPerHost: 64}, byKey: map[string][]exch{}}
			cli, _ = webdav.NewClient(&http.Client{Transport: cap}, srv.URL)
		}
		var wg sync.WaitGroup
		var mu sync.Mutex
		for ci := 0; ci < *nclients; ci++ {
			wg.Add(1)
			go func(ci int) {
				defer wg.Done()
				key := fmt.Sprintf("c%d", ci)
				sb := &dav.Sandbox{Base: shared.Base, Root: filepath.Join(shared.Root, key), Toks: toks, NM: shared.NM, Prefix: []string{key}, Shared: true}
				sb.CopyLeaks(shared)
				os.Mkdir(sb.Root, 0755)
				g := &rng{s: uint64(*seed)*1000003 + uint64(round)*7919 + uint64(ci)*104729 + 17}
				fh, _ := os.Create(filepath.Join(*out, fmt.Sprintf("conc-%s-r%d-%s.ndjson", *mode, round, key)))
				w := bufio.NewWriter(fh)
				enc := json.NewEncoder(w)
				cur := []dav.Entry{{P: []string{}, K: "c"}}
				enc.Encode(dav.TreeLine{K: "tree", T: cur})
				n := 0
				for op := 0; op < *nops; op++ {
					r := genReq(g, cur)
					if *mode == "handler" {
						st := sb.Exec(h, r, "cur", cur, op, func(string) string { return "" })
						st.Cid = fmt.Sprintf("%s-op%d", key, op)
						enc.Encode(st)
						n++
						if !st.Same {
							cur = st.Post
						}
					} else {
						// a call that does not return is the end of the run: it is reported as such (exit 0, "hang" in the summary)
						fin := make(chan struct{})
						go func() { clientCall(cli, sb, r); close(fin) }()
						select {
						case <-fin:
						case <-time.After(90 * time.Second):
							fmt.Printf("{\"recorded\":%d,\"hang\":\"client %s, operation %d (%s) did not return within 90 s\"}\n", total, key, op, r.M)
							os.Exit(0)
						}
						post := dav.NormEntries(sb.Snapshot())
						xs := cap.take(key)
						for xi, x := range xs {
							wr, ok := wireReq(sb, x, r.C)
							st := dav.Step{K: "step", From: "cur", Req: wr, St: x.code, Post: []dav.Entry{}, Outside: "same", Conc: "id"}
							if !ok {
								st.Skip = "request left the client's subtree"
							}
							if st.Req.P == nil {
								st.Req.P = []string{}
							}
							if st.Req.Dp == nil {
								st.Req.Dp = []string{}
							}
							st.Rep = sb.Observe(&wr, dav.Served{Code: x.code, Header: x.hdr, Body: x.body})
							// the subtree is snapshotted after the client call: attribute the effect to its last exchange
							if xi == len(xs)-1 {
								if dav.SameTree(cur, post) {
									st.Same = true
								} else {
									st.Post = post
								}
							} else {
								st.Same = true
							}
							st.Cid = fmt.Sprintf("%s-op%d-x%d", key, op, xi)
							enc.Encode(st)
							n++
						}
						cur = post
					}
				}
				w.Flush()
				fh.Close()
				mu.Lock()
				total += n
				mu.Unlock()
			}(ci)
		}
		wg.Wait()
		if srv != nil {
			srv.Close()
		}
		shared.Close()
	}
	fmt.Printf("{\"recorded\":%d}\n", total)
}

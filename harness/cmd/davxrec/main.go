// davxrec: C18 for the CalDAV / CardDAV handlers and the principal helper.  One handler of each kind (mounted under a
// prefix spelled with a trailing slash) is shared by N goroutines that send read requests (OPTIONS, PROPFIND at every
// level and depth, REPORT, GET) and writes on objects of their own; every answer is compared with the answer the same
// request gets when it runs alone.  Built with -race: a data race on library state is reported by the detector.
package main

import (
	"bufio"
	"bytes"
	"crypto/sha1"
	"encoding/hex"
	"encoding/json"
	"flag"
	"fmt"
	"net/http"
	"net/http/httptest"
	"os"
	"runtime"
	"sort"
	"sync"
	"time"

	"github.com/emersion/go-ical"
	"github.com/emersion/go-vcard"
	webdav "github.com/emersion/go-webdav"
	"github.com/emersion/go-webdav/caldav"
	"github.com/emersion/go-webdav/carddav"

	"verif/harness/backends"
)

type xreq struct {
	Srv, M, Path, Depth, Body, Ctype string
}

func newCal() *ical.Calendar {
	cal := ical.NewCalendar()
	cal.Props.SetText(ical.PropVersion, "2.0")
	cal.Props.SetText(ical.PropProductID, "-//verif//EN")
	ev := ical.NewComponent(ical.CompEvent)
	ev.Props.SetText(ical.PropUID, "u1")
	ev.Props.SetDateTime(ical.PropDateTimeStamp, time.Date(2020, 1, 1, 0, 0, 0, 0, time.UTC))
	ev.Props.SetDateTime(ical.PropDateTimeStart, time.Date(2020, 1, 1, 10, 0, 0, 0, time.UTC))
	cal.Children = append(cal.Children, ev)
	return cal
}

func newCard() vcard.Card {
	c := vcard.Card{}
	c.SetValue(vcard.FieldVersion, "3.0")
	c.SetValue(vcard.FieldFormattedName, "x")
	return c
}

const calQuery = `<?xml version="1.0"?><C:calendar-query xmlns:C="urn:ietf:params:xml:ns:caldav" xmlns:D="DAV:"><D:prop><D:getetag/><C:calendar-data/></D:prop><C:filter><C:comp-filter name="VCALENDAR"/></C:filter></C:calendar-query>`
const cardQuery = `<?xml version="1.0"?><C:addressbook-query xmlns:C="urn:ietf:params:xml:ns:carddav" xmlns:D="DAV:"><D:prop><D:getetag/><C:address-data/></D:prop><C:filter/></C:addressbook-query>`
const propfind = `<?xml version="1.0"?><D:propfind xmlns:D="DAV:"><D:allprop/></D:propfind>`

type answer struct {
	St  int
	Sum string
}

func serve(h http.Handler, x xreq) answer {
	var body *bytes.Reader
	if x.Body != "" {
		body = bytes.NewReader([]byte(x.Body))
	}
	var req *http.Request
	if body != nil {
		req = httptest.NewRequest(x.M, x.Path, body)
	} else {
		req = httptest.NewRequest(x.M, x.Path, http.NoBody)
	}
	if x.Ctype != "" {
		req.Header.Set("Content-Type", x.Ctype)
	}
	if x.Depth != "" {
		req.Header.Set("Depth", x.Depth)
	}
	rw := httptest.NewRecorder()
	func() {
		defer func() {
			if recover() != nil {
				rw.Code = -1
			}
		}()
		h.ServeHTTP(rw, req)
	}()
	// the servers iterate over maps: properties come in any order, so the body is compared as a multiset of bytes
	bb := append([]byte{}, rw.Body.Bytes()...)
	sort.Slice(bb, func(i, j int) bool { return bb[i] < bb[j] })
	s := sha1.Sum(bb)
	return answer{St: rw.Code, Sum: hex.EncodeToString(s[:6]) + "|" + rw.Header().Get("Location") + "|" + rw.Header().Get("Dav") + "|" + rw.Header().Get("Etag")}
}

func main() {
	out := flag.String("out", "", "output ndjson")
	nclients := flag.Int("clients", 8, "")
	nops := flag.Int("ops", 40, "")
	procs := flag.Int("procs", 0, "GOMAXPROCS")
	flag.Parse()
	if *procs > 0 {
		runtime.GOMAXPROCS(*procs)
	}
	calBe := &backends.Cal{Principal: "/dav/u/", HomeSet: "/dav/u/cal/", Objects: map[string]*caldav.CalendarObject{}, ListOnQuery: true,
		Calendars: []caldav.Calendar{{Path: "/dav/u/cal/c1/", Name: "n"}}}
	cardBe := &backends.Card{Principal: "/dav/u/", HomeSet: "/dav/u/card/", Objects: map[string]*carddav.AddressObject{}, ListOnQuery: true,
		Books: []carddav.AddressBook{{Path: "/dav/u/card/b1/", Name: "n"}}}
	for i := 0; i < 3; i++ {
		p := fmt.Sprintf("/dav/u/cal/c1/o%d.ics", i)
		calBe.Objects[p] = &caldav.CalendarObject{Path: p, ETag: fmt.Sprintf("e%d", i), ModTime: time.Unix(1600000000, 0), ContentLength: 100, Data: newCal()}
		q := fmt.Sprintf("/dav/u/card/b1/o%d.vcf", i)
		cardBe.Objects[q] = &carddav.AddressObject{Path: q, ETag: fmt.Sprintf("e%d", i), ModTime: time.Unix(1600000000, 0), ContentLength: 60, Card: newCard()}
	}
	hs := map[string]http.Handler{
		"cal":  &caldav.Handler{Backend: calBe, Prefix: "/dav/"},
		"card": &carddav.Handler{Backend: cardBe, Prefix: "/dav/"},
		"principal": http.HandlerFunc(func(w http.ResponseWriter, r *http.Request) {
			webdav.ServePrincipal(w, r, &webdav.ServePrincipalOptions{CurrentUserPrincipalPath: "/dav/u/",
				HomeSets: []webdav.BackendSuppliedHomeSet{caldav.NewCalendarHomeSet("/dav/u/cal/"), carddav.NewAddressBookHomeSet("/dav/u/card/")}})
		}),
	}
	var reqs []xreq
	xml := "application/xml; charset=utf-8"
	for _, srv := range []string{"cal", "card"} {
		kind, col, ext, query := "cal", "c1", "ics", calQuery
		if srv == "card" {
			kind, col, ext, query = "card", "b1", "vcf", cardQuery
		}
		for _, p := range []string{"/dav/", "/dav/u/", "/dav/u/" + kind + "/", "/dav/u/" + kind + "/" + col + "/", "/dav/u/" + kind + "/" + col + "/o1." + ext} {
			reqs = append(reqs, xreq{srv, "OPTIONS", p, "", "", ""})
			for _, d := range []string{"0", "1"} {
				reqs = append(reqs, xreq{srv, "PROPFIND", p, d, propfind, xml})
			}
		}
		reqs = append(reqs, xreq{srv, "REPORT", "/dav/u/" + kind + "/" + col + "/", "1", query, xml})
		reqs = append(reqs, xreq{srv, "GET", "/dav/u/" + kind + "/" + col + "/o1." + ext, "", "", ""})
		reqs = append(reqs, xreq{srv, "PROPFIND", "/.well-known/" + kind + "dav", "0", "", ""})
	}
	reqs = append(reqs, xreq{"principal", "PROPFIND", "/dav/u/", "0", propfind, xml}, xreq{"principal", "OPTIONS", "/dav/u/", "", "", ""})
	alone := make([]answer, len(reqs))
	for i, x := range reqs {
		alone[i] = serve(hs[x.Srv], x)
	}
	fh, err := os.Create(*out)
	if err != nil {
		fmt.Fprintln(os.Stderr, err)
		os.Exit(2)
	}
	w := bufio.NewWriter(fh)
	enc := json.NewEncoder(w)
	var mu sync.Mutex
	var wg sync.WaitGroup
	n := 0
	for c := 0; c < *nclients; c++ {
		wg.Add(1)
		go func(c int) {
			defer wg.Done()
			for op := 0; op < *nops; op++ {
				i := (c*7 + op*13) % len(reqs)
				got := serve(hs[reqs[i].Srv], reqs[i])
				mu.Lock()
				enc.Encode(map[string]interface{}{"k": "davx", "srv": reqs[i].Srv, "m": reqs[i].M, "level": i, "same": got == alone[i], "st": got.St, "alone": alone[i].St})
				n++
				mu.Unlock()
			}
		}(c)
	}
	wg.Wait()
	w.Flush()
	fh.Close()
	fmt.Printf("{\"recorded\":%d}\n", n)
}

// c04rec records the parts of C04 that are not about LocalFileSystem: entity-tag announcements of the WebDAV
// handler over an in-memory FileSystem holding arbitrary tags (PUT, GET, HEAD, PROPFIND must announce one and
// the same string), the public ConditionalMatch helpers over announced / wildcard / malformed values, and the
// byte-for-byte hand-over of If-Match / If-None-Match to WebDAV, CalDAV and CardDAV backends.
package main

import (
	"bufio"
	"encoding/json"
	"flag"
	"fmt"
	"net/http"
	"net/http/httptest"
	"os"
	"strings"

	webdav "github.com/emersion/go-webdav"
	"github.com/emersion/go-webdav/caldav"
	"github.com/emersion/go-webdav/carddav"

	"verif/harness/backends"
	"verif/harness/dav"
)

type Ann struct {
	K        string `json:"k"` // "ann"
	T        int    `json:"t"` // index of the stored tag
	Get      string `json:"get"`
	Head     string `json:"head"`
	Put      string `json:"put"`
	Propfind string `json:"propfind"`
	Raw      string `json:"raw"`
}

type Helper struct {
	K        string `json:"k"` // "helper"
	V        string `json:"v"` // class of the header value: empty | star | ann | bad
	Vt       int    `json:"vt"`
	Tag      int    `json:"tag"` // index of the resource's tag, -1 = no resource
	IsSet    bool   `json:"isset"`
	IsWild   bool   `json:"iswild"`
	Etag     int    `json:"etag"` // index of the tag ETag() returned, -1 = none of the known ones
	EtagErr  bool   `json:"etagerr"`
	Match    bool   `json:"match"`
	MatchErr bool   `json:"matcherr"`
	Panic    bool   `json:"panic"`
	Raw      string `json:"raw"`
}

type Pass struct {
	K       string `json:"k"` // "pass"
	Srv     string `json:"srv"`
	M       string `json:"m"`
	Ifm     string `json:"ifm"`
	Ifnm    string `json:"ifnm"`
	Called  int    `json:"called"`
	GotIfm  string `json:"gotifm"`
	GotIfnm string `json:"gotifnm"`
	St      int    `json:"st"`
	Panic   bool   `json:"panic"`
}

var tags = []string{
	"abc", `a"b`, `a\b`, "ü-ñ-日本", "a b", "a,b", "*", "W/x", `\"`, "`bq`", "%41%22", "x'y", "a\tb", "a\nb", "a\x00b", " ", "<&>",
	strings.Repeat("long", 40), "0", " lead", "trail ",
}

var bad = []string{"abc", `"unterminated`, `x"y"`, `""""`, `"a"b"`, "W/\"x\"z", "\"a\nb\""}

func indexOf(s string) int {
	for i, t := range tags {
		if t == s {
			return i
		}
	}
	return -1
}

func serve(h http.Handler, method, target string, hdr map[string]string, body string) dav.Served {
	var rd *strings.Reader
	if body != "" {
		rd = strings.NewReader(body)
	}
	var req *http.Request
	if rd != nil {
		req = httptest.NewRequest(method, target, rd)
	} else {
		req = httptest.NewRequest(method, target, http.NoBody)
	}
	for k, v := range hdr {
		req.Header[k] = []string{v}
	}
	return dav.Serve(h, req)
}

const pfBody = `<?xml version="1.0"?><D:propfind xmlns:D="DAV:"><D:prop><D:getetag/></D:prop></D:propfind>`

const icalBody = "BEGIN:VCALENDAR\r\nVERSION:2.0\r\nPRODID:-//x//y//EN\r\nBEGIN:VEVENT\r\nUID:u1\r\nDTSTAMP:20200101T000000Z\r\nDTSTART:20200101T000000Z\r\nEND:VEVENT\r\nEND:VCALENDAR\r\n"
const vcardBody = "BEGIN:VCARD\r\nVERSION:3.0\r\nFN:x\r\nEND:VCARD\r\n"

func main() {
	out := flag.String("out", "", "output ndjson")
	flag.Int("seed", 0, "")
	flag.Parse()
	fh, err := os.Create(*out)
	if err != nil {
		fmt.Fprintln(os.Stderr, err)
		os.Exit(2)
	}
	w := bufio.NewWriter(fh)
	enc := json.NewEncoder(w)
	n := 0

	// (a) announcements through the real handler over the in-memory backend
	announced := make([]string, len(tags))
	for i, t := range tags {
		mem := backends.NewMem()
		mem.Put(webdav.FileInfo{Path: "/f", ETag: t, MIMEType: "text/plain"}, []byte("data"))
		h := &webdav.Handler{FileSystem: mem}
		g := serve(h, "GET", "/f", nil, "")
		hd := serve(h, "HEAD", "/f", nil, "")
		// PUT onto the existing file: the double keeps the stored tag and reports it
		p := serve(h, "PUT", "/f", nil, "data")
		pf := serve(h, "PROPFIND", "/f", map[string]string{"Content-Type": "application/xml", "Depth": "0"}, pfBody)
		a := Ann{K: "ann", T: i, Get: g.Header.Get("ETag"), Head: hd.Header.Get("ETag"), Put: p.Header.Get("ETag"), Raw: t}
		if ms, ok := dav.ParseMultiStatus(pf.Body); ok && len(ms) == 1 {
			a.Propfind = ms[0].Props["getetag"]
		}
		announced[i] = a.Get
		enc.Encode(a)
		n++
	}

	// (b) the public helpers
	type val struct {
		class string
		vt    int
		s     string
	}
	vals := []val{{"empty", -1, ""}, {"star", -1, "*"}}
	for i := range tags {
		if announced[i] != "" {
			vals = append(vals, val{"ann", i, announced[i]})
		}
	}
	for _, b := range bad {
		vals = append(vals, val{"bad", -1, b})
	}
	for _, v := range vals {
		for ti := -1; ti < len(tags); ti++ {
			ev := Helper{K: "helper", V: v.class, Vt: v.vt, Tag: ti, Etag: -1, Raw: v.s}
			func() {
				defer func() {
					if recover() != nil {
						ev.Panic = true
					}
				}()
				cm := webdav.ConditionalMatch(v.s)
				ev.IsSet = cm.IsSet()
				ev.IsWild = cm.IsWildcard()
				e, err := cm.ETag()
				ev.EtagErr = err != nil
				if err == nil {
					ev.Etag = indexOf(e)
				}
				etag := ""
				if ti >= 0 {
					etag = tags[ti]
				}
				m, err := cm.MatchETag(etag)
				ev.Match = m
				ev.MatchErr = err != nil
			}()
			enc.Encode(ev)
			n++
		}
	}

	// (c) hand-over of both header values to the backends
	hv := []string{"", "*", `"t1"`, `"a\"b"`, "unquoted", `"ü-ñ"`, `W/"weak"`, `"a", "b"`, `"x`, `"%41"`}
	for _, srv := range []string{"webdav", "caldav", "carddav"} {
		for _, m := range []string{"PUT", "DELETE"} {
			if srv != "webdav" && m == "DELETE" {
				continue // the CalDAV/CardDAV backends receive no options on DELETE
			}
			for _, a := range hv {
				for _, b := range hv {
					hdr := map[string]string{}
					if a != "" {
						hdr["If-Match"] = a
					}
					if b != "" {
						hdr["If-None-Match"] = b
					}
					ev := Pass{K: "pass", Srv: srv, M: m, Ifm: a, Ifnm: b}
					var calls []backends.Call
					var s dav.Served
					switch srv {
					case "webdav":
						mem := backends.NewMem()
						mem.Put(webdav.FileInfo{Path: "/f", ETag: "t1"}, []byte("old"))
						s = serve(&webdav.Handler{FileSystem: mem}, m, "/f", hdr, "new")
						calls = mem.Take()
					case "caldav":
						be := &backends.Cal{Principal: "/u/", HomeSet: "/u/cal/"}
						hdr["Content-Type"] = "text/calendar"
						s = serve(&caldav.Handler{Backend: be}, m, "/u/cal/c/o.ics", hdr, icalBody)
						calls = be.Take()
					case "carddav":
						be := &backends.Card{Principal: "/u/", HomeSet: "/u/card/"}
						hdr["Content-Type"] = "text/vcard"
						s = serve(&carddav.Handler{Backend: be}, m, "/u/card/b/o.vcf", hdr, vcardBody)
						calls = be.Take()
					}
					ev.St = s.Code
					ev.Panic = s.Panic
					for _, c := range calls {
						if c.Op == "Create" || c.Op == "RemoveAll" || c.Op == "PutCalendarObject" || c.Op == "PutAddressObject" {
							ev.Called++
							if mm, ok := c.Arg.(map[string]interface{}); ok {
								ev.GotIfm, _ = mm["ifm"].(string)
								ev.GotIfnm, _ = mm["ifnm"].(string)
							}
						}
					}
					enc.Encode(ev)
					n++
				}
			}
		}
	}
	w.Flush()
	fh.Close()
	fmt.Printf("{\"recorded\":%d}\n", n)
}

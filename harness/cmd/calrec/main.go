// calrec is the F2 recorder for C06 and C19: it builds real ical components and caldav filters from the
// abstract cases TLC enumerated, calls the real caldav.Match / caldav.Filter / caldav.ValidateCalendarObject and
// records verdicts lexically (0 false, 1 true, 2 error, 3 panic). It computes no expectation.
package main

import (
	"bufio"
	"bytes"
	"encoding/json"
	"flag"
	"fmt"
	"os"
	"strings"
	"sync"
	"time"

	"github.com/emersion/go-ical"
	"github.com/emersion/go-webdav/caldav"
)

type Param struct {
	N string   `json:"n"`
	V []string `json:"v"`
}
type Prop struct {
	N      string   `json:"n"`
	V      []string `json:"v"`
	Params []Param  `json:"params"`
	T      []int    `json:"t"`
}
type Rec struct {
	Period int `json:"period"`
	Count  int `json:"count"`
}
type Timing struct {
	Ds   int    `json:"ds"`
	Kind string `json:"kind"`
	X    int    `json:"x"`
	Rr   []Rec  `json:"rr"`
}
type Comp struct {
	Name  string   `json:"name"`
	Props []Prop   `json:"props"`
	Kids  []Comp   `json:"kids"`
	Ev    []Timing `json:"ev"`
}
type TMatch struct {
	Text []string `json:"text"`
	Neg  bool     `json:"neg"`
}
type TRange struct {
	S []int `json:"s"`
	E []int `json:"e"`
}
type ParamF struct {
	Name string   `json:"name"`
	Isnd bool     `json:"isnd"`
	Tm   []TMatch `json:"tm"`
}
type PropF struct {
	Name   string   `json:"name"`
	Isnd   bool     `json:"isnd"`
	Tm     []TMatch `json:"tm"`
	Tr     []TRange `json:"tr"`
	Params []ParamF `json:"params"`
}
type CompF struct {
	Name  string   `json:"name"`
	Isnd  bool     `json:"isnd"`
	Tr    []TRange `json:"tr"`
	Props []PropF  `json:"props"`
	Comps []CompF  `json:"comps"`
}
type Pair struct {
	F CompF `json:"f"`
	C Comp  `json:"c"`
}

// grid maps integer instants onto real time.
type grid struct {
	origin time.Time
	unit   time.Duration
	loc    *time.Location // location in which the filter's range is handed over (same instants)
	freq   string         // recurrence frequency standing for "period" units
}

func (g grid) at(k int) time.Time { return g.origin.Add(time.Duration(k) * g.unit) }

var letters = map[string]string{"a": "a", "b": "b"}

func text(v []string) string {
	var b strings.Builder
	for _, l := range v {
		if s, ok := letters[l]; ok {
			b.WriteString(s)
		} else {
			b.WriteString(l)
		}
	}
	return b.String()
}

func fmtDur(d time.Duration) string {
	secs := int64(d / time.Second)
	if secs == 0 {
		return "PT0S"
	}
	days := secs / 86400
	secs -= days * 86400
	h := secs / 3600
	secs -= h * 3600
	s := "P"
	if days > 0 {
		s += fmt.Sprintf("%dD", days)
	}
	if h > 0 || secs > 0 {
		s += "T"
		if h > 0 {
			s += fmt.Sprintf("%dH", h)
		}
		if secs > 0 {
			s += fmt.Sprintf("%dS", secs)
		}
	}
	return s
}

func buildComp(c Comp, g grid) *ical.Component {
	out := ical.NewComponent(c.Name)
	for _, p := range c.Props {
		ip := ical.NewProp(p.N)
		ip.Value = text(p.V)
		for _, pa := range p.Params {
			ip.Params.Set(pa.N, text(pa.V))
		}
		if len(p.T) == 1 {
			ip.Value = g.at(p.T[0]).UTC().Format("20060102T150405Z")
		}
		out.Props.Add(ip)
	}
	if len(c.Ev) == 1 {
		ev := c.Ev[0]
		date := ev.Kind == "date" || ev.Kind == "datedtend"
		st := ical.NewProp(ical.PropDateTimeStart)
		if date {
			st.SetValueType(ical.ValueDate)
			st.Value = g.at(ev.Ds).UTC().Format("20060102")
		} else {
			st.Value = g.at(ev.Ds).UTC().Format("20060102T150405Z")
		}
		out.Props.Add(st)
		switch ev.Kind {
		case "dtend":
			e := ical.NewProp(ical.PropDateTimeEnd)
			e.Value = g.at(ev.X).UTC().Format("20060102T150405Z")
			out.Props.Add(e)
		case "datedtend":
			e := ical.NewProp(ical.PropDateTimeEnd)
			e.SetValueType(ical.ValueDate)
			e.Value = g.at(ev.X).UTC().Format("20060102")
			out.Props.Add(e)
		case "dur":
			d := ical.NewProp(ical.PropDuration)
			d.Value = fmtDur(time.Duration(ev.X) * g.unit)
			out.Props.Add(d)
		}
		if len(ev.Rr) == 1 {
			r := ical.NewProp(ical.PropRecurrenceRule)
			r.Value = fmt.Sprintf("FREQ=%s;COUNT=%d", g.freq, ev.Rr[0].Count)
			out.Props.Add(r)
		}
	}
	for _, k := range c.Kids {
		out.Children = append(out.Children, buildComp(k, g))
	}
	return out
}

func optTM(tm []TMatch) *caldav.TextMatch {
	if len(tm) == 0 {
		return nil
	}
	return &caldav.TextMatch{Text: text(tm[0].Text), NegateCondition: tm[0].Neg}
}

func rangeOf(tr []TRange, g grid) (s, e time.Time) {
	if len(tr) == 0 {
		return
	}
	if len(tr[0].S) == 1 {
		s = g.at(tr[0].S[0]).In(g.loc)
	}
	if len(tr[0].E) == 1 {
		e = g.at(tr[0].E[0]).In(g.loc)
	}
	return
}

func buildFilter(f CompF, g grid) caldav.CompFilter {
	out := caldav.CompFilter{Name: f.Name, IsNotDefined: f.Isnd}
	out.Start, out.End = rangeOf(f.Tr, g)
	for _, p := range f.Props {
		pf := caldav.PropFilter{Name: p.Name, IsNotDefined: p.Isnd, TextMatch: optTM(p.Tm)}
		pf.Start, pf.End = rangeOf(p.Tr, g)
		for _, pa := range p.Params {
			pf.ParamFilter = append(pf.ParamFilter, caldav.ParamFilter{Name: pa.Name, IsNotDefined: pa.Isnd, TextMatch: optTM(pa.Tm)})
		}
		out.Props = append(out.Props, pf)
	}
	for _, c := range f.Comps {
		out.Comps = append(out.Comps, buildFilter(c, g))
	}
	return out
}

func verdict(f caldav.CompFilter, co *caldav.CalendarObject) (v int) {
	defer func() {
		if recover() != nil {
			v = 3
		}
	}()
	ok, err := caldav.Match(f, co)
	if err != nil {
		return 2
	}
	if ok {
		return 1
	}
	return 0
}

func enc(c *ical.Component) string {
	var b bytes.Buffer
	dump(&b, c)
	return b.String()
}
func dump(b *bytes.Buffer, c *ical.Component) {
	fmt.Fprintf(b, "<%s", c.Name)
	var names []string
	for n := range c.Props {
		names = append(names, n)
	}
	// map order is irrelevant for the comparison of a dump with itself taken the same way
	sortStrings(names)
	for _, n := range names {
		for _, p := range c.Props[n] {
			fmt.Fprintf(b, " %s=%q%v", n, p.Value, p.Params)
		}
	}
	for _, k := range c.Children {
		dump(b, k)
	}
	b.WriteString(">")
}
func sortStrings(a []string) {
	for i := 1; i < len(a); i++ {
		for j := i; j > 0 && a[j] < a[j-1]; j-- {
			a[j], a[j-1] = a[j-1], a[j]
		}
	}
}

func readAll(path string, each func([]byte) error) error {
	fh, err := os.Open(path)
	if err != nil {
		return err
	}
	defer fh.Close()
	sc := bufio.NewScanner(fh)
	sc.Buffer(make([]byte, 1<<20), 64<<20)
	for sc.Scan() {
		if len(bytes.TrimSpace(sc.Bytes())) == 0 {
			continue
		}
		if err := each(append([]byte{}, sc.Bytes()...)); err != nil {
			return err
		}
	}
	return sc.Err()
}

func fixed(name string, secs int) *time.Location { return time.FixedZone(name, secs) }

func main() {
	mode := flag.String("mode", "product", "product | pairs | validate")
	filtersF := flag.String("filters", "", "")
	calsF := flag.String("cals", "", "")
	pairsF := flag.String("pairs", "", "")
	out := flag.String("out", "", "output directory")
	shards := flag.Int("shards", 16, "")
	fmod := flag.Int("fmod", 1, "take filters with index % fmod == frem")
	frem := flag.Int("frem", 0, "")
	unit := flag.Int("unit", 3600, "seconds per grid unit")
	freq := flag.String("freq", "DAILY", "")
	zone := flag.Int("zone", 0, "zone offset (seconds) in which ranges are handed over")
	tag := flag.String("tag", "", "label copied into every observation")
	flag.Parse()
	g := grid{origin: time.Date(2021, 3, 1, 0, 0, 0, 0, time.UTC), unit: time.Duration(*unit) * time.Second, loc: time.UTC, freq: *freq}
	if *zone != 0 {
		g.loc = fixed("Z", *zone)
	}
	os.MkdirAll(*out, 0755)
	total := 0
	var mu sync.Mutex
	var wg sync.WaitGroup

	switch *mode {
	case "product":
		var filters []CompF
		var cals []Comp
		must(readAll(*filtersF, func(b []byte) error { var f CompF; e := json.Unmarshal(b, &f); filters = append(filters, f); return e }))
		must(readAll(*calsF, func(b []byte) error { var c Comp; e := json.Unmarshal(b, &c); cals = append(cals, c); return e }))
		objs := make([]caldav.CalendarObject, len(cals))
		for i, c := range cals {
			objs[i] = caldav.CalendarObject{Path: fmt.Sprintf("/o/%d", i), Data: &ical.Calendar{Component: buildComp(c, g)}}
		}
		before := make([]string, len(objs))
		for i := range objs {
			before[i] = enc(objs[i].Data.Component)
		}
		for sh := 0; sh < *shards; sh++ {
			wg.Add(1)
			go func(sh int) {
				defer wg.Done()
				fh, _ := os.Create(fmt.Sprintf("%s/obs-%02d.ndjson", *out, sh))
				w := bufio.NewWriterSize(fh, 1<<20)
				n := 0
				k := 0
				for fi, f := range filters {
					if fi%*fmod != *frem {
						continue
					}
					if k%*shards != sh {
						k++
						continue
					}
					k++
					rf := buildFilter(f, g)
					snap := fmt.Sprintf("%+v", rf)
					vs := make([]int, len(objs))
					for i := range objs {
						vs[i] = verdict(rf, &objs[i])
					}
					// Filter over a prefix of the list: returned objects identified by path, in order
					m := 60
					if m > len(objs) {
						m = len(objs)
					}
					fl := []int{}
					flerr := false
					func() {
						defer func() {
							if recover() != nil {
								flerr = true
							}
						}()
						res, err := caldav.Filter(&caldav.CalendarQuery{CompFilter: rf}, objs[:m])
						if err != nil {
							flerr = true
							return
						}
						for _, r := range res {
							var ix int
							fmt.Sscanf(r.Path, "/o/%d", &ix)
							fl = append(fl, ix+1)
						}
					}()
					same := snap == fmt.Sprintf("%+v", rf)
					b, _ := json.Marshal(map[string]interface{}{"k": "vec", "f": fi + 1, "vs": vs, "m": m, "fl": fl, "flerr": flerr, "argsame": same, "tag": *tag})
					w.Write(b)
					w.WriteByte('\n')
					n++
				}
				w.Flush()
				fh.Close()
				mu.Lock()
				total += n
				mu.Unlock()
			}(sh)
		}
		wg.Wait()
		// nil query returns everything; objects unmodified by all the calls above
		changed := 0
		for i := range objs {
			if enc(objs[i].Data.Component) != before[i] {
				changed++
			}
		}
		res, err := caldav.Filter(nil, objs)
		fh, _ := os.Create(fmt.Sprintf("%s/obs-nil.ndjson", *out))
		b, _ := json.Marshal(map[string]interface{}{"k": "nil", "n": len(objs), "got": len(res), "err": err != nil, "changed": changed, "tag": *tag})
		fh.Write(append(b, '\n'))
		fh.Close()
		total++
	case "pairs":
		var pairs []Pair
		must(readAll(*pairsF, func(b []byte) error { var p Pair; e := json.Unmarshal(b, &p); pairs = append(pairs, p); return e }))
		fh, _ := os.Create(fmt.Sprintf("%s/obs-pairs-%s.ndjson", *out, *tag))
		w := bufio.NewWriterSize(fh, 1<<20)
		for i, p := range pairs {
			gg := g
			if len(p.C.Kids) == 1 && len(p.C.Kids[0].Ev) == 1 {
				k := p.C.Kids[0].Ev[0].Kind
				if k == "date" || k == "datedtend" {
					gg.unit = 24 * time.Hour // all-day values live on a day grid, floating dates read in UTC
					gg.loc = time.UTC
				}
			}
			obj := caldav.CalendarObject{Path: "/o", Data: &ical.Calendar{Component: buildComp(p.C, gg)}}
			v := verdict(buildFilter(p.F, gg), &obj)
			b, _ := json.Marshal(map[string]interface{}{"k": "pair", "i": i + 1, "v": v, "tag": *tag})
			w.Write(b)
			w.WriteByte('\n')
			total++
		}
		w.Flush()
		fh.Close()
	case "validate":
		type vc struct {
			Comps []struct {
				Type string `json:"type"`
				Uid  string `json:"uid"`
			} `json:"comps"`
			Method bool `json:"method"`
		}
		fh, _ := os.Create(fmt.Sprintf("%s/obs-validate.ndjson", *out))
		w := bufio.NewWriterSize(fh, 1<<20)
		i := 0
		must(readAll(*calsF, func(b []byte) error {
			var c vc
			if err := json.Unmarshal(b, &c); err != nil {
				return err
			}
			i++
			cal := ical.NewCalendar()
			cal.Props.SetText(ical.PropVersion, "2.0")
			cal.Props.SetText(ical.PropProductID, "-//verif//EN")
			if c.Method {
				// the property's presence is what counts, not its value (concretised per tag, including an empty one)
				cal.Props.SetText(ical.PropMethod, map[string]string{"special": "", "prefix": "x-custom"}[*tag]+map[string]string{"": "PUBLISH"}[*tag])
			}
			for _, k := range c.Comps {
				comp := ical.NewComponent(k.Type)
				if k.Uid != "" {
					comp.Props.SetText(ical.PropUID, uidText(k.Uid, *tag))
				}
				cal.Children = append(cal.Children, comp)
			}
			before := enc(cal.Component)
			var typ, uid string
			var err error
			panicked := false
			func() {
				defer func() {
					if recover() != nil {
						panicked = true
					}
				}()
				typ, uid, err = caldav.ValidateCalendarObject(cal)
			}()
			same := before == enc(cal.Component)
			ob, _ := json.Marshal(map[string]interface{}{"k": "val", "i": i, "ok": err == nil && !panicked, "panic": panicked, "type": typ,
				"uid": uidBack(uid, *tag), "argsame": same, "tag": *tag})
			w.Write(ob)
			w.WriteByte('\n')
			total++
			return nil
		}))
		w.Flush()
		fh.Close()
	}
	fmt.Printf("{\"recorded\":%d}\n", total)
}

// uid tokens are concretised (injectively) per tag; unknown strings map back to themselves
func uidText(tok, tag string) string {
	switch tag {
	case "special":
		return map[string]string{"u1": "a,b;c\\n@x", "u2": "a,b;c\\n@X"}[tok]
	case "prefix":
		return map[string]string{"u1": "uid", "u2": "uid "}[tok]
	}
	return tok
}
func uidBack(s, tag string) string {
	for _, t := range []string{"u1", "u2"} {
		if uidText(t, tag) == s {
			return t
		}
	}
	return s
}

func must(err error) {
	if err != nil {
		fmt.Fprintln(os.Stderr, err)
		os.Exit(2)
	}
}

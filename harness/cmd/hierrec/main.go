// hierrec is the F2 recorder for C11 and C12: the CalDAV / CardDAV handlers (and the WebDAV file server and the
// principal helper for C11) under mount prefixes, with recording backend doubles.
//
//	route : one request per (prefix, spelling, path below the prefix, method): status, backend calls (op, path), hrefs
//	chain : the real clients run the discovery chain over a real HTTP server; results next to the backend's layout
//	pf    : PROPFIND accounting: propname, allprop and prop(names) answers per resource, parsed by the strict reader
package main

import (
	"bufio"
	"bytes"
	"context"
	"encoding/json"
	"flag"
	"fmt"
	"net/http"
	"net/http/httptest"
	"net/url"
	"os"
	"path/filepath"
	"sort"
	"strconv"
	"strings"
	"time"

	"github.com/emersion/go-ical"
	"github.com/emersion/go-vcard"
	webdav "github.com/emersion/go-webdav"
	"github.com/emersion/go-webdav/caldav"
	"github.com/emersion/go-webdav/carddav"

	"verif/harness/backends"
	"verif/harness/dav"
	"verif/harness/xmlt"
)

type Lay struct {
	Ncol int `json:"ncol"`
	Nobj int `json:"nobj"`
}
type RouteReq struct {
	Srv    string   `json:"srv"`
	Prefix []string `json:"prefix"`
	Ptrail bool     `json:"ptrail"`
	Path   []string `json:"path"`
	Own    bool     `json:"own"`
	Rtrail bool     `json:"rtrail"`
	M      string   `json:"m"`
	Depth  string   `json:"depth"`
}
type ChainReq struct {
	Srv    string   `json:"srv"`
	Prefix []string `json:"prefix"`
	Ptrail bool     `json:"ptrail"`
	Lay    Lay      `json:"lay"`
}
type PfReq struct {
	Srv   string   `json:"srv"`
	Res   string   `json:"res"`
	Depth string   `json:"depth"`
	Names []string `json:"names"`
	Lay   Lay      `json:"lay"`
}

var segMaps = map[string]map[string]string{
	"plain":   {"x": "dav", "y": "v1", "z": "srv", "u1": "alice", "u2": "bob", "hs": "home", "c1": "work", "c2": "private", "c9": "newcol", "o1": "e1", "o2": "e2", "o9": "new", "deep": "more", "other": "other"},
	"prefix":  {"x": "dav", "y": "da", "z": "d", "u1": "alice", "u2": "al", "hs": "home", "c1": "work", "c2": "wor", "c9": "w", "o1": "e1", "o2": "e", "o9": "e10", "deep": "more", "other": "alic"},
	"same":    {"x": "dav", "y": "dav", "z": "dav", "u1": "dav", "u2": "vad", "hs": "dav", "c1": "dav", "c2": "add", "c9": "ada", "o1": "dav", "o2": "d", "o9": "a", "deep": "v", "other": "avd"},
	"special": {"x": "a b", "y": "ü.v", "z": "x+y;z", "u1": "al ice", "u2": "b%41b", "hs": "h.s", "c1": "wörk", "c2": "p r", "c9": "n'c", "o1": "e 1", "o2": "é2", "o9": "n&w", "deep": "m", "other": "o"},
}

type world struct {
	srv       string
	seg       map[string]string
	prefix    string // "" or "/a/b"
	principal string
	home      string
	cols      []string
	objs      map[string][]string // collection path -> object paths
	cal       *backends.Cal
	card      *backends.Card
	handler   http.Handler
	ids       map[string]string // concrete path -> resource id
}

func ext(srv string) string {
	if srv == "cal" {
		return ".ics"
	}
	return ".vcf"
}

func newCal() *ical.Calendar {
	cal := ical.NewCalendar()
	cal.Props.SetText(ical.PropVersion, "2.0")
	cal.Props.SetText(ical.PropProductID, "-//verif//EN")
	ev := ical.NewComponent(ical.CompEvent)
	ev.Props.SetText(ical.PropUID, "u1")
	ev.Props.SetDateTime(ical.PropDateTimeStamp, time.Date(2021, 1, 1, 0, 0, 0, 0, time.UTC))
	ev.Props.SetDateTime(ical.PropDateTimeStart, time.Date(2021, 1, 1, 0, 0, 0, 0, time.UTC))
	cal.Children = append(cal.Children, ev)
	return cal
}
func newCard() vcard.Card {
	c := make(vcard.Card)
	c.SetValue(vcard.FieldVersion, "3.0")
	c.SetValue(vcard.FieldFormattedName, "x")
	return c
}

func build(srv string, prefix []string, ptrail bool, lay Lay, seg map[string]string) *world {
	w := &world{srv: srv, seg: seg, objs: map[string][]string{}, ids: map[string]string{}}
	for _, s := range prefix {
		w.prefix += "/" + seg[s]
	}
	w.principal = w.prefix + "/" + seg["u1"] + "/"
	w.home = w.principal + seg["hs"] + "/"
	w.ids[w.principal] = "P"
	w.ids[w.home] = "H"
	hp := w.prefix
	if ptrail {
		hp += "/"
	}
	cn := []string{"c1", "c2"}
	on := []string{"o1", "o2"}
	if srv == "cal" {
		w.cal = &backends.Cal{Principal: w.principal, HomeSet: w.home, Objects: map[string]*caldav.CalendarObject{}, ListOnQuery: true}
		w.handler = &caldav.Handler{Backend: w.cal, Prefix: hp}
	} else {
		w.card = &backends.Card{Principal: w.principal, HomeSet: w.home, Objects: map[string]*carddav.AddressObject{}, ListOnQuery: true}
		w.handler = &carddav.Handler{Backend: w.card, Prefix: hp}
	}
	for i := 0; i < lay.Ncol; i++ {
		cp := w.home + seg[cn[i]] + "/"
		w.cols = append(w.cols, cp)
		w.ids[cp] = fmt.Sprintf("C%d", i+1)
		if srv == "cal" {
			w.cal.Calendars = append(w.cal.Calendars, caldav.Calendar{Path: cp, Name: "name " + cn[i], Description: "d", MaxResourceSize: 1000})
		} else {
			w.card.Books = append(w.card.Books, carddav.AddressBook{Path: cp, Name: "name " + cn[i], Description: "d", MaxResourceSize: 1000})
		}
		for j := 0; j < lay.Nobj; j++ {
			op := cp + seg[on[j]] + ext(srv)
			w.objs[cp] = append(w.objs[cp], op)
			w.ids[op] = fmt.Sprintf("C%d/O%d", i+1, j+1)
			if srv == "cal" {
				w.cal.Objects[op] = &caldav.CalendarObject{Path: op, ETag: "etag-" + on[j], ModTime: time.Unix(1600000000, 0), ContentLength: 120, Data: newCal()}
			} else {
				w.card.Objects[op] = &carddav.AddressObject{Path: op, ETag: "etag-" + on[j], ModTime: time.Unix(1600000000, 0), ContentLength: 60, Card: newCard()}
			}
		}
	}
	return w
}

func (w *world) take() []backends.Call {
	if w.cal != nil {
		return w.cal.Take()
	}
	return w.card.Take()
}
func (w *world) own() []string {
	out := []string{w.principal, w.home}
	out = append(out, w.cols...)
	for _, c := range w.cols {
		out = append(out, w.objs[c]...)
	}
	return out
}

func esc(p string) string { return (&url.URL{Path: p}).EscapedPath() }

const icalBody = "BEGIN:VCALENDAR\r\nVERSION:2.0\r\nPRODID:-//x//y//EN\r\nBEGIN:VEVENT\r\nUID:u1\r\nDTSTAMP:20200101T000000Z\r\nDTSTART:20200101T000000Z\r\nEND:VEVENT\r\nEND:VCALENDAR\r\n"
const vcardBody = "BEGIN:VCARD\r\nVERSION:3.0\r\nFN:x\r\nEND:VCARD\r\n"

func request(h http.Handler, method, path string, hdr map[string]string, body string) dav.Served {
	var req *http.Request
	if body != "" {
		req = httptest.NewRequest(method, esc(path), strings.NewReader(body))
	} else {
		req = httptest.NewRequest(method, esc(path), http.NoBody)
	}
	for k, v := range hdr {
		req.Header.Set(k, v)
	}
	return dav.Serve(h, req)
}

func hrefsOf(body []byte) []string {
	out := []string{}
	ms, _ := dav.ParseMultiStatus(body)
	for _, r := range ms {
		for _, h := range r.Hrefs {
			if u, err := url.Parse(strings.TrimSpace(h)); err == nil {
				out = append(out, u.Path)
			} else {
				out = append(out, h)
			}
		}
	}
	return out
}

func callsJSON(cs []backends.Call) []map[string]string {
	out := []map[string]string{}
	for _, c := range cs {
		out = append(out, map[string]string{"op": c.Op, "path": c.Path})
	}
	return out
}

func doRoute(r RouteReq, segName string, emit func(interface{})) {
	seg := segMaps[segName]
	w := build(r.Srv, r.Prefix, r.Ptrail, Lay{1, 1}, seg)
	p := w.prefix
	for _, s := range r.Path {
		p += "/" + seg[s]
	}
	if len(r.Path) == 4 || (len(r.Path) == 5) {
		// object level: objects carry an extension in the backend's layout
		if len(r.Path) == 4 {
			p += ext(r.Srv)
		}
	}
	if r.Rtrail || p == "" {
		if !strings.HasSuffix(p, "/") {
			p += "/"
		}
	}
	w.take()
	var s dav.Served
	switch r.M {
	case "WELLKNOWN":
		s = request(w.handler, "PROPFIND", "/.well-known/"+map[string]string{"cal": "caldav", "card": "carddav"}[r.Srv], map[string]string{"Depth": "0"}, "")
	case "PROPFIND":
		h := map[string]string{"Content-Type": "application/xml"}
		if r.Depth != "absent" {
			h["Depth"] = r.Depth
		}
		s = request(w.handler, "PROPFIND", p, h, `<?xml version="1.0"?><D:propfind xmlns:D="DAV:"><D:prop><D:resourcetype/><D:current-user-principal/></D:prop></D:propfind>`)
	case "PUT":
		if r.Srv == "cal" {
			s = request(w.handler, "PUT", p, map[string]string{"Content-Type": "text/calendar"}, icalBody)
		} else {
			s = request(w.handler, "PUT", p, map[string]string{"Content-Type": "text/vcard"}, vcardBody)
		}
	case "REPORT":
		body := `<?xml version="1.0"?><C:calendar-query xmlns:C="urn:ietf:params:xml:ns:caldav" xmlns:D="DAV:"><D:prop><D:getetag/></D:prop><C:filter><C:comp-filter name="VCALENDAR"/></C:filter></C:calendar-query>`
		if r.Srv == "card" {
			body = `<?xml version="1.0"?><C:addressbook-query xmlns:C="urn:ietf:params:xml:ns:carddav" xmlns:D="DAV:"><D:prop><D:getetag/></D:prop><C:filter/></C:addressbook-query>`
		}
		s = request(w.handler, "REPORT", p, map[string]string{"Content-Type": "application/xml", "Depth": "1"}, body)
	default:
		s = request(w.handler, r.M, p, nil, "")
	}
	ev := map[string]interface{}{"k": "route", "srv": r.Srv, "m": r.M, "path": r.Path, "own": r.Own, "plen": len(r.Prefix), "ptrail": r.Ptrail, "rtrail": r.Rtrail,
		"depth": r.Depth, "seg": segName, "reqpath": p, "st": s.Code, "panic": s.Panic, "calls": callsJSON(w.take()), "hrefs": hrefsOf(s.Body),
		"ownhrefs": w.own(), "dav": splitList(s.Header["Dav"]), "location": locPath(s.Header.Get("Location")), "principal": w.principal}
	if r.M != "PROPFIND" {
		ev["hrefs"] = []string{}
	}
	emit(ev)
}

// locPath reads a Location header as the URI reference it is and returns its path
func locPath(l string) string {
	if l == "" {
		return ""
	}
	u, err := url.Parse(l)
	if err != nil {
		return "unparsable:" + l
	}
	return u.Path
}

func splitList(vs []string) []string {
	out := []string{}
	for _, v := range vs {
		for _, f := range strings.Split(v, ",") {
			if f = strings.TrimSpace(f); f != "" {
				out = append(out, f)
			}
		}
	}
	return out
}

func doChain(c ChainReq, segName string, start string, emit func(interface{})) {
	seg := segMaps[segName]
	w := build(c.Srv, c.Prefix, c.Ptrail, c.Lay, seg)
	// the front of a multi-user deployment: the authenticated user travels in the request context
	principalFor := func(u string) string { return w.prefix + "/" + seg[u] + "/" }
	if w.cal != nil {
		w.cal.PrincipalFor = principalFor
	} else {
		w.card.PrincipalFor = principalFor
	}
	srv := httptest.NewServer(http.HandlerFunc(func(rw http.ResponseWriter, r *http.Request) {
		if u := r.Header.Get("X-Verif-User"); u != "" {
			r = r.WithContext(context.WithValue(r.Context(), backends.UserKey, u))
		}
		w.handler.ServeHTTP(rw, r)
	}))
	defer srv.Close()
	ctx, cancel := context.WithTimeout(context.Background(), 20*time.Second)
	defer cancel()
	endpoint := srv.URL + esc(w.prefix) + "/"
	if start == "wellknown" {
		endpoint = srv.URL + "/.well-known/" + map[string]string{"cal": "caldav", "card": "carddav"}[c.Srv]
	}
	ev := map[string]interface{}{"k": "chain", "srv": c.Srv, "plen": len(c.Prefix), "ptrail": c.Ptrail, "seg": segName, "start": start, "ncol": c.Lay.Ncol, "nobj": c.Lay.Nobj,
		"wprincipal": w.principal, "wprincipal2": principalFor("u2"), "principal2": "", "whome": w.home, "wcols": append([]string{}, w.cols...), "principal": "", "home": "", "cols": []string{}, "objs": [][]string{}, "wobjs": [][]string{}, "err": ""}
	wobjs := [][]string{}
	for _, cp := range w.cols {
		l := append([]string{}, w.objs[cp]...)
		sort.Strings(l) // the backend double lists its objects in path order
		wobjs = append(wobjs, l)
	}
	ev["wobjs"] = wobjs
	fail := func(stage string, err error) {
		ev["err"] = stage + ": " + err.Error()
		emit(ev)
	}
	hc := &http.Client{}
	wc, err := webdav.NewClient(hc, endpoint)
	if err != nil {
		fail("client", err)
		return
	}
	principal, err := wc.FindCurrentUserPrincipal(ctx)
	if err != nil {
		fail("principal", err)
		return
	}
	ev["principal"] = principal
	objs := [][]string{}
	cols := []string{}
	if c.Srv == "cal" {
		cl, _ := caldav.NewClient(hc, srv.URL)
		home, err := cl.FindCalendarHomeSet(ctx, principal)
		if err != nil {
			fail("home", err)
			return
		}
		ev["home"] = home
		cs, err := cl.FindCalendars(ctx, home)
		if err != nil {
			fail("collections", err)
			return
		}
		for _, x := range cs {
			cols = append(cols, x.Path)
			res, err := cl.QueryCalendar(ctx, x.Path, &caldav.CalendarQuery{CompRequest: caldav.CalendarCompRequest{Name: "VCALENDAR", AllProps: true, AllComps: true}, CompFilter: caldav.CompFilter{Name: "VCALENDAR"}})
			if err != nil {
				fail("objects", err)
				return
			}
			l := []string{}
			for _, o := range res {
				l = append(l, o.Path)
			}
			objs = append(objs, l)
		}
	} else {
		cl, _ := carddav.NewClient(hc, srv.URL)
		home, err := cl.FindAddressBookHomeSet(ctx, principal)
		if err != nil {
			fail("home", err)
			return
		}
		ev["home"] = home
		cs, err := cl.FindAddressBooks(ctx, home)
		if err != nil {
			fail("collections", err)
			return
		}
		for _, x := range cs {
			cols = append(cols, x.Path)
			res, err := cl.QueryAddressBook(ctx, x.Path, &carddav.AddressBookQuery{DataRequest: carddav.AddressDataRequest{AllProp: true}})
			if err != nil {
				fail("objects", err)
				return
			}
			l := []string{}
			for _, o := range res {
				l = append(l, o.Path)
			}
			objs = append(objs, l)
		}
	}
	ev["cols"] = cols
	ev["objs"] = objs
	// the same handler, the same starting point, another user: discovery leads to that user's principal
	wc2, err := webdav.NewClient(userHTTP{"u2"}, endpoint)
	if err != nil {
		fail("client2", err)
		return
	}
	p2, err := wc2.FindCurrentUserPrincipal(ctx)
	if err != nil {
		fail("principal of a second user on the same handler", err)
		return
	}
	ev["principal2"] = p2
	emit(ev)
}

// userHTTP names the user on every request it sends
type userHTTP struct{ user string }

func (u userHTTP) Do(req *http.Request) (*http.Response, error) {
	req.Header.Set("X-Verif-User", u.user)
	return http.DefaultClient.Do(req)
}

// ---- C11

type PropObs struct {
	N     string `json:"n"`
	St    int    `json:"st"`
	Empty bool   `json:"empty"`
}
type RespObs struct {
	Nhref int       `json:"nhref"`
	Res   string    `json:"res"`
	Props []PropObs `json:"props"`
}

var knownNS = map[string]bool{"DAV:": true, xmlt.CAL: true, xmlt.CARD: true, "urn:example:ns": true}

// parseAnswer reads a multistatus body strictly: responses with their hrefs (mapped to resource ids) and every
// property element under every propstat with its status.
func parseAnswer(body []byte, ids map[string]string, srv string) (resps []RespObs, wf bool, nsok bool) {
	resps = []RespObs{}
	root, err := xmlt.Read(body, nil)
	if err != nil || root.Ns != "DAV:" || root.Name != "multistatus" {
		return resps, false, false
	}
	nsok = true
	var walkNS func(n xmlt.Node)
	walkNS = func(n xmlt.Node) {
		if n.Name != "#text" && !knownNS[n.Ns] {
			nsok = false
		}
		for _, k := range n.Kids {
			walkNS(k)
		}
	}
	walkNS(root)
	for _, r := range root.Kids {
		if r.Ns != "DAV:" || r.Name != "response" {
			continue
		}
		ro := RespObs{Props: []PropObs{}, Res: "?"}
		for _, k := range r.Kids {
			switch {
			case k.Ns == "DAV:" && k.Name == "href":
				ro.Nhref++
				txt := ""
				if len(k.Kids) == 1 {
					txt = k.Kids[0].Text
				}
				if u, err := url.Parse(strings.TrimSpace(txt)); err == nil {
					if id, ok := ids[u.Path]; ok {
						ro.Res = id
					} else {
						ro.Res = "?" + u.Path
					}
				}
			case k.Ns == "DAV:" && k.Name == "propstat":
				code := 0
				var props []xmlt.Node
				for _, pk := range k.Kids {
					if pk.Ns == "DAV:" && pk.Name == "status" && len(pk.Kids) == 1 {
						f := strings.Fields(pk.Kids[0].Text)
						if len(f) >= 2 {
							code, _ = strconv.Atoi(f[1])
						}
					}
					if pk.Ns == "DAV:" && pk.Name == "prop" {
						props = append(props, pk.Kids...)
					}
				}
				for _, p := range props {
					if p.Name == "#text" {
						continue
					}
					ro.Props = append(ro.Props, PropObs{N: absName(p.Ns, p.Name, srv), St: code, Empty: len(p.Kids) == 0})
				}
			}
		}
		// the order of properties inside an answer is not significant (and not stable: the servers iterate over maps)
		sort.SliceStable(ro.Props, func(i, j int) bool { return ro.Props[i].N < ro.Props[j].N })
		resps = append(resps, ro)
	}
	return resps, true, nsok
}

// absName / concName: "SRV: data" and "SRV: home-set" stand for the service's own data and home-set properties,
// "CARD: home-set" for the CardDAV home set where that is a different property (principal helper, CalDAV, file server).
func absName(ns, local, srv string) string {
	own := map[string]string{"cal": xmlt.CAL, "card": xmlt.CARD, "dav": xmlt.CAL, "principal": xmlt.CAL}[srv]
	if ns == own && (local == "calendar-data" || local == "address-data") {
		return "SRV: data"
	}
	if ns == own && (local == "calendar-home-set" || local == "addressbook-home-set") {
		return "SRV: home-set"
	}
	if ns == xmlt.CARD && ((srv != "card" && local == "addressbook-home-set") || (srv == "card" && local == "other-home-set")) {
		return "CARD: home-set"
	}
	return ns + " " + local
}
func concName(n, srv string) (string, string) {
	parts := strings.SplitN(n, " ", 2)
	ns, local := parts[0], parts[1]
	if ns == "CARD:" {
		if srv == "card" {
			return xmlt.CARD, "other-home-set"
		}
		return xmlt.CARD, "addressbook-home-set"
	}
	if ns == "SRV:" {
		ns = map[string]string{"cal": xmlt.CAL, "card": xmlt.CARD, "dav": xmlt.CAL, "principal": xmlt.CAL}[srv]
		if local == "data" {
			local = map[string]string{"cal": "calendar-data", "card": "address-data", "dav": "calendar-data", "principal": "calendar-data"}[srv]
		} else {
			local = map[string]string{"cal": "calendar-home-set", "card": "addressbook-home-set", "dav": "calendar-home-set", "principal": "calendar-home-set"}[srv]
		}
	}
	return ns, local
}

func pfBody(form string, names []string, srv string) string {
	switch form {
	case "propname":
		return `<?xml version="1.0"?><D:propfind xmlns:D="DAV:"><D:propname/></D:propfind>`
	case "allprop":
		return `<?xml version="1.0"?><propfind xmlns="DAV:"><allprop/></propfind>`
	case "none":
		return `<?xml version="1.0"?><D:propfind xmlns:D="DAV:"/>`
	}
	var b bytes.Buffer
	b.WriteString(`<?xml version="1.0"?><D:propfind xmlns:D="DAV:"><D:prop>`)
	for i, n := range names {
		ns, local := concName(n, srv)
		fmt.Fprintf(&b, `<p%d:%s xmlns:p%d="%s"/>`, i, local, i, ns)
	}
	b.WriteString(`</D:prop></D:propfind>`)
	return b.String()
}

func doPf(r PfReq, segName string, scratch string, emit func(interface{})) {
	seg := segMaps[segName]
	var h http.Handler
	ids := map[string]string{}
	target := ""
	switch r.Srv {
	case "cal", "card":
		w := build(r.Srv, []string{"x"}, false, r.Lay, seg)
		h = w.handler
		ids = w.ids
		for p, id := range w.ids {
			if id == r.Res {
				target = p
			}
		}
		if r.Res == "ROOT" {
			target = w.prefix + "/"
		}
		if target == "" {
			return
		}
	case "dav":
		root, _ := os.MkdirTemp(scratch, "pf")
		defer os.RemoveAll(root)
		os.MkdirAll(filepath.Join(root, "d", "sub"), 0755)
		os.MkdirAll(filepath.Join(root, "e"), 0755)
		os.WriteFile(filepath.Join(root, "d", "f1"), []byte("one"), 0644)
		os.WriteFile(filepath.Join(root, "d", "sub", "f2"), []byte{}, 0644) // a zero-length file has a length too
		h = &webdav.Handler{FileSystem: webdav.LocalFileSystem(root)}
		ids = map[string]string{"/d": "dir", "/d/": "dir", "/d/f1": "dir/f1", "/d/sub": "dir/sub", "/d/sub/": "dir/sub", "/d/sub/f2": "dir/sub/f2", "/e": "emptydir", "/e/": "emptydir"}
		target = map[string]string{"dir": "/d", "file": "/d/f1", "emptydir": "/e"}[r.Res]
		if r.Res == "file" {
			ids["/d/f1"] = "file"
		}
	case "principal":
		opts := &webdav.ServePrincipalOptions{CurrentUserPrincipalPath: "/p/u/", HomeSets: []webdav.BackendSuppliedHomeSet{caldav.NewCalendarHomeSet("/p/u/cal/"), carddav.NewAddressBookHomeSet("/p/u/card/")}}
		h = http.HandlerFunc(func(w http.ResponseWriter, rq *http.Request) { webdav.ServePrincipal(w, rq, opts) })
		ids = map[string]string{"/p/u/": "P"}
		target = "/p/u/"
	}
	hdr := map[string]string{"Content-Type": "application/xml; charset=utf-8"}
	if r.Depth != "absent" {
		hdr["Depth"] = r.Depth
	}
	ev := map[string]interface{}{"k": "pf", "srv": r.Srv, "res": r.Res, "depth": r.Depth, "names": r.Names, "ncol": r.Lay.Ncol, "nobj": r.Lay.Nobj, "seg": segName}
	ok := true
	for _, form := range []string{"propname", "allprop", "prop"} {
		s := request(h, "PROPFIND", target, hdr, pfBody(form, r.Names, r.Srv))
		resps, wf, nsok := parseAnswer(s.Body, ids, r.Srv)
		ev[form] = map[string]interface{}{"st": s.Code, "panic": s.Panic, "wf": wf, "nsok": nsok, "resps": resps}
		ok = ok && s.Code == 207
	}
	// the two request shapes that carry no selection: an empty body means allprop; a propfind naming none of the three is refused
	s := request(h, "PROPFIND", target, map[string]string{"Depth": "0"}, "")
	resps, wf, _ := parseAnswer(s.Body, ids, r.Srv)
	ev["emptybody"] = map[string]interface{}{"st": s.Code, "panic": s.Panic, "wf": wf, "nsok": true, "resps": resps}
	s = request(h, "PROPFIND", target, hdr, pfBody("none", nil, r.Srv))
	ev["noform"] = s.Code
	emit(ev)
}

func main() {
	mode := flag.String("mode", "route", "route | chain | pf")
	in := flag.String("in", "", "ndjson of cases")
	out := flag.String("out", "", "output ndjson")
	seg := flag.String("seg", "plain", "segment concretisation")
	scratch := flag.String("scratch", os.TempDir(), "")
	mod := flag.Int("mod", 1, "")
	rem := flag.Int("rem", 0, "")
	flag.Parse()
	if _, ok := segMaps[*seg]; !ok {
		fmt.Fprintln(os.Stderr, "unknown seg")
		os.Exit(2)
	}
	fh, err := os.Create(*out)
	if err != nil {
		fmt.Fprintln(os.Stderr, err)
		os.Exit(2)
	}
	w := bufio.NewWriterSize(fh, 1<<20)
	enc := json.NewEncoder(w)
	enc.SetEscapeHTML(false)
	n := 0
	emit := func(v interface{}) { enc.Encode(v); n++ }
	inf, err := os.Open(*in)
	if err != nil {
		fmt.Fprintln(os.Stderr, err)
		os.Exit(2)
	}
	sc := bufio.NewScanner(inf)
	sc.Buffer(make([]byte, 1<<20), 64<<20)
	i := 0
	for sc.Scan() {
		i++
		if i%*mod != *rem%*mod {
			continue
		}
		switch *mode {
		case "route":
			var r RouteReq
			json.Unmarshal(sc.Bytes(), &r)
			doRoute(r, *seg, emit)
		case "chain":
			var c ChainReq
			json.Unmarshal(sc.Bytes(), &c)
			doChain(c, *seg, "root", emit)
			doChain(c, *seg, "wellknown", emit)
		case "pf":
			var r PfReq
			json.Unmarshal(sc.Bytes(), &r)
			doPf(r, *seg, *scratch, emit)
		}
	}
	w.Flush()
	fh.Close()
	_ = sort.Strings
	fmt.Printf("{\"recorded\":%d}\n", n)
}

package main

import (
	"context"
	"time"

	"github.com/emersion/go-webdav/caldav"

	"verif/harness/backends"
	"verif/harness/xmlt"
)

type KTM struct {
	Text string `json:"text"`
	Neg  bool   `json:"neg"`
}
type KTR struct {
	S []string `json:"s"`
	E []string `json:"e"`
}
type KParamF struct {
	Name string `json:"name"`
	Isnd bool   `json:"isnd"`
	Tm   []KTM  `json:"tm"`
}
type KPropF struct {
	Name   string    `json:"name"`
	Isnd   bool      `json:"isnd"`
	Tr     []KTR     `json:"tr"`
	Tm     []KTM     `json:"tm"`
	Params []KParamF `json:"params"`
}
type KCompF struct {
	Name  string   `json:"name"`
	Isnd  bool     `json:"isnd"`
	Tr    []KTR    `json:"tr"`
	Props []KPropF `json:"props"`
	Comps []KCompF `json:"comps"`
}
type KExpand struct {
	S string `json:"s"`
	E string `json:"e"`
}
type KCompReq struct {
	Name     string     `json:"name"`
	Allprops bool       `json:"allprops"`
	Props    []string   `json:"props"`
	Allcomps bool       `json:"allcomps"`
	Comps    []KCompReq `json:"comps"`
	Expand   []KExpand  `json:"expand"`
}
type KQ struct {
	Comp   KCompReq `json:"comp"`
	Filter KCompF   `json:"filter"`
}
type KMG struct {
	Comp  KCompReq `json:"comp"`
	Hrefs []string `json:"hrefs"`
}
type KQCase struct {
	Q       KQ        `json:"q"`
	Doc     xmlt.Node `json:"doc"`
	SrvOnly bool      `json:"srvonly"` // a conformant spelling the client never produces: server direction only
}
type KMCase struct {
	M       KMG       `json:"m"`
	Doc     xmlt.Node `json:"doc"`
	SrvOnly bool      `json:"srvonly"`
}

var instants = map[string]time.Time{
	"i1": time.Date(2021, 3, 1, 12, 0, 0, 0, time.UTC),
	"i2": time.Date(2021, 3, 7, 9, 30, 15, 999000000, time.UTC), // "to the second": the fraction is cut, not rounded
}
var calLoc = time.UTC

const utcLayout = "20060102T150405Z"

func instTok(t time.Time) string {
	for k, v := range instants {
		if v.Unix() == t.Unix() { // equal to the second
			return k
		}
	}
	return t.Format(time.RFC3339Nano)
}
func optInst(t time.Time) []string {
	if t.IsZero() {
		return []string{}
	}
	return []string{instTok(t)}
}
func kAbsTM(c *xmlt.Conc, t *caldav.TextMatch) []KTM {
	if t == nil {
		return []KTM{}
	}
	return []KTM{{c.A(t.Text), t.NegateCondition}}
}
func kAbsTR(s, e time.Time) []KTR {
	if s.IsZero() && e.IsZero() {
		return []KTR{}
	}
	return []KTR{{optInst(s), optInst(e)}}
}
func kAbsCF(c *xmlt.Conc, f caldav.CompFilter) KCompF {
	out := KCompF{Name: f.Name, Isnd: f.IsNotDefined, Tr: kAbsTR(f.Start, f.End), Props: []KPropF{}, Comps: []KCompF{}}
	for _, p := range f.Props {
		o := KPropF{Name: c.A(p.Name), Isnd: p.IsNotDefined, Tr: kAbsTR(p.Start, p.End), Tm: kAbsTM(c, p.TextMatch), Params: []KParamF{}}
		for _, pp := range p.ParamFilter {
			o.Params = append(o.Params, KParamF{c.A(pp.Name), pp.IsNotDefined, kAbsTM(c, pp.TextMatch)})
		}
		out.Props = append(out.Props, o)
	}
	for _, k := range f.Comps {
		out.Comps = append(out.Comps, kAbsCF(c, k))
	}
	return out
}
func kAbsCR(c *xmlt.Conc, r caldav.CalendarCompRequest) KCompReq {
	out := KCompReq{Name: r.Name, Allprops: r.AllProps, Props: []string{}, Allcomps: r.AllComps, Comps: []KCompReq{}, Expand: []KExpand{}}
	for _, p := range r.Props {
		out.Props = append(out.Props, c.A(p))
	}
	for _, k := range r.Comps {
		out.Comps = append(out.Comps, kAbsCR(c, k))
	}
	if r.Expand != nil {
		out.Expand = append(out.Expand, KExpand{instTok(r.Expand.Start), instTok(r.Expand.End)})
	}
	return out
}
func inst(tok string) time.Time { return instants[tok].In(calLoc) }
func optT(s []string) time.Time {
	if len(s) == 0 {
		return time.Time{}
	}
	return inst(s[0])
}
func kConcTM(c *xmlt.Conc, t []KTM) *caldav.TextMatch {
	if len(t) == 0 {
		return nil
	}
	return &caldav.TextMatch{Text: c.C(t[0].Text), NegateCondition: t[0].Neg}
}
func kConcCF(c *xmlt.Conc, f KCompF) caldav.CompFilter {
	out := caldav.CompFilter{Name: f.Name, IsNotDefined: f.Isnd}
	if len(f.Tr) == 1 {
		out.Start, out.End = optT(f.Tr[0].S), optT(f.Tr[0].E)
	}
	for _, p := range f.Props {
		o := caldav.PropFilter{Name: c.C(p.Name), IsNotDefined: p.Isnd, TextMatch: kConcTM(c, p.Tm)}
		if len(p.Tr) == 1 {
			o.Start, o.End = optT(p.Tr[0].S), optT(p.Tr[0].E)
		}
		for _, pp := range p.Params {
			o.ParamFilter = append(o.ParamFilter, caldav.ParamFilter{Name: c.C(pp.Name), IsNotDefined: pp.Isnd, TextMatch: kConcTM(c, pp.Tm)})
		}
		out.Props = append(out.Props, o)
	}
	for _, k := range f.Comps {
		out.Comps = append(out.Comps, kConcCF(c, k))
	}
	return out
}
func kConcCR(c *xmlt.Conc, r KCompReq) caldav.CalendarCompRequest {
	out := caldav.CalendarCompRequest{Name: r.Name, AllProps: r.Allprops, AllComps: r.Allcomps}
	for _, p := range r.Props {
		out.Props = append(out.Props, c.C(p))
	}
	for _, k := range r.Comps {
		out.Comps = append(out.Comps, kConcCR(c, k))
	}
	if len(r.Expand) == 1 {
		out.Expand = &caldav.CalendarExpandRequest{Start: inst(r.Expand[0].S), End: inst(r.Expand[0].E)}
	}
	return out
}

var calHrefPaths = map[string]string{"h1": "/u/cal/c/plain.ics", "h2": "/u/cal/c/a b%41#?;+.ics", "h3": "/u/cal/c/ä<&>'\"é.ics"}

func runCal(dir string, emit func(interface{}), conc0 *xmlt.Conc, mod, rem int) {
	// instants travel as attribute tokens: on the wire their UTC text
	fwd := map[string]string{}
	for k, v := range conc0.Fwd {
		fwd[k] = v
	}
	for k, v := range instants {
		fwd[k] = v.UTC().Format(utcLayout)
	}
	conc := xmlt.NewConc(fwd)
	for k, v := range calHrefPaths {
		hrefPaths[k] = v
	}
	be := &backends.Cal{Principal: "/u/", HomeSet: "/u/cal/"}
	h := &caldav.Handler{Backend: be}
	ch := &capHTTP{}
	cl, _ := caldav.NewClient(ch, "http://example.com/")
	n := 0
	readCases(dir+"/queries.ndjson", func(b []byte) {
		n++
		if n%mod != rem {
			return
		}
		var cs KQCase
		mustJSON(b, &cs)
		style := n % xmlt.NStyles
		body := xmlt.Render(cs.Doc, style, conc)
		be.Take()
		s := report(h, "/u/cal/c/", body, []string{"application/xml; charset=utf-8", "text/xml"}[n%2])
		got := []KQ{}
		mut := 0
		for _, c := range be.Take() {
			if c.Op == "QueryCalendarObjects" {
				q := c.Arg.(caldav.CalendarQuery)
				got = append(got, KQ{Comp: kAbsCR(conc, q.CompRequest), Filter: kAbsCF(conc, q.CompFilter)})
			}
			mut += len(backends.Mutations([]backends.Call{c}))
		}
		emit(map[string]interface{}{"k": "srv", "i": n, "st": s.Code, "panic": s.Panic, "style": style, "got": got, "mut": mut})
		if cs.SrvOnly {
			return
		}
		ch.body = nil
		_, err := cl.QueryCalendar(context.Background(), "/u/cal/c/", &caldav.CalendarQuery{CompRequest: kConcCR(conc, cs.Q.Comp), CompFilter: kConcCF(conc, cs.Q.Filter)})
		cev := map[string]interface{}{"k": "cli", "i": n, "err": err != nil, "sent": ch.body != nil, "doc": []xmlt.Node{}, "wf": true}
		if ch.body != nil {
			doc, rerr := xmlt.Read(ch.body, conc)
			if rerr != nil {
				cev["wf"] = false
			} else {
				cev["doc"] = []xmlt.Node{emptyTexts(doc, conc)}
			}
		}
		emit(cev)
	})
	n = 0
	readCases(dir+"/multigets.ndjson", func(b []byte) {
		n++
		var cs KMCase
		mustJSON(b, &cs)
		for style := 0; style < xmlt.NStyles; style++ {
			body := xmlt.Render(fixHrefs(cs.Doc), style, conc)
			be.Take()
			s := report(h, "/u/cal/c/", body, "application/xml")
			paths := []string{}
			reqs := []KCompReq{}
			for _, c := range be.Take() {
				if c.Op == "GetCalendarObject" {
					paths = append(paths, hrefTok(c.Path))
					if cr, ok := c.Arg.(caldav.CalendarCompRequest); ok {
						reqs = append(reqs, kAbsCR(conc, cr))
					}
				}
			}
			emit(map[string]interface{}{"k": "mgsrv", "i": n, "st": s.Code, "panic": s.Panic, "style": style, "paths": paths, "reqs": reqs})
		}
		if cs.SrvOnly {
			return
		}
		ch.body = nil
		mg := &caldav.CalendarMultiGet{CompRequest: kConcCR(conc, cs.M.Comp)}
		for _, hr := range cs.M.Hrefs {
			mg.Paths = append(mg.Paths, hrefPaths[hr])
		}
		_, err := cl.MultiGetCalendar(context.Background(), "/u/cal/c/", mg)
		cev := map[string]interface{}{"k": "mgcli", "i": n, "err": err != nil, "sent": ch.body != nil, "doc": []xmlt.Node{}, "wf": true}
		if ch.body != nil {
			doc, rerr := xmlt.Read(ch.body, conc)
			if rerr != nil {
				cev["wf"] = false
			} else {
				cev["doc"] = []xmlt.Node{unfixHrefs(doc)}
			}
		}
		emit(cev)
	})
	mgSelf := &caldav.CalendarMultiGet{CompRequest: caldav.CalendarCompRequest{Name: "VCALENDAR", AllProps: true, AllComps: true}}
	selfTwice(func(p string) error { _, err := cl.MultiGetCalendar(context.Background(), p, mgSelf); return err }, ch, "/u/cal/c/", "/u/cal/other one/", emit)
	n = 0
	readCases(dir+"/invalid.ndjson", func(b []byte) {
		n++
		var cs DocCase
		mustJSON(b, &cs)
		for style := 0; style < xmlt.NStyles; style++ {
			body := xmlt.Render(cs.Doc, style, conc)
			be.Take()
			s := report(h, "/u/cal/c/", body, "application/xml")
			calls := be.Take()
			q := 0
			for _, c := range calls {
				if c.Op == "QueryCalendarObjects" {
					q++
				}
			}
			emit(map[string]interface{}{"k": "bad", "i": n, "st": s.Code, "panic": s.Panic, "style": style, "queries": q, "mut": len(backends.Mutations(calls))})
		}
	})
}

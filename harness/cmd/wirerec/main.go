// wirerec is the F2 recorder for C08 / C09: (a) the specification's RFC documents, rendered by the harness's
// independent writer in several lexical styles, are sent as REPORT to the real CalDAV / CardDAV handler and the request
// that reaches the recording backend is logged; (b) the real client is asked to send every query of the universe and the
// captured body, re-read by the harness's independent reader, is logged as an abstract tree. No expectation is computed.
package main

import (
	"bufio"
	"bytes"
	"encoding/json"
	"flag"
	"fmt"
	"io"
	"net/http"
	"os"
	"strings"
	"sync"
	"time"

	"verif/harness/xmlt"
)

type capHTTP struct {
	body []byte
	hdr  http.Header
}

func (h *capHTTP) Do(req *http.Request) (*http.Response, error) {
	h.body, _ = io.ReadAll(req.Body)
	h.hdr = req.Header
	hd := http.Header{}
	hd.Set("Content-Type", "text/xml")
	return &http.Response{StatusCode: 207, Status: "207 Multi-Status", Header: hd, Body: io.NopCloser(strings.NewReader(`<multistatus xmlns="DAV:"/>`)), Request: req}, nil
}

func readCases(path string, each func([]byte)) {
	fh, err := os.Open(path)
	if err != nil {
		fmt.Fprintln(os.Stderr, err)
		os.Exit(2)
	}
	defer fh.Close()
	sc := bufio.NewScanner(fh)
	sc.Buffer(make([]byte, 1<<20), 64<<20)
	for sc.Scan() {
		if len(bytes.TrimSpace(sc.Bytes())) > 0 {
			each(append([]byte{}, sc.Bytes()...))
		}
	}
}
func mustJSON(b []byte, v interface{}) {
	if err := json.Unmarshal(b, v); err != nil {
		fmt.Fprintln(os.Stderr, err, string(b[:80]))
		os.Exit(2)
	}
}

// token concretisations: texts with leading/trailing blanks, XML metacharacters, CDATA terminators, non-ASCII
var concs = map[string]map[string]string{
	"plain": {"t0": "alpha", "t1": "beta", "t2": "gamma", "n1": "EMAIL", "n2": "X-FOO", "n3": "TYPE"},
	"meta":  {"t0": "  lead&trail <x>  ", "t1": "plain", "t2": "é\"q'\t]]>", "n1": "EMAIL", "n2": "X-FOO&<", "n3": "TY PE"},
	"odd":   {"t0": " ", "t1": "&amp;", "t2": "<![CDATA[x]]>", "n1": "n", "n2": "N", "n3": "ünï"},
}

func main() {
	proto := flag.String("proto", "card", "card | cal")
	dir := flag.String("dir", "", "directory with the generated cases")
	out := flag.String("out", "", "output ndjson")
	conc := flag.String("conc", "meta", "")
	mod := flag.Int("mod", 1, "")
	rem := flag.Int("rem", 0, "")
	zone := flag.Int("zone", 0, "zone offset in seconds in which the client API is handed its instants")
	flag.Parse()
	if *zone != 0 {
		calLoc = time.FixedZone("Z", *zone)
	}
	cm, ok := concs[*conc]
	if !ok {
		fmt.Fprintln(os.Stderr, "unknown conc")
		os.Exit(2)
	}
	fh, err := os.Create(*out)
	if err != nil {
		fmt.Fprintln(os.Stderr, err)
		os.Exit(2)
	}
	w := bufio.NewWriterSize(fh, 1<<20)
	enc := json.NewEncoder(w)
	enc.SetEscapeHTML(false)
	var mu sync.Mutex
	n := 0
	emit := func(v interface{}) {
		mu.Lock()
		enc.Encode(v)
		n++
		mu.Unlock()
	}
	c := xmlt.NewConc(cm)
	if *proto == "card" {
		runCard(*dir, emit, c, *mod, *rem%*mod)
	} else {
		runCal(*dir, emit, c, *mod, *rem%*mod)
	}
	w.Flush()
	fh.Close()
	fmt.Printf("{\"recorded\":%d}\n", n)
}

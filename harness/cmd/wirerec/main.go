// wirerec is the F2 recorder for C08 / C09: (a) the specification's RFC documents, rendered by the harness's
// independent writer in several lexical styles, are sent as REPORT to the real CalDAV / CardDAV handler and the request
// that reaches the recording backend is logged; (b) the real client is asked to send every query of the universe and the
// captured body, re-read by the harness's independent reader, is logged as an abstract tree. No expectation is computed.
package main

import (
	"bufio"
	"bytes"
	"encoding/json"
	"encoding/xml"
	"flag"
	"fmt"
	"io"
	"net/http"
	"net/url"
	"os"
	"strconv"
	"strings"
	"sync"
	"time"

	"verif/harness/xmlt"
)

type capHTTP struct {
	body []byte
	hdr  http.Header
}

func (h *capHTTP) Do(req *http.Request) (*http.Response, error) {
	h.body, _ = io.ReadAll(req.Body)
	h.hdr = req.Header
	hd := http.Header{}
	hd.Set("Content-Type", "text/xml")
	return &http.Response{StatusCode: 207, Status: "207 Multi-Status", Header: hd, Body: io.NopCloser(strings.NewReader(`<multistatus xmlns="DAV:"/>`)), Request: req}, nil
}

// emptyTexts: an element without character data denotes the empty text; where a token of the concretisation stands for the
// empty text, text-match elements without content get that token (the abstract documents always carry a text node)
func emptyTexts(n xmlt.Node, c *xmlt.Conc) xmlt.Node {
	tok, ok := c.Rev[""]
	if !ok {
		return n
	}
	if n.Name == "text-match" && len(n.Kids) == 0 {
		n.Kids = []xmlt.Node{xmlt.Txt(tok)}
		return n
	}
	for i := range n.Kids {
		n.Kids[i] = emptyTexts(n.Kids[i], c)
	}
	return n
}

// hrefTexts reads the DAV:href children of a captured request body (lexically, independent of the library)
func hrefTexts(body []byte) []string {
	out := []string{}
	d := xml.NewDecoder(bytes.NewReader(body))
	depth := 0
	in := false
	var cur strings.Builder
	for {
		tok, err := d.Token()
		if err != nil {
			return out
		}
		switch t := tok.(type) {
		case xml.StartElement:
			depth++
			if depth == 2 && t.Name.Space == "DAV:" && t.Name.Local == "href" {
				in = true
				cur.Reset()
			}
		case xml.CharData:
			if in {
				cur.Write(t)
			}
		case xml.EndElement:
			if in && depth == 2 {
				out = append(out, cur.String())
				in = false
			}
			depth--
		}
	}
}

// selfTwice: a multiget without paths means "the collection itself"; the same request value used for two collections in a
// row must name each collection in turn (whatever the first call did must not stick to the value)
func selfTwice(call func(path string) error, ch *capHTTP, a, b string, emit func(interface{})) {
	name := func(hs []string) []string {
		out := []string{}
		for _, h := range hs {
			u, err := url.Parse(h)
			switch {
			case err == nil && u.Path == a:
				out = append(out, "first")
			case err == nil && u.Path == b:
				out = append(out, "second")
			default:
				out = append(out, "?"+h)
			}
		}
		return out
	}
	ch.body = nil
	err1 := call(a)
	h1 := name(hrefTexts(ch.body))
	ch.body = nil
	err2 := call(b)
	h2 := name(hrefTexts(ch.body))
	emit(map[string]interface{}{"k": "mgself", "i": 1, "err": err1 != nil || err2 != nil, "first": h1, "second": h2})
}

func readCases(path string, each func([]byte)) {
	fh, err := os.Open(path)
	if err != nil {
		fmt.Fprintln(os.Stderr, err)
		os.Exit(2)
	}
	defer fh.Close()
	sc := bufio.NewScanner(fh)
	sc.Buffer(make([]byte, 1<<20), 64<<20)
	for sc.Scan() {
		if len(bytes.TrimSpace(sc.Bytes())) > 0 {
			each(append([]byte{}, sc.Bytes()...))
		}
	}
}
func mustJSON(b []byte, v interface{}) {
	if err := json.Unmarshal(b, v); err != nil {
		fmt.Fprintln(os.Stderr, err, string(b[:80]))
		os.Exit(2)
	}
}

// token concretisations: texts with leading/trailing blanks, XML metacharacters, CDATA terminators, non-ASCII
var concs = map[string]map[string]string{
	"plain": {"t0": "alpha", "t1": "beta", "t2": "gamma", "n1": "EMAIL", "n2": "X-FOO", "n3": "TYPE"},
	"meta":  {"t0": "  lead&trail <x>  ", "t1": "plain", "t2": "é\"q'\t]]>", "n1": "EMAIL", "n2": "X-FOO&<", "n3": "TY PE"},
	// the empty text; VERSION / FN among the requested names (a vCard's mandatory properties are requested like any other)
	"empty": {"t0": "", "t1": "x", "t2": " y ", "n1": "VERSION", "n2": "FN", "n3": "TYPE"},
	"odd":   {"t0": " ", "t1": "a\rb\r\nc\n", "t2": "<![CDATA[x]]>", "n1": "n", "n2": "N", "n3": "ünï"}, // t1: line ends of every kind (a reader normalises unescaped CR)
}

func main() {
	proto := flag.String("proto", "card", "card | cal")
	dir := flag.String("dir", "", "directory with the generated cases")
	out := flag.String("out", "", "output ndjson")
	for _, m := range concs {
		m["tbig"] = strings.Repeat("0123456789 <&> ", 6250) + "end" // 100 003 characters
	}
	conc := flag.String("conc", "meta", "")
	mod := flag.Int("mod", 1, "")
	rem := flag.Int("rem", 0, "")
	zone := flag.Int("zone", 0, "zone offset in seconds in which the client API is handed its instants")
	flag.Parse()
	if *zone != 0 {
		calLoc = time.FixedZone("Z", *zone)
	}
	cm, ok := concs[*conc]
	if !ok {
		fmt.Fprintln(os.Stderr, "unknown conc")
		os.Exit(2)
	}
	fh, err := os.Create(*out)
	if err != nil {
		fmt.Fprintln(os.Stderr, err)
		os.Exit(2)
	}
	w := bufio.NewWriterSize(fh, 1<<20)
	enc := json.NewEncoder(w)
	enc.SetEscapeHTML(false)
	var mu sync.Mutex
	n := 0
	emit := func(v interface{}) {
		mu.Lock()
		enc.Encode(v)
		n++
		mu.Unlock()
	}
	if *proto == "card" {
		cm2 := map[string]string{}
		for k, v := range cm {
			cm2[k] = v
		}
		for k, v := range bigLimits {
			cm2[strconv.Itoa(k)] = strconv.Itoa(v)
		}
		cm = cm2
	}
	c := xmlt.NewConc(cm)
	if *proto == "card" {
		runCard(*dir, emit, c, *mod, *rem%*mod)
	} else {
		runCal(*dir, emit, c, *mod, *rem%*mod)
	}
	w.Flush()
	fh.Close()
	fmt.Printf("{\"recorded\":%d}\n", n)
}

package main

import (
	"bytes"
	"context"
	"fmt"
	"net/http"
	"net/http/httptest"
	"net/url"
	"strconv"

	"github.com/emersion/go-webdav/carddav"

	"verif/harness/backends"
	"verif/harness/dav"
	"verif/harness/xmlt"
)

type CTM struct {
	Text string `json:"text"`
	Neg  bool   `json:"neg"`
	Mt   string `json:"mt"`
}
type CParamF struct {
	Name string `json:"name"`
	Isnd bool   `json:"isnd"`
	Tm   []CTM  `json:"tm"`
}
type CPropF struct {
	Name   string    `json:"name"`
	Test   string    `json:"test"`
	Isnd   bool      `json:"isnd"`
	Tms    []CTM     `json:"tms"`
	Params []CParamF `json:"params"`
}
type CQ struct {
	Allprop   bool     `json:"allprop"`
	Props     []string `json:"props"`
	Test      string   `json:"test"`
	Filters   []CPropF `json:"filters"`
	Limit     int      `json:"limit"`
	Limittext string   `json:"limittext"`
}
type CMG struct {
	Allprop bool     `json:"allprop"`
	Props   []string `json:"props"`
	Hrefs   []string `json:"hrefs"`
}
type CQCase struct {
	Q       CQ        `json:"q"`
	Doc     xmlt.Node `json:"doc"`
	SrvOnly bool      `json:"srvonly"` // a conformant spelling the client never produces: server direction only
}
type CMCase struct {
	M   CMG       `json:"m"`
	Doc xmlt.Node `json:"doc"`
}
type DocCase struct {
	Doc xmlt.Node `json:"doc"`
}

// The specification's limits are tokens like every other value (TLC integers end at 2^31 - 1): the two largest stand for
// limits beyond 32 bits, in the API value and in the text of the wire documents alike.
var bigLimits = map[int]int{2147483646: 4294967303, 2147483647: 9223372036854775807}

func limConc(l int) int {
	if v, ok := bigLimits[l]; ok {
		return v
	}
	return l
}
func limAbs(l int) int {
	for k, v := range bigLimits {
		if v == l {
			return k
		}
	}
	return l
}

func cAbsTM(c *xmlt.Conc, t carddav.TextMatch) CTM {
	return CTM{c.A(t.Text), t.NegateCondition, string(t.MatchType)}
}
func cAbsQ(c *xmlt.Conc, q *carddav.AddressBookQuery) CQ {
	out := CQ{Allprop: q.DataRequest.AllProp, Props: []string{}, Test: string(q.FilterTest), Filters: []CPropF{}}
	for _, p := range q.DataRequest.Props {
		out.Props = append(out.Props, c.A(p))
	}
	for _, pf := range q.PropFilters {
		o := CPropF{Name: c.A(pf.Name), Test: string(pf.Test), Isnd: pf.IsNotDefined, Tms: []CTM{}, Params: []CParamF{}}
		for _, t := range pf.TextMatches {
			o.Tms = append(o.Tms, cAbsTM(c, t))
		}
		for _, pp := range pf.Params {
			op := CParamF{Name: c.A(pp.Name), Isnd: pp.IsNotDefined, Tm: []CTM{}}
			if pp.TextMatch != nil {
				op.Tm = append(op.Tm, cAbsTM(c, *pp.TextMatch))
			}
			o.Params = append(o.Params, op)
		}
		out.Filters = append(out.Filters, o)
	}
	if q.Limit > 0 {
		out.Limittext = strconv.Itoa(limAbs(q.Limit))
	}
	out.Limit = limAbs(q.Limit)
	return out
}
func cConcTM(c *xmlt.Conc, t CTM) carddav.TextMatch {
	return carddav.TextMatch{Text: c.C(t.Text), NegateCondition: t.Neg, MatchType: carddav.MatchType(t.Mt)}
}
func cConcQ(c *xmlt.Conc, q CQ) *carddav.AddressBookQuery {
	out := &carddav.AddressBookQuery{FilterTest: carddav.FilterTest(q.Test), Limit: limConc(q.Limit)}
	out.DataRequest.AllProp = q.Allprop
	for _, p := range q.Props {
		out.DataRequest.Props = append(out.DataRequest.Props, c.C(p))
	}
	for _, pf := range q.Filters {
		o := carddav.PropFilter{Name: c.C(pf.Name), Test: carddav.FilterTest(pf.Test), IsNotDefined: pf.Isnd}
		for _, t := range pf.Tms {
			o.TextMatches = append(o.TextMatches, cConcTM(c, t))
		}
		for _, pp := range pf.Params {
			op := carddav.ParamFilter{Name: c.C(pp.Name), IsNotDefined: pp.Isnd}
			if len(pp.Tm) > 0 {
				t := cConcTM(c, pp.Tm[0])
				op.TextMatch = &t
			}
			o.Params = append(o.Params, op)
		}
		out.PropFilters = append(out.PropFilters, o)
	}
	return out
}

// hrefConc: href tokens stand for absolute paths that need escaping on the wire
var hrefPaths = map[string]string{"h1": "/u/card/ab/plain.vcf", "h2": "/u/card/ab/a b%41#?;+.vcf", "h3": "/u/card/ab/ä<&>'\"é.vcf"}

func hrefTok(p string) string {
	for k, v := range hrefPaths {
		if v == p {
			return k
		}
	}
	return p
}

// hrefText renders a path as the URI reference an RFC-conformant writer puts into DAV:href
func hrefText(p string) string { return (&url.URL{Path: p}).String() }

// fixHrefs rewrites the href text tokens of a document to concrete URI references (writer side) ...
func fixHrefs(n xmlt.Node) xmlt.Node {
	if n.Ns == xmlt.DAV && n.Name == "href" && len(n.Kids) == 1 {
		if p, ok := hrefPaths[n.Kids[0].Text]; ok {
			n.Kids = []xmlt.Node{xmlt.Txt(hrefText(p))}
		}
		return n
	}
	ks := make([]xmlt.Node, len(n.Kids))
	for i, k := range n.Kids {
		ks[i] = fixHrefs(k)
	}
	n.Kids = ks
	return n
}

// ... and back (reader side): the text of DAV:href is parsed as a URI reference, its path mapped to the token
func unfixHrefs(n xmlt.Node) xmlt.Node {
	if n.Ns == xmlt.DAV && n.Name == "href" && len(n.Kids) == 1 {
		if u, err := url.Parse(n.Kids[0].Text); err == nil {
			n.Kids = []xmlt.Node{xmlt.Txt(hrefTok(u.Path))}
		}
		return n
	}
	ks := make([]xmlt.Node, len(n.Kids))
	for i, k := range n.Kids {
		ks[i] = unfixHrefs(k)
	}
	n.Kids = ks
	return n
}

func report(h http.Handler, path string, body []byte, ct string) dav.Served {
	req := httptest.NewRequest("REPORT", path, bytes.NewReader(body))
	req.Header.Set("Content-Type", ct)
	req.Header.Set("Depth", "1")
	return dav.Serve(h, req)
}

func runCard(dir string, emit func(interface{}), conc *xmlt.Conc, mod, rem int) {
	be := &backends.Card{Principal: "/u/", HomeSet: "/u/card/"}
	h := &carddav.Handler{Backend: be}
	ch := &capHTTP{}
	cl, _ := carddav.NewClient(ch, "http://example.com/")
	n := 0
	readCases(dir+"/queries.ndjson", func(b []byte) {
		n++
		if n%mod != rem {
			return
		}
		var cs CQCase
		mustJSON(b, &cs)
		// (a) wire -> backend: the specification's document, rendered by the independent writer
		style := n % xmlt.NStyles
		body := xmlt.Render(cs.Doc, style, conc)
		be.Take()
		s := report(h, "/u/card/ab/", body, []string{"application/xml; charset=utf-8", "text/xml"}[n%2])
		ev := map[string]interface{}{"k": "srv", "i": n, "st": s.Code, "panic": s.Panic, "style": style, "got": []CQ{}, "mut": 0}
		got := []CQ{}
		for _, c := range be.Take() {
			if c.Op == "QueryAddressObjects" {
				q := c.Arg.(carddav.AddressBookQuery)
				got = append(got, cAbsQ(conc, &q))
			}
			if len(backends.Mutations([]backends.Call{c})) > 0 {
				ev["mut"] = 1
			}
		}
		ev["got"] = got
		emit(ev)
		if cs.SrvOnly {
			return
		}
		// (b) client -> wire
		ch.body = nil
		_, err := cl.QueryAddressBook(context.Background(), "/u/card/ab/", cConcQ(conc, cs.Q))
		cev := map[string]interface{}{"k": "cli", "i": n, "err": err != nil, "sent": ch.body != nil, "doc": []xmlt.Node{}, "wf": true}
		if ch.body != nil {
			doc, rerr := xmlt.Read(ch.body, conc)
			if rerr != nil {
				cev["wf"] = false
			} else {
				cev["doc"] = []xmlt.Node{emptyTexts(doc, conc)}
			}
		}
		emit(cev)
	})
	n = 0
	readCases(dir+"/multigets.ndjson", func(b []byte) {
		n++
		var cs CMCase
		mustJSON(b, &cs)
		for style := 0; style < xmlt.NStyles; style++ {
			body := xmlt.Render(fixHrefs(cs.Doc), style, conc)
			be.Take()
			s := report(h, "/u/card/ab/", body, "application/xml")
			paths := []string{}
			reqs := []map[string]interface{}{}
			for _, c := range be.Take() {
				if c.Op == "GetAddressObject" {
					paths = append(paths, hrefTok(c.Path))
					dr, _ := c.Arg.(carddav.AddressDataRequest)
					props := []string{}
					for _, p := range dr.Props {
						props = append(props, conc.A(p))
					}
					reqs = append(reqs, map[string]interface{}{"allprop": dr.AllProp, "props": props})
				}
			}
			emit(map[string]interface{}{"k": "mgsrv", "i": n, "st": s.Code, "panic": s.Panic, "style": style, "paths": paths, "reqs": reqs})
		}
		ch.body = nil
		mg := &carddav.AddressBookMultiGet{DataRequest: carddav.AddressDataRequest{AllProp: cs.M.Allprop}}
		for _, p := range cs.M.Props {
			mg.DataRequest.Props = append(mg.DataRequest.Props, conc.C(p))
		}
		for _, hr := range cs.M.Hrefs {
			mg.Paths = append(mg.Paths, hrefPaths[hr])
		}
		_, err := cl.MultiGetAddressBook(context.Background(), "/u/card/ab/", mg)
		cev := map[string]interface{}{"k": "mgcli", "i": n, "err": err != nil, "sent": ch.body != nil, "doc": []xmlt.Node{}, "wf": true}
		if ch.body != nil {
			doc, rerr := xmlt.Read(ch.body, conc)
			if rerr != nil {
				cev["wf"] = false
			} else {
				cev["doc"] = []xmlt.Node{unfixHrefs(doc)}
			}
		}
		emit(cev)
	})
	mgSelf := &carddav.AddressBookMultiGet{DataRequest: carddav.AddressDataRequest{AllProp: true}}
	selfTwice(func(p string) error { _, err := cl.MultiGetAddressBook(context.Background(), p, mgSelf); return err }, ch, "/u/card/ab/", "/u/card/other one/", emit)
	n = 0
	readCases(dir+"/invalid.ndjson", func(b []byte) {
		n++
		var cs DocCase
		mustJSON(b, &cs)
		for style := 0; style < xmlt.NStyles; style++ {
			body := xmlt.Render(cs.Doc, style, conc)
			be.Take()
			s := report(h, "/u/card/ab/", body, "application/xml")
			calls := be.Take()
			q := 0
			for _, c := range calls {
				if c.Op == "QueryAddressObjects" {
					q++
				}
			}
			emit(map[string]interface{}{"k": "bad", "i": n, "st": s.Code, "panic": s.Panic, "style": style, "queries": q, "mut": len(backends.Mutations(calls))})
		}
	})
	_ = fmt.Sprint
}

package main

import (
	"bufio"
	"context"
	"encoding/json"
	"fmt"
	"io"
	"net/http"
	"os"
	"path/filepath"
	"sort"
	"strings"
	"time"

	webdav "github.com/emersion/go-webdav"

	"verif/harness/backends"
)

type C05Case struct {
	K       string `json:"k"`
	Fs      string `json:"fs"`
	Ep      string `json:"ep"`
	Form    string `json:"form"`
	Name    string `json:"name"`
	Rec     bool   `json:"rec"`
	Content string `json:"content"`
	Dform   string `json:"dform"`
	Dest    string `json:"dest"`
	Norec   bool   `json:"norec"`
	Noow    bool   `json:"noow"`
	Nilopt  bool   `json:"nilopt"` // copy / move: pass a nil options value (the defaults: recursive, overwrite)
}

// name concretisations: tokens -> path segments (injective)
var nameConcs = map[string]map[string]string{
	"hostile": {"p": "pre fix", "q": "q%41#?", "f1": "a b.txt", "f2": "x%41y;+?#.html", "d1": "dir <&>'\"", "d2": "sub dir", "f3": "ü é.bin", "new": "n e%20w"},
	// names that mean something to URL parsers and to file servers: a letter-led first segment with a colon (a scheme, if
	// mistaken for a URL), the classic directory-index name, a Windows drive form
	"webby": {"p": "p", "q": "q", "f1": "index.html", "f2": "note:1.txt", "d1": "d:1", "d2": "index.html", "f3": "C:x.bin", "new": "urn:new"},
	"plain": {"p": "p", "q": "q", "f1": "f1.txt", "f2": "f2.html", "d1": "d1", "d2": "d2", "f3": "f3.bin", "new": "new"},
}

var contents = map[string][]byte{"empty": {}, "small": []byte("hello\n"), "binary": {0, 1, 2, 0xff, 0xfe, '<', '&', '>', 0}, "large": nil}

func init() {
	b := make([]byte, 300000)
	for i := range b {
		b[i] = byte(i*7 + i/251)
	}
	contents["large"] = b
}

type c05world struct {
	nm     map[string]string
	epPath string // "/" or "/p" ... (path part of the endpoint URL as given to NewClient)
	base   string // absolute path below which the tree lives, no trailing slash ("" for root)
	mem    *backends.Mem
	root   string // local fs root
	h      http.Handler
}

func (w *c05world) abs(tok string) string {
	if tok == "" {
		if w.base == "" {
			return "/"
		}
		return w.base + "/"
	}
	var segs []string
	for _, s := range strings.Split(tok, "/") {
		segs = append(segs, w.nm[s])
	}
	return w.base + "/" + strings.Join(segs, "/")
}

// arg is the name as the caller passes it: absolute, or relative to the endpoint
func (w *c05world) arg(form, tok string) string {
	// "abs/" and "rel/": the same name with a trailing slash (a collection addressed the way servers spell collections)
	if strings.HasSuffix(form, "/") {
		if n := w.arg(strings.TrimSuffix(form, "/"), tok); n != "" && !strings.HasSuffix(n, "/") {
			return n + "/"
		} else {
			return n
		}
	}
	a := w.abs(tok)
	if form == "abs" {
		return a
	}
	rel := strings.TrimPrefix(a, w.base+"/")
	if tok == "" {
		rel = ""
	}
	return rel
}

func (w *c05world) tok(p string) string {
	for _, t := range []string{"", "f1", "f2", "d1", "d1/f3", "d1/d2", "d1/d2/f3", "new", "d1/new"} {
		a := w.abs(t)
		if a == p || strings.TrimSuffix(a, "/") == strings.TrimSuffix(p, "/") && p != "" {
			return "<" + t + ">"
		}
	}
	return "?" + p
}

var memMeta = map[string]webdav.FileInfo{
	"f1":       {Size: 6, ModTime: time.Date(2021, 3, 1, 12, 34, 56, 789000000, time.FixedZone("p3", 3*3600)), MIMEType: "text/plain; charset=utf-8", ETag: `a"b\c`},
	"f2":       {Size: 1 << 40, ModTime: time.Date(1999, 12, 31, 23, 59, 59, 0, time.FixedZone("m930", -9*3600-1800)), MIMEType: `Text/HTML;Charset="utf-8"; x=1 ;a=b`, ETag: "ü é W/x"}, // a valid but not canonical spelling: reported as the backend holds it
	"d1/f3":    {Size: 9, ModTime: time.Date(2038, 1, 19, 3, 14, 8, 0, time.UTC), MIMEType: "application/octet-stream", ETag: "e3"},
	"d1/d2/f3": {Size: 0, ModTime: time.Date(2000, 2, 29, 0, 0, 0, 0, time.UTC), MIMEType: "", ETag: "e4"},
}

func buildC05(c C05Case, concName, scratch string) (*c05world, func()) {
	w := &c05world{nm: nameConcs[concName]}
	switch c.Ep {
	case "none":
		w.epPath, w.base = "", ""
	case "slash":
		w.epPath, w.base = "/", ""
	case "p":
		w.epPath, w.base = "/"+w.nm["p"], "/"+w.nm["p"]
	case "ptrail":
		w.epPath, w.base = "/"+w.nm["p"]+"/", "/"+w.nm["p"]
	case "pq":
		w.epPath, w.base = "/"+w.nm["p"]+"/"+w.nm["q"]+"/", "/"+w.nm["p"]+"/"+w.nm["q"]
	}
	cleanup := func() {}
	if c.Fs == "mem" {
		w.mem = backends.NewMem()
		// ancestors of the tree
		acc := ""
		for _, s := range strings.Split(strings.TrimPrefix(w.base, "/"), "/") {
			if s != "" {
				acc += "/" + s
				w.mem.Put(webdav.FileInfo{Path: acc + "/", IsDir: true}, nil)
			}
		}
		for _, d := range []string{"d1", "d1/d2"} {
			w.mem.Put(webdav.FileInfo{Path: w.abs(d) + "/", IsDir: true}, nil)
		}
		for t, fi := range memMeta {
			fi.Path = w.abs(t)
			data := contents["small"]
			if t == "d1/f3" {
				data = contents["binary"]
			}
			f := fi
			w.mem.Put(f, data)
			w.mem.Files[strings.TrimSuffix(f.Path, "/")].Info.Size = fi.Size // the double may claim any size
		}
		w.h = &webdav.Handler{FileSystem: w.mem}
	} else {
		root, _ := os.MkdirTemp(scratch, "c05")
		w.root = root
		cleanup = func() { os.RemoveAll(root) }
		os.MkdirAll(filepath.Join(root, filepath.FromSlash(w.abs("d1/d2"))), 0755)
		os.WriteFile(filepath.Join(root, filepath.FromSlash(w.abs("f1"))), contents["small"], 0644)
		os.WriteFile(filepath.Join(root, filepath.FromSlash(w.abs("f2"))), []byte("<html>x</html>"), 0644)
		os.WriteFile(filepath.Join(root, filepath.FromSlash(w.abs("d1/f3"))), contents["binary"], 0644)
		os.WriteFile(filepath.Join(root, filepath.FromSlash(w.abs("d1/d2/f3"))), []byte{}, 0644)
		// fixed modification times (sub-second, distinct) so that two executions observe the same thing
		for i, t := range []string{"f1", "f2", "d1/f3", "d1/d2/f3"} {
			mt := time.Date(2021, 3, 1+i, 12, 34, 56, 789000000+i, time.UTC)
			os.Chtimes(filepath.Join(root, filepath.FromSlash(w.abs(t))), mt, mt)
		}
		w.h = &webdav.Handler{FileSystem: webdav.LocalFileSystem(root)}
	}
	return w, cleanup
}

func fiRow(w *c05world, fi webdav.FileInfo, withMeta bool) objRow {
	r := objRow{"path": w.tok(fi.Path), "dir": fi.IsDir, "size": fi.Size, "mtime": fi.ModTime.Unix(), "mime": fi.MIMEType, "etag": fi.ETag}
	if fi.IsDir {
		// collections carry no entity metadata
		r["size"], r["mtime"], r["mime"], r["etag"] = int64(0), int64(0), "", ""
	}
	return r
}

func runC05(in, concName, scratch string, emit func(interface{})) {
	if _, ok := nameConcs[concName]; !ok {
		fmt.Fprintln(os.Stderr, "unknown conc", concName)
		os.Exit(2)
	}
	fh, err := os.Open(in)
	if err != nil {
		fmt.Fprintln(os.Stderr, err)
		os.Exit(2)
	}
	sc := bufio.NewScanner(fh)
	sc.Buffer(make([]byte, 1<<20), 64<<20)
	ci := 0
	for sc.Scan() {
		ci++
		var c C05Case
		if err := json.Unmarshal(sc.Bytes(), &c); err != nil {
			fmt.Fprintln(os.Stderr, err)
			os.Exit(2)
		}
		ev := map[string]interface{}{"k": c.K, "ci": ci, "srv": c.Fs, "what": c.K + " ep=" + c.Ep + " name=" + c.Form, "panic": false, "err": "", "stage": "", "got": []objRow{}, "want": []objRow{}}
		// a call that does not return within the watchdog is recorded as an error of stage "hang" (its goroutine is abandoned)
		fin := make(chan map[string]interface{}, 1)
		go func(ev map[string]interface{}) {
			defer func() {
				if r := recover(); r != nil {
					ev["panic"] = true
				}
				fin <- ev
			}()
			c05one(c, concName, scratch, ev)
		}(ev)
		select {
		case ev = <-fin:
		case <-time.After(60 * time.Second):
			ev = map[string]interface{}{"k": c.K, "ci": ci, "srv": c.Fs, "what": c.K + " ep=" + c.Ep + " name=" + c.Form, "panic": false, "err": "the call did not return", "stage": "hang", "got": []objRow{}, "want": []objRow{}}
		}
		emit(ev)
	}
}

// backendInfo reads what the backend itself holds for a path (independent of the client and of the server's XML)
func backendInfo(w *c05world, p string) (webdav.FileInfo, bool) {
	if w.mem != nil {
		if f, ok := w.mem.Files[strings.TrimSuffix(p, "/")]; ok {
			return f.Info, true
		}
		if f, ok := w.mem.Files[p]; ok {
			return f.Info, true
		}
		return webdav.FileInfo{}, false
	}
	fi, err := webdav.LocalFileSystem(w.root).Stat(context.Background(), p)
	if err != nil {
		return webdav.FileInfo{}, false
	}
	return *fi, true
}

func c05one(c C05Case, concName, scratch string, ev map[string]interface{}) {
	w, cleanup := buildC05(c, concName, scratch)
	defer cleanup()
	ctx, cancel := context.WithTimeout(context.Background(), 20*time.Second)
	defer cancel()
	fail := func(stage string, err error) {
		ev["err"] = err.Error()
		ev["stage"] = stage
	}
	cl, err := webdav.NewClient(handlerClient{w.h}, "http://example.com"+(&urlPath{w.epPath}).String())
	if err != nil {
		fail("NewClient", err)
		return
	}
	name := w.arg(c.Form, c.Name)
	target := w.abs(c.Name)
	if w.mem != nil {
		w.mem.Take()
	}
	mutating := func() []objRow {
		out := []objRow{}
		for _, call := range w.mem.Take() {
			switch call.Op {
			case "Mkdir", "RemoveAll", "Copy", "Move", "Create":
				r := objRow{"op": call.Op, "path": w.tok(call.Path), "dest": "", "norec": false, "noow": false}
				if m, ok := call.Arg.(map[string]interface{}); ok {
					if d, ok := m["dest"].(string); ok {
						r["dest"] = w.tok(d)
					}
					if v, ok := m["norecursive"].(bool); ok {
						r["norec"] = v
					}
					if v, ok := m["nooverwrite"].(bool); ok {
						r["noow"] = v
					}
				}
				out = append(out, r)
			}
		}
		return out
	}
	switch c.K {
	case "stat":
		bi, ok := backendInfo(w, target)
		if !ok {
			fail("backend", fmt.Errorf("no such resource in the backend"))
			return
		}
		bi.Path = target
		ev["want"] = []objRow{fiRow(w, bi, true)}
		fi, err := cl.Stat(ctx, name)
		if err != nil {
			fail("Stat", err)
			return
		}
		ev["got"] = []objRow{fiRow(w, *fi, true)}
	case "readdir", "readdirhuge":
		if c.K == "readdirhuge" && w.mem != nil {
			// a listing that is large in size only (about 2 MB of multi-status)
			for i := 0; i < 4500; i++ {
				w.mem.Put(webdav.FileInfo{Path: fmt.Sprintf("%s/member %04d with a fairly long name to make the entry big.txt", target, i), Size: int64(i), ModTime: time.Unix(1600000000+int64(i), 0), MIMEType: "text/plain; charset=utf-8", ETag: fmt.Sprintf("tag-%d", i)}, nil)
			}
			for p, f := range w.mem.Files {
				if strings.Contains(p, "/member ") {
					f.Info.Size = 7
				}
			}
			w.mem.Take()
		}
		// want: the collection itself and its members (direct, or all descendants), from the backend's own listing
		var wantInfos []webdav.FileInfo
		var lister webdav.FileSystem = webdav.LocalFileSystem(w.root)
		if w.mem != nil {
			lister = w.mem
		}
		l, err := lister.ReadDir(ctx, target, c.Rec)
		if err != nil {
			fail("backend", err)
			return
		}
		wantInfos = l
		if w.mem != nil {
			w.mem.Take()
		}
		want := []objRow{}
		for _, fi := range wantInfos {
			want = append(want, fiRow(w, fi, true))
		}
		got := []objRow{}
		res, err := cl.ReadDir(ctx, name, c.Rec)
		if err != nil {
			fail("ReadDir", err)
			return
		}
		for _, fi := range res {
			r := fiRow(w, fi, true)
			// every returned path must be addressable again and name the same resource
			again, err := cl.Stat(ctx, fi.Path)
			if err != nil || fmt.Sprint(fiRow(w, *again, true)) != fmt.Sprint(r) {
				r["path"] = r["path"].(string) + " (not re-addressable)"
			}
			got = append(got, r)
		}
		byPath := func(l []objRow) {
			sort.Slice(l, func(i, j int) bool { return l[i]["path"].(string) < l[j]["path"].(string) })
		}
		byPath(want)
		byPath(got)
		ev["want"], ev["got"] = want, got
	case "open":
		var data []byte
		if w.mem != nil {
			data = w.mem.Files[strings.TrimSuffix(target, "/")].Data
		} else {
			data, _ = os.ReadFile(filepath.Join(w.root, filepath.FromSlash(target)))
		}
		ev["want"] = []objRow{{"bytes": fmt.Sprintf("%x", data)}}
		rc, err := cl.Open(ctx, name)
		if err != nil {
			fail("Open", err)
			return
		}
		b, _ := io.ReadAll(rc)
		rc.Close()
		ev["got"] = []objRow{{"bytes": fmt.Sprintf("%x", b)}}
	case "create":
		data := contents[c.Content]
		ev["want"] = []objRow{{"path": w.tok(target), "bytes": fmt.Sprintf("%d:%x", len(data), sum(data))}}
		wr, err := cl.Create(ctx, name)
		if err != nil {
			fail("Create", err)
			return
		}
		for off := 0; off < len(data); off += 70000 {
			end := off + 70000
			if end > len(data) {
				end = len(data)
			}
			if _, err := wr.Write(data[off:end]); err != nil {
				fail("Write", err)
				return
			}
		}
		if err := wr.Close(); err != nil {
			fail("Close", err)
			return
		}
		var stored []byte
		storedAt := "?"
		if w.mem != nil {
			for _, call := range w.mem.Take() {
				if call.Op == "Create" {
					storedAt = w.tok(call.Path)
					if m, ok := call.Arg.(map[string]interface{}); ok {
						s, _ := m["data"].(string)
						stored = []byte(s)
					}
				}
			}
		} else {
			b, err := os.ReadFile(filepath.Join(w.root, filepath.FromSlash(target)))
			if err == nil {
				stored, storedAt = b, w.tok(target)
			}
		}
		ev["got"] = []objRow{{"path": storedAt, "bytes": fmt.Sprintf("%d:%x", len(stored), sum(stored))}}
	case "mkdir":
		ev["want"] = []objRow{{"op": "Mkdir", "path": w.tok(target), "dest": "", "norec": false, "noow": false}}
		if err := cl.Mkdir(ctx, name); err != nil {
			fail("Mkdir", err)
			return
		}
		ev["got"] = mutating()
	case "removeall":
		ev["want"] = []objRow{{"op": "RemoveAll", "path": w.tok(target), "dest": "", "norec": false, "noow": false}}
		if err := cl.RemoveAll(ctx, name); err != nil {
			fail("RemoveAll", err)
			return
		}
		ev["got"] = mutating()
	case "copy":
		ev["want"] = []objRow{{"op": "Copy", "path": w.tok(target), "dest": w.tok(w.abs(c.Dest)), "norec": c.Norec, "noow": c.Noow}}
		copts := &webdav.CopyOptions{NoRecursive: c.Norec, NoOverwrite: c.Noow}
		if c.Nilopt {
			copts = nil
		}
		if err := cl.Copy(ctx, name, w.arg(c.Dform, c.Dest), copts); err != nil {
			fail("Copy", err)
			return
		}
		ev["got"] = mutating()
	case "move":
		ev["want"] = []objRow{{"op": "Move", "path": w.tok(target), "dest": w.tok(w.abs(c.Dest)), "norec": false, "noow": c.Noow}}
		mopts := &webdav.MoveOptions{NoOverwrite: c.Noow}
		if c.Nilopt {
			mopts = nil
		}
		if err := cl.Move(ctx, name, w.arg(c.Dform, c.Dest), mopts); err != nil {
			fail("Move", err)
			return
		}
		ev["got"] = mutating()
	}
}

func sum(b []byte) uint64 {
	var h uint64 = 1469598103934665603
	for _, x := range b {
		h ^= uint64(x)
		h *= 1099511628211
	}
	return h
}

// urlPath escapes a path for use inside an endpoint URL
type urlPath struct{ p string }

func (u *urlPath) String() string {
	if u.p == "" {
		return ""
	}
	segs := strings.Split(u.p, "/")
	for i, s := range segs {
		segs[i] = escSeg(s)
	}
	return strings.Join(segs, "/")
}
func escSeg(s string) string {
	var b strings.Builder
	for _, c := range []byte(s) {
		if c >= 'a' && c <= 'z' || c >= 'A' && c <= 'Z' || c >= '0' && c <= '9' || c == '-' || c == '.' || c == '_' || c == '~' {
			b.WriteByte(c)
		} else {
			fmt.Fprintf(&b, "%%%02X", c)
		}
	}
	return b.String()
}

package main

// Sync histories (RFC 6578 through carddav.Client.SyncCollection): every history of spec/Sync.tla is performed against an
// independent sync-collection responder (the "world": a store with a change log, written here, not library code); the caller's
// side -- keeping the token, applying each answer to a replica -- is done the way an application would. One "ystep" per call.

import (
	"bufio"
	"context"
	"encoding/json"
	"fmt"
	"io"
	"net/http"
	"net/url"
	"os"
	"sort"
	"strconv"
	"strings"
	"time"

	"github.com/emersion/go-webdav/carddav"

	"verif/harness/xmlt"
)

type SyncOp struct {
	Op  string `json:"op"`
	N   string `json:"n"`
	Lim int    `json:"lim"`
}

type syncConc struct {
	col   string
	name  map[string]string
	tokPf string // sync tokens are tokPf + k
	tag   func(r int) string
	zone  *time.Location
}

var syncConcs = map[string]syncConc{
	"hostile": {col: "/u/home/ä b%41#?;+/", name: map[string]string{"o1": "plain.vcf", "o2": "a b%41#?;+.vcf", "o3": "ü<&>'\"é.vcf", "o4": "plain.vcf.bak"},
		tokPf: "http://example.com/ns/sync?a=1&b=<\"'>&k=", tag: func(r int) string { return fmt.Sprintf(`r%d"\ü&<`, r) }, zone: time.FixedZone("m930", -9*3600-1800)},
	"plain": {col: "/u/home/book/", name: map[string]string{"o1": "a.vcf", "o2": "b.vcf", "o3": "c.vcf", "o4": "d.vcf"},
		tokPf: "http://example.com/ns/sync/", tag: func(r int) string { return strconv.Itoa(r) }, zone: time.UTC},
	// tokens that are not URLs at all, with blanks at both ends of the significant part
	"blank": {col: "/u/home/book/", name: map[string]string{"o1": "a", "o2": "a.vcf", "o3": "a.vcf.vcf", "o4": "A"},
		tokPf: "tok en:", tag: func(r int) string { return fmt.Sprintf("W/%d", r) }, zone: time.FixedZone("p545", 5*3600+45*60)},
}

type syncChange struct {
	n   string
	set bool
}

// syncWorld is the responder. It implements webdav.HTTPClient.
type syncWorld struct {
	sc     syncConc
	store  map[string]int
	log    []syncChange
	rev    int
	layout int
	// what the last request carried, as read by the independent reader
	reqTok, reqLim, reqNProp int
	reqLevel                 string
	reqOK                    bool
}

func (w *syncWorld) existedAt(k int, n string) bool {
	ex := false
	for i := 0; i < k; i++ {
		if w.log[i].n == n {
			ex = w.log[i].set
		}
	}
	return ex
}

func (w *syncWorld) Do(req *http.Request) (*http.Response, error) {
	body := []byte{}
	if req.Body != nil {
		body, _ = io.ReadAll(req.Body)
		req.Body.Close()
	}
	mk := func(st int, ct, b string) *http.Response {
		return &http.Response{StatusCode: st, Status: fmt.Sprintf("%d %s", st, http.StatusText(st)), Header: http.Header{"Content-Type": {ct}},
			Body: io.NopCloser(strings.NewReader(b)), Request: req, Proto: "HTTP/1.1", ProtoMajor: 1, ProtoMinor: 1, ContentLength: int64(len(b))}
	}
	w.reqOK = false
	w.reqTok, w.reqLim, w.reqNProp, w.reqLevel = -1, -1, 0, "?"
	if req.Method != "REPORT" || req.URL.Path != w.sc.col {
		return mk(400, "text/plain", "not a sync request for the collection"), nil
	}
	doc, err := xmlt.Read(body, nil)
	if err != nil || doc.Ns != "DAV:" || doc.Name != "sync-collection" {
		return mk(400, "text/plain", "not a sync-collection document"), nil
	}
	w.reqLim = 0
	tokText, seenTok := "", false
	for _, k := range doc.Kids {
		if k.Ns != "DAV:" {
			continue
		}
		switch k.Name {
		case "sync-token":
			seenTok = true
			for _, t := range k.Kids {
				if t.Name == "#text" {
					tokText += t.Text
				}
			}
		case "sync-level":
			w.reqLevel = ""
			for _, t := range k.Kids {
				if t.Name == "#text" {
					w.reqLevel += t.Text
				}
			}
		case "limit":
			w.reqLim = -2
			for _, nr := range k.Kids {
				if nr.Ns == "DAV:" && nr.Name == "nresults" && len(nr.Kids) == 1 {
					if v, err := strconv.Atoi(nr.Kids[0].Text); err == nil {
						w.reqLim = v
					}
				}
			}
		case "prop":
			w.reqNProp = len(k.Kids)
		}
	}
	if !seenTok {
		return mk(400, "text/plain", "no sync-token element"), nil
	}
	if tokText == "" {
		w.reqTok = 0
	} else if rest := strings.TrimPrefix(tokText, w.sc.tokPf); rest != tokText {
		if v, err := strconv.Atoi(rest); err == nil && v >= 0 && v <= len(w.log) {
			w.reqTok = v
		}
	}
	if w.reqTok < 0 {
		// RFC 6578 3.2: an unknown token is refused with the valid-sync-token precondition
		return mk(403, "application/xml", `<?xml version="1.0"?><D:error xmlns:D="DAV:"><D:valid-sync-token/></D:error>`), nil
	}
	w.reqOK = true
	since := w.reqTok
	changed := map[string]bool{}
	for i := since; i < len(w.log); i++ {
		changed[w.log[i].n] = true
	}
	var names []string
	for n := range changed {
		names = append(names, n)
	}
	sort.Strings(names)
	d := "D:"
	decl := `xmlns:D="DAV:"`
	if w.layout%2 == 1 {
		d, decl = "", `xmlns="DAV:"`
	}
	var sb strings.Builder
	cnt := 0
	trunc := false
	for _, n := range names {
		rev, in := w.store[n]
		if !in && !w.existedAt(since, n) {
			continue
		}
		if w.reqLim > 0 && cnt == w.reqLim {
			trunc = true
			break
		}
		cnt++
		href := (&url.URL{Path: w.sc.col + w.sc.name[n]}).EscapedPath()
		if in {
			et := xmlt.Esc(strconv.Quote(w.sc.tag(rev)))
			lm := storeBase.Add(time.Duration(rev) * time.Second).UTC().Format(http.TimeFormat)
			if w.layout%3 == 2 {
				// the two properties in separate propstat elements, plus an unknown one reported 404
				sb.WriteString("<" + d + "response><" + d + "href>" + xmlt.Esc(href) + "</" + d + "href><" + d + "propstat><" + d + "prop><" + d + "getetag>" + et + "</" + d + "getetag></" + d + "prop><" + d + "status>HTTP/1.1 200 OK</" + d + "status></" + d + "propstat><" + d + "propstat><" + d + "prop><" + d + "getlastmodified>" + lm + "</" + d + "getlastmodified></" + d + "prop><" + d + "status>HTTP/1.1 200 OK</" + d + "status></" + d + "propstat><" + d + "propstat><" + d + "prop><x:other xmlns:x=\"urn:x\"/></" + d + "prop><" + d + "status>HTTP/1.1 404 Not Found</" + d + "status></" + d + "propstat></" + d + "response>")
			} else {
				sb.WriteString("<" + d + "response>\n  <" + d + "href>" + xmlt.Esc(href) + "</" + d + "href>\n  <" + d + "propstat><" + d + "prop><" + d + "getlastmodified>" + lm + "</" + d + "getlastmodified><" + d + "getetag>" + et + "</" + d + "getetag></" + d + "prop><" + d + "status>HTTP/1.1 200 OK</" + d + "status></" + d + "propstat>\n</" + d + "response>")
			}
		} else {
			sb.WriteString("<" + d + "response><" + d + "href>" + xmlt.Esc(href) + "</" + d + "href><" + d + "status>HTTP/1.1 404 Not Found</" + d + "status></" + d + "response>")
		}
	}
	if trunc {
		sb.WriteString("<" + d + "response><" + d + "href>" + xmlt.Esc((&url.URL{Path: w.sc.col}).EscapedPath()) + "</" + d + "href><" + d + "status>HTTP/1.1 507 Insufficient Storage</" + d + "status><" + d + "error><" + d + "number-of-matches-within-limits/></" + d + "error></" + d + "response>")
	}
	tok := xmlt.Esc(w.sc.tokPf + strconv.Itoa(len(w.log)))
	w.layout++
	return mk(207, "application/xml; charset=utf-8", `<?xml version="1.0" encoding="utf-8"?>`+"\n<"+d+"multistatus "+decl+">"+sb.String()+"<"+d+"sync-token>"+tok+"</"+d+"sync-token></"+d+"multistatus>"), nil
}

func runSync(in, concName string, emit func(interface{})) {
	sc, ok := syncConcs[concName]
	if !ok {
		fmt.Fprintln(os.Stderr, "unknown conc", concName)
		os.Exit(2)
	}
	fh, err := os.Open(in)
	if err != nil {
		fmt.Fprintln(os.Stderr, err)
		os.Exit(2)
	}
	s := bufio.NewScanner(fh)
	s.Buffer(make([]byte, 1<<20), 64<<20)
	revName := func(p string) string {
		for t, n := range sc.name {
			if sc.col+n == p {
				return t
			}
		}
		return "?" + p
	}
	hi := 0
	for s.Scan() {
		var h struct {
			Ops []SyncOp `json:"ops"`
		}
		if err := json.Unmarshal(s.Bytes(), &h); err != nil {
			fmt.Fprintln(os.Stderr, err)
			os.Exit(2)
		}
		emit(map[string]interface{}{"k": "yreset", "hi": hi})
		w := &syncWorld{sc: sc, store: map[string]int{}, layout: hi}
		cl, _ := carddav.NewClient(w, "http://example.com/")
		// the caller's side
		replica := map[string]int{}
		token := ""
		for si, op := range h.Ops {
			ev := map[string]interface{}{"k": "ystep", "hi": hi, "si": si, "op": op, "panic": false, "hang": false,
				"req": map[string]interface{}{"tok": -1, "level": "?", "lim": -1, "nprop": 0},
				"res": map[string]interface{}{"err": false, "code": 0, "tok": 0, "upd": []sRow{}, "del": []string{}}, "rep": []sRow{}, "msg": ""}
			switch op.Op {
			case "sput":
				w.rev++
				w.store[op.N] = w.rev
				w.log = append(w.log, syncChange{op.N, true})
			case "sdel":
				if _, ok := w.store[op.N]; ok {
					delete(w.store, op.N)
					w.log = append(w.log, syncChange{op.N, false})
				}
			case "sync":
				done := make(chan struct{})
				ctx, cancel := context.WithTimeout(context.Background(), 20*time.Second)
				var sr *carddav.SyncResponse
				var cerr error
				pan := false
				go func() {
					defer close(done)
					defer func() {
						if r := recover(); r != nil {
							pan = true
						}
					}()
					sr, cerr = cl.SyncCollection(ctx, sc.col, &carddav.SyncQuery{SyncToken: token, Limit: op.Lim, DataRequest: carddav.AddressDataRequest{Props: []string{"FN"}}})
				}()
				select {
				case <-done:
				case <-time.After(30 * time.Second):
					ev["hang"] = true
					cancel()
					emit(ev)
					continue
				}
				cancel()
				ev["panic"] = pan
				ev["req"] = map[string]interface{}{"tok": w.reqTok, "level": w.reqLevel, "lim": w.reqLim, "nprop": w.reqNProp}
				res := map[string]interface{}{"err": false, "code": 0, "tok": 0, "upd": []sRow{}, "del": []string{}}
				if pan {
					// nothing more to observe
				} else if cerr != nil {
					res["err"] = true
					res["code"] = errCode(cerr)
					ev["msg"] = cerr.Error()
				} else {
					upd := []sRow{}
					del := []string{}
					t := -1
					if rest := strings.TrimPrefix(sr.SyncToken, sc.tokPf); rest != sr.SyncToken {
						if v, err := strconv.Atoi(rest); err == nil {
							t = v
						}
					}
					res["tok"] = t
					for _, o := range sr.Updated {
						e := -1
						for r := 1; r <= w.rev; r++ {
							if sc.tag(r) == o.ETag {
								e = r
							}
						}
						if d := o.ModTime.Sub(storeBase); d != time.Duration(e)*time.Second {
							e = -3
						}
						n := revName(o.Path)
						upd = append(upd, sRow{"n": n, "e": e})
						replica[n] = e
					}
					for _, p := range sr.Deleted {
						n := revName(p)
						del = append(del, n)
						delete(replica, n)
					}
					token = sr.SyncToken
					res["upd"], res["del"] = upd, del
				}
				ev["res"] = res
			}
			rep := []sRow{}
			var ks []string
			for n := range replica {
				ks = append(ks, n)
			}
			sort.Strings(ks)
			for _, n := range ks {
				rep = append(rep, sRow{"n": n, "e": replica[n]})
			}
			ev["rep"] = rep
			emit(ev)
		}
		hi++
	}
}

package main

import (
	"context"
	"fmt"
	"net/http"
	"net/url"
	"strings"
	"time"

	"github.com/emersion/go-webdav/caldav"
	"github.com/emersion/go-webdav/carddav"

	"verif/harness/xmlt"
)

func xesc(s string) string { return xmlt.Esc(s) }

type propXML struct {
	xml string
	opt bool
}

// layoutResponse phrases one DAV:response in the given layout; every layout is a conformant multi-status
func layoutResponse(href string, props []propXML, layout string, d, extraNS string, absent ...string) string {
	var b strings.Builder
	// absent: empty elements of the optional properties the resource does not have; the "absent404*" layouts report them
	// in a 404 propstat (as most servers do), every other layout leaves them out
	abs404 := ""
	if len(absent) > 0 {
		abs404 = "<" + d + "propstat><" + d + "prop>" + strings.Join(absent, "") + "</" + d + "prop><" + d + "status>HTTP/1.1 404 Not Found</" + d + "status></" + d + "propstat>"
	}
	nl := ""
	if layout == "ws" {
		nl = "\n\t  "
	}
	b.WriteString("<" + d + "response>" + nl + "<" + d + "href>" + xesc(href) + "</" + d + "href>" + nl)
	status := func(code int) string {
		return "<" + d + "status>HTTP/1.1 " + fmt.Sprint(code) + " " + http.StatusText(code) + "</" + d + "status>"
	}
	switch layout {
	case "split":
		for _, p := range props {
			b.WriteString("<" + d + "propstat><" + d + "prop>" + p.xml + "</" + d + "prop>" + status(200) + "</" + d + "propstat>")
		}
	case "splitrev":
		// one propstat per property, in reverse order
		for i := len(props) - 1; i >= 0; i-- {
			b.WriteString("<" + d + "propstat><" + d + "prop>" + props[i].xml + "</" + d + "prop>" + status(200) + "</" + d + "propstat>")
		}
	case "absent404", "absent404first":
		if layout == "absent404first" {
			b.WriteString(abs404)
		}
		b.WriteString("<" + d + "propstat><" + d + "prop>")
		for _, p := range props {
			b.WriteString(p.xml)
		}
		b.WriteString("</" + d + "prop>" + status(200) + "</" + d + "propstat>")
		if layout == "absent404" {
			b.WriteString(abs404)
		}
	case "opt404first":
		// the propstat reporting absent optional properties precedes the one with the values
		b.WriteString("<" + d + "propstat><" + d + "prop><" + d + "getcontenttype/><" + d + "quota-used-bytes/></" + d + "prop>" + status(404) + "</" + d + "propstat>")
		b.WriteString("<" + d + "propstat><" + d + "prop>")
		for _, p := range props {
			b.WriteString(p.xml)
		}
		b.WriteString("</" + d + "prop>" + status(200) + "</" + d + "propstat>")
	case "extra":
		b.WriteString("<" + d + "propstat><" + d + "prop><x:color xmlns:x=\"http://apple.com/ns/ical/\">#ff0000</x:color>")
		for _, p := range props {
			b.WriteString(p.xml)
		}
		b.WriteString("<" + d + "owner><" + d + "href>/u/</" + d + "href></" + d + "owner></" + d + "prop>" + status(200) +
			"<" + d + "responsedescription>fine</" + d + "responsedescription></" + d + "propstat>")
		b.WriteString("<" + d + "responsedescription>all good</" + d + "responsedescription>")
	case "opt404":
		b.WriteString("<" + d + "propstat><" + d + "prop>")
		for _, p := range props {
			b.WriteString(p.xml)
		}
		b.WriteString("</" + d + "prop>" + status(200) + "</" + d + "propstat>")
		b.WriteString("<" + d + "propstat><" + d + "prop><" + d + "getcontenttype/><" + d + "quota-used-bytes/></" + d + "prop>" + status(404) + "</" + d + "propstat>")
	default:
		b.WriteString("<" + d + "propstat>" + nl + "<" + d + "prop>" + nl)
		for _, p := range props {
			b.WriteString(p.xml + nl)
		}
		b.WriteString("</" + d + "prop>" + nl + status(200) + nl + "</" + d + "propstat>" + nl)
	}
	b.WriteString("</" + d + "response>" + nl)
	return b.String()
}

func c10doc(c C10Case, cc c10conc, ev map[string]interface{}, fail func(string, error)) {
	ev["what"] = "independent-writer/" + c.Call + "/" + c.Layout
	ctx, cancel := context.WithTimeout(context.Background(), 20*time.Second)
	defer cancel()
	d, cp := "D:", "C:"
	decl := `xmlns:D="DAV:" xmlns:C="urn:ietf:params:xml:ns:caldav"`
	dns := xmlt.CAL
	if c.Srv == "card" {
		decl = `xmlns:D="DAV:" xmlns:C="urn:ietf:params:xml:ns:carddav"`
		dns = xmlt.CARD
	}
	if c.Layout == "prefixes" {
		// misleading prefixes: "C" bound to DAV:, "D" bound to the service namespace
		d, cp = "C:", "D:"
		decl = `xmlns:C="DAV:" xmlns:D="` + dns + `"`
	}
	dataEl, colType := "calendar-data", "calendar"
	if c.Srv == "card" {
		dataEl, colType = "address-data", "addressbook"
	}
	var resps strings.Builder
	want := []objRow{}
	switch c.Call {
	case "objs", "sync":
		for _, o := range c.Objs {
			text := calText(calData(o.Data))
			if c.Srv == "card" {
				var bb strings.Builder
				bb.WriteString(cardEnc(o.Data))
				text = bb.String()
			}
			dataXML := "<" + cp + dataEl + ">" + xesc(text) + "</" + cp + dataEl + ">"
			if c.Layout == "cdata" {
				dataXML = "<" + cp + dataEl + "><![CDATA[" + strings.ReplaceAll(text, "]]>", "]]]]><![CDATA[>") + "]]></" + cp + dataEl + ">"
			}
			props := []propXML{}
			var absent []string
			if o.Etag != "e0" {
				props = append(props, propXML{"<" + d + "getetag>" + xesc(fmt.Sprintf("%q", cc.etag[o.Etag])) + "</" + d + "getetag>", true})
			} else {
				absent = append(absent, "<"+d+"getetag/>")
			}
			if o.Mtime != "m0" {
				props = append(props, propXML{"<" + d + "getlastmodified>" + cc.mtime[o.Mtime].UTC().Format(http.TimeFormat) + "</" + d + "getlastmodified>", true})
			} else {
				absent = append(absent, "<"+d+"getlastmodified/>")
			}
			if c.Call == "objs" {
				props = append([]propXML{{dataXML, false}}, props...)
				want = append(want, row(o.Path, o.Etag, o.Mtime, o.Data))
			} else {
				want = append(want, row(o.Path, o.Etag, o.Mtime, "-"))
			}
			resps.WriteString(layoutResponse((&url.URL{Path: cc.objPath(c.Srv, o.Path)}).String(), props, c.Layout, d, dns, absent...))
		}
	case "cols":
		// the home set itself (not a calendar / address book: to be skipped by the client because of its type, wherever it stands
		// in the answer -- first, as most servers write it, last ("homelast"), or not at all ("nohome"))
		homeResp := layoutResponse("/u/home/", []propXML{{"<" + d + "resourcetype><" + d + "collection/></" + d + "resourcetype>", false}}, c.Layout, d, dns)
		if c.Layout != "homelast" && c.Layout != "nohome" {
			resps.WriteString(homeResp)
		}
		for _, col := range c.Cols {
			props := []propXML{{"<" + d + "resourcetype><" + d + "collection/><" + cp + colType + "/></" + d + "resourcetype>", false}}
			var absent []string
			if col.Name != "" {
				props = append(props, propXML{"<" + d + "displayname>" + xesc(cc.name[col.Name]) + "</" + d + "displayname>", true})
			} else {
				absent = append(absent, "<"+d+"displayname/>")
			}
			descEl := "calendar-description"
			if c.Srv == "card" {
				descEl = "addressbook-description"
			}
			if col.Desc != "" {
				props = append(props, propXML{"<" + cp + descEl + ">" + xesc(cc.desc[col.Desc]) + "</" + cp + descEl + ">", true})
			} else {
				absent = append(absent, "<"+cp+descEl+"/>")
			}
			if col.Max != 0 {
				props = append(props, propXML{"<" + cp + "max-resource-size>" + fmt.Sprint(cc.max[col.Max]) + "</" + cp + "max-resource-size>", true})
			} else {
				absent = append(absent, "<"+cp+"max-resource-size/>")
			}
			if c.Srv == "cal" {
				s := "<" + cp + "supported-calendar-component-set>"
				for _, n := range supCal[col.Sup] {
					s += "<" + cp + "comp name=\"" + n + "\"/>"
				}
				props = append(props, propXML{s + "</" + cp + "supported-calendar-component-set>", true})
			} else {
				s := "<" + cp + "supported-address-data>"
				for _, t := range supCard[col.Sup] {
					s += "<" + cp + "address-data-type content-type=\"" + t.ContentType + "\" version=\"" + t.Version + "\"/>"
				}
				props = append(props, propXML{s + "</" + cp + "supported-address-data>", true})
			}
			want = append(want, objRow{"path": col.Path, "name": col.Name, "desc": col.Desc, "max": col.Max, "sup": col.Sup})
			resps.WriteString(layoutResponse((&url.URL{Path: cc.colPath[col.Path]}).String(), props, c.Layout, d, dns, absent...))
		}
		if c.Layout == "homelast" {
			resps.WriteString(homeResp)
		}
	}
	ev["want"] = want
	tail := ""
	if c.Call == "sync" {
		tail = "<" + d + "sync-token>http://example.com/ns/sync/2</" + d + "sync-token>"
	}
	body := `<?xml version="1.0" encoding="utf-8"?>` + "\n<" + d + "multistatus " + decl + ">" + resps.String() + tail + "</" + d + "multistatus>"
	tr := &scriptHTTP{st: 207, hdr: http.Header{"Content-Type": {"application/xml; charset=utf-8"}}, body: []byte(body)}
	got := []objRow{}
	colp := cc.colPath["c1"]
	switch {
	case c.Srv == "cal" && c.Call == "objs":
		cl, _ := caldav.NewClient(tr, "http://example.com/")
		l, err := cl.QueryCalendar(ctx, colp, &caldav.CalendarQuery{CompFilter: caldav.CompFilter{Name: "VCALENDAR"}})
		if err != nil {
			fail("QueryCalendar", err)
			return
		}
		for _, x := range l {
			got = append(got, row(cc.objTok(c.Srv, x.Path), rev(cc.etag, x.ETag), cc.mtimeTok(x.ModTime), calTok(x.Data)))
		}
	case c.Srv == "card" && c.Call == "objs":
		cl, _ := carddav.NewClient(tr, "http://example.com/")
		l, err := cl.MultiGetAddressBook(ctx, colp, &carddav.AddressBookMultiGet{Paths: []string{colp + "x.vcf"}})
		if err != nil {
			fail("MultiGetAddressBook", err)
			return
		}
		for _, x := range l {
			got = append(got, row(cc.objTok(c.Srv, x.Path), rev(cc.etag, x.ETag), cc.mtimeTok(x.ModTime), cardTok(x.Card)))
		}
	case c.Call == "sync":
		cl, _ := carddav.NewClient(tr, "http://example.com/")
		sr, err := cl.SyncCollection(ctx, colp, &carddav.SyncQuery{SyncToken: "t1"})
		if err != nil {
			fail("SyncCollection", err)
			return
		}
		for _, x := range sr.Updated {
			got = append(got, row(cc.objTok(c.Srv, x.Path), rev(cc.etag, x.ETag), cc.mtimeTok(x.ModTime), "-"))
		}
		if sr.SyncToken != "http://example.com/ns/sync/2" || len(sr.Deleted) != 0 {
			got = append(got, row("?synctoken", "", "", ""))
		}
	case c.Srv == "cal" && c.Call == "cols":
		cl, _ := caldav.NewClient(tr, "http://example.com/")
		l, err := cl.FindCalendars(ctx, "/u/home/")
		if err != nil {
			fail("FindCalendars", err)
			return
		}
		for _, x := range l {
			got = append(got, objRow{"path": rev(cc.colPath, x.Path), "name": rev(cc.name, x.Name), "desc": rev(cc.desc, x.Description), "max": cc.maxTok(x.MaxResourceSize), "sup": supCalTok(x.SupportedComponentSet)})
		}
	case c.Srv == "card" && c.Call == "cols":
		cl, _ := carddav.NewClient(tr, "http://example.com/")
		l, err := cl.FindAddressBooks(ctx, "/u/home/")
		if err != nil {
			fail("FindAddressBooks", err)
			return
		}
		for _, x := range l {
			got = append(got, objRow{"path": rev(cc.colPath, x.Path), "name": rev(cc.name, x.Name), "desc": rev(cc.desc, x.Description), "max": cc.maxTok(x.MaxResourceSize), "sup": supCardTok(x.SupportedAddressData)})
		}
	}
	ev["got"] = got
}

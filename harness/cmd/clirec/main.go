// clirec is the F2 recorder for the client-side properties: C14 (scripted responses), C10 (collections and objects
// reach the client unchanged) and C05 (WebDAV client and server agree). Lexical observation only.
package main

import (
	"bufio"
	"encoding/json"
	"flag"
	"fmt"
	"os"
	"sync"
)

func main() {
	mode := flag.String("mode", "c14", "c14 | c10 | c05")
	in := flag.String("in", "", "ndjson of cases")
	out := flag.String("out", "", "output ndjson")
	seed := flag.Int("seed", 1, "")
	conc := flag.String("conc", "hostile", "")
	scratch := flag.String("scratch", os.TempDir(), "")
	flag.Parse()
	fh, err := os.Create(*out)
	if err != nil {
		fmt.Fprintln(os.Stderr, err)
		os.Exit(2)
	}
	w := bufio.NewWriterSize(fh, 1<<20)
	enc := json.NewEncoder(w)
	enc.SetEscapeHTML(false)
	var mu sync.Mutex
	n := 0
	emit := func(v interface{}) {
		mu.Lock()
		enc.Encode(v)
		n++
		mu.Unlock()
	}
	switch *mode {
	case "c14":
		inf, err := os.Open(*in)
		if err != nil {
			fmt.Fprintln(os.Stderr, err)
			os.Exit(2)
		}
		sc := bufio.NewScanner(inf)
		sc.Buffer(make([]byte, 1<<20), 64<<20)
		// the cases are independent: run them on a pool, keep the input order in the output
		var cases []C14Case
		for sc.Scan() {
			var c C14Case
			if err := json.Unmarshal(sc.Bytes(), &c); err != nil {
				fmt.Fprintln(os.Stderr, err)
				os.Exit(2)
			}
			cases = append(cases, c)
		}
		res := make([]map[string]interface{}, len(cases))
		var wg sync.WaitGroup
		const workers = 16
		for wk := 0; wk < workers; wk++ {
			wg.Add(1)
			go func(wk int) {
				defer wg.Done()
				sh := &sharedSet{tr: &swapHTTP{}} // long-lived clients of this worker
				for i := wk; i < len(cases); i += workers {
					res[i] = runC14(cases[i], *seed+i, sh)
				}
			}(wk)
		}
		wg.Wait()
		for _, r := range res {
			emit(r)
		}
	case "c10":
		runC10(*in, *conc, emit)
	case "sync":
		runSync(*in, *conc, emit)
	case "store":
		runStore(*in, *conc, emit)
	case "c05":
		runC05(*in, *conc, *scratch, emit)
	}
	w.Flush()
	fh.Close()
	fmt.Printf("{\"recorded\":%d}\n", n)
}

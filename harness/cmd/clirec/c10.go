package main

import (
	"bufio"
	"bytes"
	"context"
	"encoding/json"
	"fmt"
	"io"
	"net/http"
	"net/http/httptest"
	"net/url"
	"os"
	"sort"
	"strings"
	"time"

	"github.com/emersion/go-ical"
	"github.com/emersion/go-vcard"
	"github.com/emersion/go-webdav/caldav"
	"github.com/emersion/go-webdav/carddav"

	"verif/harness/backends"
	"verif/harness/dav"
	"verif/harness/xmlt"
)

type Col struct {
	Path string `json:"path"`
	Name string `json:"name"`
	Desc string `json:"desc"`
	Max  int    `json:"max"`
	Sup  string `json:"sup"`
}
type Obj struct {
	Path  string `json:"path"`
	Etag  string `json:"etag"`
	Mtime string `json:"mtime"`
	Data  string `json:"data"`
}
type MgItem struct {
	Href string `json:"href"`
	Out  string `json:"out"`
}
type C10Case struct {
	K      string   `json:"k"`
	Srv    string   `json:"srv"`
	Cols   []Col    `json:"cols"`
	Via    string   `json:"via"`
	Objs   []Obj    `json:"objs"`
	Items  []MgItem `json:"items"`
	Path   string   `json:"path"`
	Data   string   `json:"data"`
	Rpath  string   `json:"rpath"`
	Etag   string   `json:"etag"`
	Mtime  string   `json:"mtime"`
	Call   string   `json:"call"`
	Layout string   `json:"layout"`
	Form   string   `json:"form"` // put: the name as the caller spells it, "abs" or "rel" (relative to the endpoint path)
}

// handlerClient lets a real client talk to a real handler in process.
type handlerClient struct{ h http.Handler }

func (c handlerClient) Do(req *http.Request) (resp *http.Response, err error) {
	// a request no server could receive (not an http URL, a target that is not a request-target) fails like a transport would
	// (and, like every RoundTripper, closes the request body whatever happens)
	defer func() {
		if e := recover(); e != nil {
			resp, err = nil, fmt.Errorf("transport: cannot send %s %s: %v", req.Method, req.URL, e)
		}
		if err != nil && req.Body != nil {
			req.Body.Close()
		}
	}()
	if req.URL.Scheme != "http" && req.URL.Scheme != "https" {
		return nil, fmt.Errorf("transport: unsupported protocol scheme %q", req.URL.Scheme)
	}
	var body io.Reader = http.NoBody
	if req.Body != nil {
		b, _ := io.ReadAll(req.Body)
		req.Body.Close()
		body = bytes.NewReader(b)
	}
	sreq := httptest.NewRequest(req.Method, req.URL.RequestURI(), body)
	sreq.Header = req.Header.Clone()
	sreq = sreq.WithContext(req.Context())
	rw := httptest.NewRecorder()
	c.h.ServeHTTP(rw, sreq)
	resp = rw.Result()
	resp.Request = req
	return resp, nil
}

// ---- concretisation (injective on the tokens of the cases)
type c10conc struct {
	colPath, objName, name, desc, etag map[string]string
	mtime                              map[string]time.Time
	max                                map[int]int64
}

var concsC10 = map[string]c10conc{
	"hostile": {
		colPath: map[string]string{"c1": "/u/home/work stuff/", "c2": "/u/home/ä%41#?;+/"},
		objName: map[string]string{"o1": "plain", "o2": "a b%41#?;+", "o3": "ü<&>'\"é"},
		name:    map[string]string{"": "", "n1": `Work <&> "cal" ' ü`, "n2": "  lead & trail  "},
		desc:    map[string]string{"": "", "t1": "line1\nline2 <b>&amp;</b> ]]> end "},
		etag:    map[string]string{"e0": "", "e1": "abc", "e2": `a"b\c`, "e3": "ü é W/x"},
		mtime: map[string]time.Time{"m0": {}, "m1": time.Date(2021, 3, 1, 12, 34, 56, 789000000, time.FixedZone("p3", 3*3600)),
			"m2": time.Date(1999, 12, 31, 23, 59, 59, 0, time.FixedZone("m930", -9*3600-1800))},
		max: map[int]int64{0: 0, 1: 1, 2: 1 << 40},
	},
	"plain": {
		colPath: map[string]string{"c1": "/u/home/work/", "c2": "/u/home/private/"},
		objName: map[string]string{"o1": "a", "o2": "b", "o3": "c"},
		name:    map[string]string{"": "", "n1": "Work", "n2": "Private"},
		desc:    map[string]string{"": "", "t1": "a description"},
		etag:    map[string]string{"e0": "", "e1": "1", "e2": "2", "e3": "3"},
		mtime:   map[string]time.Time{"m0": {}, "m1": time.Date(2021, 3, 1, 12, 34, 56, 0, time.UTC), "m2": time.Date(2001, 1, 1, 0, 0, 0, 0, time.UTC)},
		max:     map[int]int64{0: 0, 1: 100, 2: 65536},
	},
}

func rev(m map[string]string, v string) string {
	for k, x := range m {
		if x == v {
			return k
		}
	}
	return "?" + v
}

func (c c10conc) objPath(srv, tok string) string {
	ext := ".ics"
	if srv == "card" {
		ext = ".vcf"
	}
	name, ok := c.objName[tok]
	if !ok {
		name = "n " + tok // the numbered objects of the large multiget
	}
	return c.colPath["c1"] + name + ext
}
func (c c10conc) objTok(srv, p string) string {
	for _, t := range []string{"o1", "o2", "o3"} {
		if c.objPath(srv, t) == p {
			return t
		}
	}
	if base := strings.TrimPrefix(p, c.colPath["c1"]+"n "); base != p {
		if t := strings.TrimSuffix(strings.TrimSuffix(base, ".ics"), ".vcf"); c.objPath(srv, t) == p {
			return t
		}
	}
	return "?" + p
}
func (c c10conc) mtimeTok(t time.Time) string {
	for k, v := range c.mtime {
		if v.Unix() == t.Unix() { // equal to the second
			return k
		}
	}
	if t.IsZero() {
		return "none"
	}
	return "?" + t.UTC().Format(time.RFC3339Nano)
}
func (c c10conc) maxTok(v int64) int {
	for k, x := range c.max {
		if x == v {
			return k
		}
	}
	return -1
}

// "empty": a set that is present but empty (not nil: nil means "the default", which the server announces as VEVENT)
var supCal = map[string][]string{"empty": {}, "none": {"VJOURNAL"}, "one": {"VEVENT"}, "two": {"VEVENT", "VTODO"}}
var supCard = map[string][]carddav.AddressDataType{"empty": {}, "none": {{ContentType: "text/x-vcard", Version: "2.1"}}, "one": {{ContentType: "text/vcard", Version: "3.0"}},
	"two": {{ContentType: "text/vcard", Version: "3.0"}, {ContentType: "text/vcard", Version: "4.0"}}}

func supCalTok(l []string) string {
	for k, v := range supCal {
		if strings.Join(v, ",") == strings.Join(l, ",") {
			return k
		}
	}
	return "?" + strings.Join(l, ",")
}
func supCardTok(l []carddav.AddressDataType) string {
	for k, v := range supCard {
		if fmt.Sprint(v) == fmt.Sprint(l) {
			return k
		}
	}
	return "?" + fmt.Sprint(l)
}

// ---- object payloads with escaped, folded, multi-valued and non-ASCII values
func calData(tok string) *ical.Calendar {
	cal := ical.NewCalendar()
	cal.Props.SetText(ical.PropVersion, "2.0")
	cal.Props.SetText(ical.PropProductID, "-//verif//C10//EN")
	ev := ical.NewComponent(ical.CompEvent)
	ev.Props.SetText(ical.PropUID, "uid-"+tok)
	ev.Props.SetDateTime(ical.PropDateTimeStamp, time.Date(2021, 1, 2, 3, 4, 5, 0, time.UTC))
	ev.Props.SetDateTime(ical.PropDateTimeStart, time.Date(2021, 1, 2, 3, 4, 5, 0, time.UTC))
	switch tok {
	case "d1":
		ev.Props.SetText(ical.PropSummary, "simple")
	case "d2":
		ev.Props.SetText(ical.PropSummary, "comma, semicolon; backslash \\ newline\nquote \" <&> ]]> é")
		ev.Props.SetText(ical.PropDescription, strings.Repeat("long folded ä text ", 30))
		cat := ical.NewProp(ical.PropCategories)
		cat.SetTextList([]string{"a,b", "c;d", "é"})
		ev.Props.Set(cat)
	case "d3":
		ev.Props.SetText(ical.PropSummary, " leading and trailing blanks ")
		at := ical.NewProp(ical.PropAttendee)
		at.Params.Set("CN", "Doe, John: 'quoted' ü")
		at.Value = "mailto:j@example.com"
		ev.Props.Add(at)
		at2 := ical.NewProp(ical.PropAttendee)
		at2.Value = "mailto:k@example.com"
		ev.Props.Add(at2)
		al := ical.NewComponent(ical.CompAlarm)
		al.Props.SetText(ical.PropAction, "DISPLAY")
		al.Props.SetText(ical.PropDescription, "x")
		tr := ical.NewProp(ical.PropTrigger)
		tr.Value = "-PT15M"
		al.Props.Set(tr)
		ev.Children = append(ev.Children, al)
	}
	cal.Children = append(cal.Children, ev)
	return cal
}
func cardData(tok string) vcard.Card {
	c := make(vcard.Card)
	c.SetValue(vcard.FieldVersion, "3.0")
	c.SetValue(vcard.FieldUID, "uid-"+tok)
	switch tok {
	case "d1":
		c.SetValue(vcard.FieldFormattedName, "simple")
	case "d2":
		c.SetValue(vcard.FieldFormattedName, "comma, semicolon; backslash \\ newline\nquote \" <&> ]]> é")
		c.SetValue(vcard.FieldNote, strings.Repeat("long folded ä text ", 30))
		c.Add(vcard.FieldEmail, &vcard.Field{Value: "a@example.com", Params: vcard.Params{"TYPE": {"home", "pref"}}})
		c.Add(vcard.FieldEmail, &vcard.Field{Value: "b@example.com"})
	case "d3":
		c.SetValue(vcard.FieldFormattedName, " leading and trailing blanks ")
		c.Add(vcard.FieldAddress, &vcard.Field{Value: ";;1 Main St, Apt 2;Town;;12345;Land"})
	}
	return c
}

// cardEnc is the wire text of a card payload
func cardEnc(tok string) string {
	var b bytes.Buffer
	vcard.NewEncoder(&b).Encode(cardData(tok))
	return b.String()
}
func calText(c *ical.Calendar) string {
	var b bytes.Buffer
	if c == nil || ical.NewEncoder(&b).Encode(c) != nil {
		return "!unencodable"
	}
	return b.String()
}
func cardText(c vcard.Card) string {
	var b bytes.Buffer
	if c == nil || vcard.NewEncoder(&b).Encode(c) != nil {
		return "!unencodable"
	}
	// field order of a map-backed card is not stable: compare as sorted lines
	lines := strings.Split(strings.TrimSpace(b.String()), "\r\n")
	sort.Strings(lines)
	return strings.Join(lines, "\n")
}
func calTok(c *ical.Calendar) string {
	t := calText(c)
	for _, k := range []string{"d1", "d2", "d3"} {
		if calText(calData(k)) == t {
			return k
		}
	}
	return "?data"
}
func cardTok(c vcard.Card) string {
	t := cardText(c)
	for _, k := range []string{"d1", "d2", "d3"} {
		if cardText(cardData(k)) == t {
			return k
		}
	}
	return "?data"
}

type objRow = map[string]interface{}

func row(path, etag, mtime, data string) objRow {
	return objRow{"path": path, "etag": etag, "mtime": mtime, "data": data}
}

func runC10(in, concName string, emit func(interface{})) {
	cc, ok := concsC10[concName]
	if !ok {
		fmt.Fprintln(os.Stderr, "unknown conc", concName)
		os.Exit(2)
	}
	fh, err := os.Open(in)
	if err != nil {
		fmt.Fprintln(os.Stderr, err)
		os.Exit(2)
	}
	sc := bufio.NewScanner(fh)
	sc.Buffer(make([]byte, 1<<20), 64<<20)
	ci := 0
	for sc.Scan() {
		ci++
		var c C10Case
		if err := json.Unmarshal(sc.Bytes(), &c); err != nil {
			fmt.Fprintln(os.Stderr, err)
			os.Exit(2)
		}
		ev := map[string]interface{}{"k": c.K, "ci": ci, "srv": c.Srv, "what": c.K, "panic": false, "err": "", "stage": "", "got": []objRow{}, "want": []objRow{}}
		func() {
			defer func() {
				if r := recover(); r != nil {
					ev["panic"] = true
				}
			}()
			c10one(c, cc, ev)
		}()
		emit(ev)
	}
}

func c10one(c C10Case, cc c10conc, ev map[string]interface{}) {
	ctx, cancel := context.WithTimeout(context.Background(), 20*time.Second)
	defer cancel()
	fail := func(stage string, err error) {
		ev["err"] = err.Error()
		ev["stage"] = stage
	}
	calBe := &backends.Cal{Principal: "/u/", HomeSet: "/u/home/", Objects: map[string]*caldav.CalendarObject{}, Fail: map[string]int{}}
	cardBe := &backends.Card{Principal: "/u/", HomeSet: "/u/home/", Objects: map[string]*carddav.AddressObject{}, Fail: map[string]int{}}
	var h http.Handler = &caldav.Handler{Backend: calBe}
	if c.Srv == "card" {
		h = &carddav.Handler{Backend: cardBe}
	}
	hc := handlerClient{h}
	calCl, _ := caldav.NewClient(hc, "http://example.com/")
	cardCl, _ := carddav.NewClient(hc, "http://example.com/")
	colp := cc.colPath["c1"]
	// the collection that holds the objects always exists
	calBe.Calendars = []caldav.Calendar{{Path: colp, SupportedComponentSet: []string{"VEVENT"}}}
	cardBe.Books = []carddav.AddressBook{{Path: colp}}
	put := func(o Obj) {
		p := cc.objPath(c.Srv, o.Path)
		if c.Srv == "cal" {
			calBe.Objects[p] = &caldav.CalendarObject{Path: p, ETag: cc.etag[o.Etag], ModTime: cc.mtime[o.Mtime], ContentLength: int64(len(calText(calData(o.Data)))), Data: calData(o.Data)}
		} else {
			cardBe.Objects[p] = &carddav.AddressObject{Path: p, ETag: cc.etag[o.Etag], ModTime: cc.mtime[o.Mtime], ContentLength: 77, Card: cardData(o.Data)}
		}
	}
	switch c.K {
	case "cols":
		ev["what"] = "discovery"
		want := []objRow{}
		calBe.Calendars, cardBe.Books = nil, nil
		for _, col := range c.Cols {
			wsup := col.Sup
			if c.Srv == "card" {
				wsup = "-" // the CardDAV server advertises its own fixed address-data list: not part of the statement
			}
			want = append(want, objRow{"path": col.Path, "name": col.Name, "desc": col.Desc, "max": col.Max, "sup": wsup})
			if c.Srv == "cal" {
				calBe.Calendars = append(calBe.Calendars, caldav.Calendar{Path: cc.colPath[col.Path], Name: cc.name[col.Name], Description: cc.desc[col.Desc],
					MaxResourceSize: cc.max[col.Max], SupportedComponentSet: supCal[col.Sup]})
			} else {
				cardBe.Books = append(cardBe.Books, carddav.AddressBook{Path: cc.colPath[col.Path], Name: cc.name[col.Name], Description: cc.desc[col.Desc],
					MaxResourceSize: cc.max[col.Max], SupportedAddressData: supCard[col.Sup]})
			}
		}
		ev["want"] = want
		got := []objRow{}
		if c.Srv == "cal" {
			l, err := calCl.FindCalendars(ctx, "/u/home/")
			if err != nil {
				fail("FindCalendars", err)
				return
			}
			for _, x := range l {
				got = append(got, objRow{"path": rev(cc.colPath, x.Path), "name": rev(cc.name, x.Name), "desc": rev(cc.desc, x.Description), "max": cc.maxTok(x.MaxResourceSize), "sup": supCalTok(x.SupportedComponentSet)})
			}
		} else {
			l, err := cardCl.FindAddressBooks(ctx, "/u/home/")
			if err != nil {
				fail("FindAddressBooks", err)
				return
			}
			for _, x := range l {
				got = append(got, objRow{"path": rev(cc.colPath, x.Path), "name": rev(cc.name, x.Name), "desc": rev(cc.desc, x.Description), "max": cc.maxTok(x.MaxResourceSize), "sup": "-"})
			}
		}
		ev["got"] = got
	case "objs":
		ev["what"] = c.Via
		want := []objRow{}
		var paths []string
		for _, o := range c.Objs {
			put(o)
			want = append(want, row(o.Path, o.Etag, o.Mtime, o.Data))
			paths = append(paths, cc.objPath(c.Srv, o.Path))
		}
		ev["want"] = want
		got := []objRow{}
		if c.Srv == "cal" {
			var l []caldav.CalendarObject
			var err error
			switch c.Via {
			case "get":
				for _, p := range paths {
					o, e := calCl.GetCalendarObject(ctx, p)
					if e != nil {
						fail("GetCalendarObject", e)
						return
					}
					l = append(l, *o)
				}
			case "multiget":
				l, err = calCl.MultiGetCalendar(ctx, colp, &caldav.CalendarMultiGet{Paths: paths, CompRequest: caldav.CalendarCompRequest{Name: "VCALENDAR", AllProps: true, AllComps: true}})
			case "query":
				for _, p := range paths {
					calBe.QueryResult = append(calBe.QueryResult, *calBe.Objects[p])
				}
				l, err = calCl.QueryCalendar(ctx, colp, &caldav.CalendarQuery{CompRequest: caldav.CalendarCompRequest{Name: "VCALENDAR", AllProps: true, AllComps: true}, CompFilter: caldav.CompFilter{Name: "VCALENDAR"}})
			}
			if err != nil {
				fail(c.Via, err)
				return
			}
			for _, x := range l {
				got = append(got, row(cc.objTok(c.Srv, x.Path), rev(cc.etag, x.ETag), cc.mtimeTok(x.ModTime), calTok(x.Data)))
			}
		} else {
			var l []carddav.AddressObject
			var err error
			switch c.Via {
			case "get":
				for _, p := range paths {
					o, e := cardCl.GetAddressObject(ctx, p)
					if e != nil {
						fail("GetAddressObject", e)
						return
					}
					l = append(l, *o)
				}
			case "multiget":
				l, err = cardCl.MultiGetAddressBook(ctx, colp, &carddav.AddressBookMultiGet{Paths: paths, DataRequest: carddav.AddressDataRequest{AllProp: true}})
			case "query":
				for _, p := range paths {
					cardBe.QueryResult = append(cardBe.QueryResult, *cardBe.Objects[p])
				}
				l, err = cardCl.QueryAddressBook(ctx, colp, &carddav.AddressBookQuery{DataRequest: carddav.AddressDataRequest{AllProp: true}})
			}
			if err != nil {
				fail(c.Via, err)
				return
			}
			for _, x := range l {
				got = append(got, row(cc.objTok(c.Srv, x.Path), rev(cc.etag, x.ETag), cc.mtimeTok(x.ModTime), cardTok(x.Card)))
			}
		}
		ev["got"] = got
	case "mgst":
		ev["what"] = "multiget-statuses"
		want := []objRow{}
		var hrefs []string
		for _, it := range c.Items {
			p := cc.objPath(c.Srv, it.Href)
			hrefs = append(hrefs, p)
			// "403w" / "404w": the backend's status arrives inside a wrapped error; the answer is the same status
			want = append(want, objRow{"href": it.Href, "out": strings.TrimSuffix(it.Out, "w")})
			switch it.Out {
			case "ok":
				put(Obj{Path: it.Href, Etag: "e1", Mtime: "m1", Data: "d1"})
			case "403", "500", "403w", "404w":
				code := map[string]int{"403": 403, "500": 500, "403w": -403, "404w": -404}[it.Out]
				calBe.Fail[p] = code
				cardBe.Fail[p] = code
			}
		}
		ev["want"] = want
		// the request is written by the harness (independent writer); the server's raw answer is read by the harness reader
		ns, root, data := xmlt.CAL, "calendar-multiget", "calendar-data"
		if c.Srv == "card" {
			ns, root, data = xmlt.CARD, "addressbook-multiget", "address-data"
		}
		kids := []xmlt.Node{xmlt.El(xmlt.DAV, "prop", nil, xmlt.El(xmlt.DAV, "getetag", nil), xmlt.El(ns, data, nil))}
		for _, p := range hrefs {
			kids = append(kids, xmlt.El(xmlt.DAV, "href", nil, xmlt.Txt((&url.URL{Path: p}).String())))
		}
		body := xmlt.Render(xmlt.El(ns, root, nil, kids...), 1, nil)
		req := httptest.NewRequest("REPORT", (&url.URL{Path: colp}).EscapedPath(), bytes.NewReader(body))
		req.Header.Set("Content-Type", "application/xml")
		s := dav.Serve(h, req)
		if s.Code != 207 {
			fail("REPORT", fmt.Errorf("status %d", s.Code))
			return
		}
		rs, okp := dav.ParseMultiStatus(s.Body)
		if !okp {
			fail("REPORT", fmt.Errorf("multi-status not readable by the independent parser"))
			return
		}
		got := []objRow{}
		doc, _ := xmlt.Read(s.Body, nil)
		for i, r := range rs {
			out := "?"
			if len(r.Hrefs) != 1 {
				out = fmt.Sprintf("?hrefs=%d", len(r.Hrefs))
			}
			href := "?"
			if len(r.Hrefs) >= 1 {
				if u, err := url.Parse(strings.TrimSpace(r.Hrefs[0])); err == nil {
					href = cc.objTok(c.Srv, u.Path)
				}
			}
			// per-response status, or the object under a 200 propstat
			st := respStatus(doc, i)
			if st != 0 {
				out = fmt.Sprint(st)
			} else if r.Status[ns+" "+data] == 200 {
				out = "ok"
			}
			got = append(got, objRow{"href": href, "out": out})
		}
		ev["got"] = got
	case "put":
		ev["what"] = "put"
		ev["want"] = []objRow{{"recvpath": c.Path, "recvdata": c.Data, "path": c.Rpath, "etag": c.Etag, "mtime": c.Mtime}}
		p := cc.objPath(c.Srv, c.Path)
		rp := cc.objPath(c.Srv, c.Rpath)
		if c.Form == "rel" {
			p = strings.TrimPrefix(p, "/") // the endpoint is the host root: the same resource
		}
		g := objRow{"recvpath": "?", "recvdata": "?", "path": "?", "etag": "?", "mtime": "?"}
		if c.Srv == "cal" {
			calBe.PutResult = func(path string, cal *ical.Calendar) (*caldav.CalendarObject, error) {
				g["recvpath"] = cc.objTok(c.Srv, path)
				g["recvdata"] = calTok(cal)
				return &caldav.CalendarObject{Path: rp, ETag: cc.etag[c.Etag], ModTime: cc.mtime[c.Mtime]}, nil
			}
			o, err := calCl.PutCalendarObject(ctx, p, calData(c.Data))
			if err != nil {
				fail("PutCalendarObject", err)
				return
			}
			g["path"], g["etag"], g["mtime"] = cc.objTok(c.Srv, o.Path), rev(cc.etag, o.ETag), cc.mtimeTok(o.ModTime)
		} else {
			cardBe.PutResult = func(path string, card vcard.Card) (*carddav.AddressObject, error) {
				g["recvpath"] = cc.objTok(c.Srv, path)
				g["recvdata"] = cardTok(card)
				return &carddav.AddressObject{Path: rp, ETag: cc.etag[c.Etag], ModTime: cc.mtime[c.Mtime]}, nil
			}
			o, err := cardCl.PutAddressObject(ctx, p, cardData(c.Data))
			if err != nil {
				fail("PutAddressObject", err)
				return
			}
			g["path"], g["etag"], g["mtime"] = cc.objTok(c.Srv, o.Path), rev(cc.etag, o.ETag), cc.mtimeTok(o.ModTime)
		}
		ev["got"] = []objRow{g}
	case "doc":
		c10doc(c, cc, ev, fail)
	}
}

// respStatus returns the per-response DAV:status code of the i-th response (0 if none)
func respStatus(doc xmlt.Node, i int) int {
	n := -1
	for _, r := range doc.Kids {
		if r.Ns == xmlt.DAV && r.Name == "response" {
			n++
			if n == i {
				for _, k := range r.Kids {
					if k.Ns == xmlt.DAV && k.Name == "status" && len(k.Kids) == 1 {
						var code int
						f := strings.Fields(k.Kids[0].Text)
						if len(f) >= 2 {
							fmt.Sscan(f[1], &code)
						}
						return code
					}
				}
			}
		}
	}
	return 0
}

package main

// Store histories (C10 over sequences of calls): every history of spec/Store.tla is performed through two long-lived real
// clients against one long-lived real handler over a stateful backend double; one "sstep" observation per call.

import (
	"bufio"
	"bytes"
	"context"
	"encoding/json"
	"fmt"
	"net/http"
	"os"
	"sort"
	"strings"
	"time"

	"github.com/emersion/go-ical"
	"github.com/emersion/go-vcard"
	"github.com/emersion/go-webdav"
	"github.com/emersion/go-webdav/caldav"
	"github.com/emersion/go-webdav/carddav"

	"verif/harness/backends"
)

type StoreOp struct {
	Op string   `json:"op"`
	Cl int      `json:"cl"`
	C  string   `json:"c"`
	N  string   `json:"n"`
	D  string   `json:"d"`
	Ns []string `json:"ns"`
	F  string   `json:"f"`
	// Flt: a fault injected into the backend operation that carries the call
	Flt string `json:"flt"`
}

type storeConc struct {
	col  map[string]string
	name map[string]string
	tag  func(r int) string
	zone *time.Location
}

var storeConcs = map[string]storeConc{
	"hostile": {
		col:  map[string]string{"c1": "/u/home/work stuff/", "c2": "/u/home/ä%41#?;+/", "c3": "/u/home/work/"},
		name: map[string]string{"o1": "plain", "o2": "a b%41#?;+", "o3": "ü<&>'\"é"},
		tag:  func(r int) string { return fmt.Sprintf(`r%d"\ü&<`, r) },
		zone: time.FixedZone("m930", -9*3600-1800),
	},
	"plain": {
		col:  map[string]string{"c1": "/u/home/a/", "c2": "/u/home/b/", "c3": "/u/home/c/"},
		name: map[string]string{"o1": "x", "o2": "y", "o3": "z"},
		tag:  func(r int) string { return fmt.Sprintf("%d", r) },
		zone: time.UTC,
	},
	// names in a prefix relation, collections in a prefix relation
	"prefix": {
		col:  map[string]string{"c1": "/u/home/cal/", "c2": "/u/home/cal2/", "c3": "/u/home/ca/"},
		name: map[string]string{"o1": "ev", "o2": "ev.1", "o3": "e"},
		tag:  func(r int) string { return fmt.Sprintf("W/%d", r) },
		zone: time.FixedZone("p545", 5*3600+45*60),
	},
}

var storeBase = time.Date(2021, 3, 1, 23, 59, 0, 0, time.UTC)

func (sc storeConc) mtime(r int) time.Time { return storeBase.Add(time.Duration(r) * time.Second).In(sc.zone) }
func (sc storeConc) revOfTag(t string) int {
	for r := 1; r < 200; r++ {
		if sc.tag(r) == t {
			return r
		}
	}
	return -1
}
func (sc storeConc) revOfTime(t time.Time) int {
	d := t.Sub(storeBase)
	if d%time.Second != 0 || d < 0 || d > 200*time.Second {
		return -2
	}
	return int(d / time.Second)
}
func (sc storeConc) path(srv, c, n string) string {
	ext := ".ics"
	if srv == "card" {
		ext = ".vcf"
	}
	return sc.col[c] + sc.name[n] + ext
}
func (sc storeConc) split(srv, p string) (string, string) {
	for c := range sc.col {
		for n := range sc.name {
			if sc.path(srv, c, n) == p {
				return c, n
			}
		}
	}
	return "?" + p, "?"
}

type sRow = map[string]interface{}

func calFilter(f string) *caldav.CalendarQuery {
	ev := caldav.CompFilter{Name: "VEVENT"}
	switch f {
	case "t1":
		ev.Props = []caldav.PropFilter{{Name: "SUMMARY", TextMatch: &caldav.TextMatch{Text: "simple"}}}
	case "t3":
		ev.Props = []caldav.PropFilter{{Name: "SUMMARY", TextMatch: &caldav.TextMatch{Text: "trailing blanks "}}}
	case "nd":
		ev.Props = []caldav.PropFilter{{Name: "DESCRIPTION", IsNotDefined: true}}
	case "none":
		ev.Props = []caldav.PropFilter{{Name: "SUMMARY", TextMatch: &caldav.TextMatch{Text: "zzz"}}}
	}
	return &caldav.CalendarQuery{CompRequest: caldav.CalendarCompRequest{Name: "VCALENDAR", AllProps: true, AllComps: true},
		CompFilter: caldav.CompFilter{Name: "VCALENDAR", Comps: []caldav.CompFilter{ev}}}
}
func cardFilter(f string) *carddav.AddressBookQuery {
	q := &carddav.AddressBookQuery{DataRequest: carddav.AddressDataRequest{AllProp: true}}
	switch f {
	case "all":
		// (a query without any property filter selects nothing under the literal anyof reading; "all" is: FN is defined)
		q.PropFilters = []carddav.PropFilter{{Name: "FN"}}
	case "t1":
		q.PropFilters = []carddav.PropFilter{{Name: "FN", TextMatches: []carddav.TextMatch{{Text: "simple", MatchType: carddav.MatchContains}}}}
	case "t3":
		q.PropFilters = []carddav.PropFilter{{Name: "FN", TextMatches: []carddav.TextMatch{{Text: "blanks ", MatchType: carddav.MatchEndsWith}}}}
	case "nd":
		q.PropFilters = []carddav.PropFilter{{Name: "NOTE", IsNotDefined: true}}
	case "none":
		q.PropFilters = []carddav.PropFilter{{Name: "FN", TextMatches: []carddav.TextMatch{{Text: "zzz", MatchType: carddav.MatchEquals}}}}
	}
	return q
}

type storeWorld struct {
	srv    string
	sc     storeConc
	calBe  *backends.Cal
	cardBe *backends.Card
	calCl  [2]*caldav.Client
	cardCl [2]*carddav.Client
	rev    int
	recv   string // payload token the backend received with the last put
}

func newStoreWorld(srv string, sc storeConc) *storeWorld {
	w := &storeWorld{srv: srv, sc: sc}
	hasCol := func(p string) bool {
		if srv == "cal" {
			for _, c := range w.calBe.Calendars {
				if strings.HasPrefix(p, c.Path) {
					return true
				}
			}
			return false
		}
		for _, c := range w.cardBe.Books {
			if strings.HasPrefix(p, c.Path) {
				return true
			}
		}
		return false
	}
	w.calBe = &backends.Cal{Principal: "/u/", HomeSet: "/u/home/", Objects: map[string]*caldav.CalendarObject{}, Fail: map[string]int{}}
	w.cardBe = &backends.Card{Principal: "/u/", HomeSet: "/u/home/", Objects: map[string]*carddav.AddressObject{}, Fail: map[string]int{}}
	w.calBe.Calendars = []caldav.Calendar{{Path: sc.col["c1"], Name: "one", SupportedComponentSet: []string{"VEVENT"}}, {Path: sc.col["c2"], Name: "two", SupportedComponentSet: []string{"VEVENT"}}}
	w.cardBe.Books = []carddav.AddressBook{{Path: sc.col["c1"], Name: "one"}, {Path: sc.col["c2"], Name: "two"}}
	w.calBe.FilterOnQuery, w.cardBe.FilterOnQuery = true, true
	w.calBe.UniqueCols, w.cardBe.UniqueCols = true, true
	w.calBe.PutResult = func(p string, cal *ical.Calendar) (*caldav.CalendarObject, error) {
		w.recv = calTok(cal)
		if !hasCol(p) {
			return nil, webdav.NewHTTPError(http.StatusConflict, fmt.Errorf("no such calendar"))
		}
		w.rev++
		// the stored value is a copy of what arrived (decoded again from its own text): later changes to the request's value cannot reach it
		cp, err := ical.NewDecoder(strings.NewReader(calText(cal))).Decode()
		if err != nil {
			return nil, err
		}
		o := &caldav.CalendarObject{Path: p, ETag: sc.tag(w.rev), ModTime: sc.mtime(w.rev), ContentLength: int64(len(calText(cal))), Data: cp}
		w.calBe.Objects[p] = o
		oo := *o
		return &oo, nil
	}
	w.cardBe.PutResult = func(p string, card vcard.Card) (*carddav.AddressObject, error) {
		w.recv = cardTok(card)
		if !hasCol(p) {
			return nil, webdav.NewHTTPError(http.StatusConflict, fmt.Errorf("no such address book"))
		}
		w.rev++
		var b bytes.Buffer
		vcard.NewEncoder(&b).Encode(card)
		cp, err := vcard.NewDecoder(bytes.NewReader(b.Bytes())).Decode()
		if err != nil {
			return nil, err
		}
		o := &carddav.AddressObject{Path: p, ETag: sc.tag(w.rev), ModTime: sc.mtime(w.rev), ContentLength: int64(b.Len()), Card: cp}
		w.cardBe.Objects[p] = o
		oo := *o
		return &oo, nil
	}
	var h http.Handler = &caldav.Handler{Backend: w.calBe}
	if srv == "card" {
		h = &carddav.Handler{Backend: w.cardBe}
	}
	for i := 0; i < 2; i++ {
		w.calCl[i], _ = caldav.NewClient(handlerClient{h}, "http://example.com/")
		w.cardCl[i], _ = carddav.NewClient(handlerClient{h}, "http://example.com/")
	}
	return w
}

func (w *storeWorld) calRow(o *caldav.CalendarObject) sRow {
	c, n := w.sc.split(w.srv, o.Path)
	e := w.sc.revOfTag(o.ETag)
	if m := w.sc.revOfTime(o.ModTime); m != e {
		e = -3 // tag and time do not belong to the same revision
	}
	return sRow{"c": c, "n": n, "d": calTok(o.Data), "e": e}
}
func (w *storeWorld) cardRow(o *carddav.AddressObject) sRow {
	c, n := w.sc.split(w.srv, o.Path)
	e := w.sc.revOfTag(o.ETag)
	if m := w.sc.revOfTime(o.ModTime); m != e {
		e = -3
	}
	return sRow{"c": c, "n": n, "d": cardTok(o.Card), "e": e}
}

func (w *storeWorld) do(ctx context.Context, op StoreOp, ev map[string]interface{}) {
	cl := (op.Cl + 1) % 2
	objs := []sRow{}
	cols := []string{}
	var err error
	p := w.sc.path(w.srv, op.C, op.N)
	if cl == 1 {
		// the second client names objects relative to the endpoint (http://example.com/): what comes back must still be the
		// backend's (absolute) path
		p = strings.TrimPrefix(p, "/")
	}
	if op.Flt != "" {
		var ferr error
		switch op.Flt {
		case "h403":
			ferr = webdav.NewHTTPError(http.StatusForbidden, fmt.Errorf("injected"))
		case "h503":
			ferr = webdav.NewHTTPError(http.StatusServiceUnavailable, fmt.Errorf("injected"))
		case "w507":
			ferr = fmt.Errorf("storage layer: %w", webdav.NewHTTPError(http.StatusInsufficientStorage, fmt.Errorf("injected")))
		default:
			ferr = fmt.Errorf("injected plain failure")
		}
		kind := map[string][2]string{"put": {"PutCalendarObject", "PutAddressObject"}, "get": {"GetCalendarObject", "GetAddressObject"}, "mget": {"GetCalendarObject", "GetAddressObject"},
			"del": {"DeleteCalendarObject", "DeleteAddressObject"}, "query": {"QueryCalendarObjects", "QueryAddressObjects"}, "cols": {"ListCalendars", "ListAddressBooks"},
			"mkcol": {"CreateCalendar", "CreateAddressBook"}}[op.Op]
		if w.srv == "cal" {
			w.calBe.FailOnce(kind[0], ferr)
		} else {
			w.cardBe.FailOnce(kind[1], ferr)
		}
		defer func() {
			if w.calBe.FailPending() || w.cardBe.FailPending() {
				ev["unreached"] = true // the carrying operation was never called
			}
			w.calBe.ClearFail()
			w.cardBe.ClearFail()
		}()
	}
	switch op.Op {
	case "put":
		w.recv = "?none"
		if w.srv == "cal" {
			var o *caldav.CalendarObject
			if o, err = w.calCl[cl].PutCalendarObject(ctx, p, calData(op.D)); err == nil {
				c, n := w.sc.split(w.srv, o.Path)
				e := w.sc.revOfTag(o.ETag)
				if m := w.sc.revOfTime(o.ModTime); m != e {
					e = -3
				}
				objs = append(objs, sRow{"c": c, "n": n, "d": w.recv, "e": e})
			}
		} else {
			var o *carddav.AddressObject
			if o, err = w.cardCl[cl].PutAddressObject(ctx, p, cardData(op.D)); err == nil {
				c, n := w.sc.split(w.srv, o.Path)
				e := w.sc.revOfTag(o.ETag)
				if m := w.sc.revOfTime(o.ModTime); m != e {
					e = -3
				}
				objs = append(objs, sRow{"c": c, "n": n, "d": w.recv, "e": e})
			}
		}
	case "get":
		if w.srv == "cal" {
			var o *caldav.CalendarObject
			if o, err = w.calCl[cl].GetCalendarObject(ctx, p); err == nil {
				objs = append(objs, w.calRow(o))
			}
		} else {
			var o *carddav.AddressObject
			if o, err = w.cardCl[cl].GetAddressObject(ctx, p); err == nil {
				objs = append(objs, w.cardRow(o))
			}
		}
	case "del":
		if w.srv == "cal" {
			err = w.calCl[cl].RemoveAll(ctx, p)
		} else {
			err = w.cardCl[cl].RemoveAll(ctx, p)
		}
	case "mget":
		var paths []string
		for _, n := range op.Ns {
			paths = append(paths, w.sc.path(w.srv, op.C, n))
		}
		if w.srv == "cal" {
			var l []caldav.CalendarObject
			l, err = w.calCl[cl].MultiGetCalendar(ctx, w.sc.col[op.C], &caldav.CalendarMultiGet{Paths: paths,
				CompRequest: caldav.CalendarCompRequest{Name: "VCALENDAR", AllProps: true, AllComps: true}})
			for i := range l {
				objs = append(objs, w.calRow(&l[i]))
			}
		} else {
			var l []carddav.AddressObject
			l, err = w.cardCl[cl].MultiGetAddressBook(ctx, w.sc.col[op.C], &carddav.AddressBookMultiGet{Paths: paths, DataRequest: carddav.AddressDataRequest{AllProp: true}})
			for i := range l {
				objs = append(objs, w.cardRow(&l[i]))
			}
		}
	case "query":
		if w.srv == "cal" {
			var l []caldav.CalendarObject
			l, err = w.calCl[cl].QueryCalendar(ctx, w.sc.col[op.C], calFilter(op.F))
			for i := range l {
				objs = append(objs, w.calRow(&l[i]))
			}
		} else {
			var l []carddav.AddressObject
			l, err = w.cardCl[cl].QueryAddressBook(ctx, w.sc.col[op.C], cardFilter(op.F))
			for i := range l {
				objs = append(objs, w.cardRow(&l[i]))
			}
		}
	case "cols":
		if w.srv == "cal" {
			var l []caldav.Calendar
			l, err = w.calCl[cl].FindCalendars(ctx, "/u/home/")
			for _, x := range l {
				cols = append(cols, rev(w.sc.col, x.Path))
			}
		} else {
			var l []carddav.AddressBook
			l, err = w.cardCl[cl].FindAddressBooks(ctx, "/u/home/")
			for _, x := range l {
				cols = append(cols, rev(w.sc.col, x.Path))
			}
		}
	case "mkcol":
		if w.srv == "cal" {
			err = w.calCl[cl].Mkdir(ctx, w.sc.col[op.C])
		} else {
			err = w.cardCl[cl].Mkdir(ctx, w.sc.col[op.C])
		}
	}
	if err != nil {
		ev["err"] = true
		ev["code"] = errCode(err)
		ev["msg"] = err.Error()
		objs, cols = []sRow{}, []string{}
	}
	if op.Op == "query" {
		sort.Slice(objs, func(i, j int) bool { return fmt.Sprint(objs[i]["c"], objs[i]["n"]) < fmt.Sprint(objs[j]["c"], objs[j]["n"]) })
	}
	ev["objs"] = objs
	ev["cols"] = cols
}

// runStore: the input holds one history per line ({"ops": [...]}); each is run against the CalDAV and the CardDAV deployment.
func runStore(in, concName string, emit func(interface{})) {
	sc, ok := storeConcs[concName]
	if !ok {
		fmt.Fprintln(os.Stderr, "unknown conc", concName)
		os.Exit(2)
	}
	fh, err := os.Open(in)
	if err != nil {
		fmt.Fprintln(os.Stderr, err)
		os.Exit(2)
	}
	s := bufio.NewScanner(fh)
	s.Buffer(make([]byte, 1<<20), 64<<20)
	hi := 0
	for s.Scan() {
		var h struct {
			Ops []StoreOp `json:"ops"`
		}
		if err := json.Unmarshal(s.Bytes(), &h); err != nil {
			fmt.Fprintln(os.Stderr, err)
			os.Exit(2)
		}
		for _, srv := range []string{"cal", "card"} {
			emit(map[string]interface{}{"k": "sreset", "srv": srv, "hi": hi})
			w := newStoreWorld(srv, sc)
			for si, op := range h.Ops {
				if op.Ns == nil {
					op.Ns = []string{}
				}
				ev := map[string]interface{}{"k": "sstep", "srv": srv, "hi": hi, "si": si, "op": op, "err": false, "code": 0, "msg": "", "panic": false, "hang": false, "unreached": false,
					"objs": []sRow{}, "cols": []string{}}
				done := make(chan struct{})
				ctx, cancel := context.WithTimeout(context.Background(), 20*time.Second)
				go func() {
					defer close(done)
					defer func() {
						if r := recover(); r != nil {
							ev["panic"] = true
						}
					}()
					w.do(ctx, op, ev)
				}()
				select {
				case <-done:
				case <-time.After(30 * time.Second):
					ev = map[string]interface{}{"k": "sstep", "srv": srv, "hi": hi, "si": si, "op": op, "err": false, "code": 0, "msg": "", "panic": false, "hang": true, "unreached": false,
						"objs": []sRow{}, "cols": []string{}}
				}
				cancel()
				emit(ev)
			}
		}
		hi++
	}
}

package main

import (
	"context"
	"errors"
	"fmt"
	"io"
	"net/http"
	"os"
	"reflect"
	"runtime/debug"
	"strings"
	"sync"
	"time"

	"github.com/emersion/go-ical"
	"github.com/emersion/go-vcard"
	webdav "github.com/emersion/go-webdav"
	"github.com/emersion/go-webdav/caldav"
	"github.com/emersion/go-webdav/carddav"

	"verif/harness/dav"
)

type C14Case struct {
	M     string `json:"m"`
	Kind  string `json:"kind"`
	St    int    `json:"st"`
	Ct    string `json:"ct"`
	Body  string `json:"body"`
	Place string `json:"place"`
}

// stallBody is a response body that never completes: Read blocks until the body is closed
type stallBody struct {
	once sync.Once
	ch   chan struct{}
}

func (b *stallBody) Read(p []byte) (int, error) { <-b.ch; return 0, io.ErrClosedPipe }
func (b *stallBody) Close() error               { b.once.Do(func() { close(b.ch) }); return nil }

type scriptHTTP struct {
	stall bool // the body never completes (a server that keeps the connection open and sends nothing more)
	st    int
	hdr   http.Header
	body  []byte
}

func (s *scriptHTTP) Do(req *http.Request) (*http.Response, error) {
	if req.Body != nil {
		io.Copy(io.Discard, req.Body)
		req.Body.Close()
	}
	if s.stall {
		return &http.Response{StatusCode: s.st, Status: fmt.Sprintf("%d %s", s.st, http.StatusText(s.st)), Proto: "HTTP/1.1", ProtoMajor: 1, ProtoMinor: 1,
			Header: s.hdr.Clone(), Body: &stallBody{ch: make(chan struct{})}, Request: req, ContentLength: -1}, nil
	}
	return &http.Response{StatusCode: s.st, Status: fmt.Sprintf("%d %s", s.st, http.StatusText(s.st)), Proto: "HTTP/1.1", ProtoMajor: 1, ProtoMinor: 1,
		Header: s.hdr.Clone(), Body: io.NopCloser(strings.NewReader(string(s.body))), Request: req, ContentLength: int64(len(s.body))}, nil
}

const condName = "no-uid-conflict"

func ps(code int, props string) string {
	return fmt.Sprintf(`<D:propstat><D:prop>%s</D:prop><D:status>HTTP/1.1 %d %s</D:status></D:propstat>`, props, code, http.StatusText(code))
}

// response builds one DAV:response; mand = properties the call cannot do without, opt = the first optional one,
// more = further optional properties the call reads
func response(href, mand, opt, place string, more ...string) string {
	status := ""
	extra := strings.Join(more, "")
	var k, xcode int
	if n, _ := fmt.Sscanf(place, "x%df%d", &k, &xcode); n == 2 {
		// the k-th property (mandatory ones first, each top-level element counted) alone in a failing propstat
		all := append(splitProps(mand), splitProps(opt)...)
		for _, m := range more {
			all = append(all, splitProps(m)...)
		}
		if k < 1 || k > len(all) {
			fmt.Fprintf(os.Stderr, "place %s: the document for %s has only %d properties\n", place, href, len(all))
			os.Exit(2)
		}
		rest := strings.Join(append(append([]string{}, all[:k-1]...), all[k:]...), "")
		out := fmt.Sprintf(`<D:response><D:href>%s</D:href>`, href)
		if rest != "" {
			out += ps(200, rest)
		}
		return out + ps(xcode, all[k-1]) + `</D:response>`
	}
	var rcode int
	if n, _ := fmt.Sscanf(place, "resperr%d", &rcode); n == 1 {
		// a failed response that explains itself twice: a DAV:error condition element and a human-readable description
		return fmt.Sprintf(`<D:response><D:href>%s</D:href><D:status>HTTP/1.1 %d %s</D:status><D:error><C:%s/></D:error><D:responsedescription>it did not work out</D:responsedescription></D:response>`,
			href, rcode, http.StatusText(rcode), condName)
	}
	if n, _ := fmt.Sscanf(place, "resp%d", &rcode); n == 1 {
		return fmt.Sprintf(`<D:response><D:href>%s</D:href><D:status>HTTP/1.1 %d %s</D:status></D:response>`, href, rcode, http.StatusText(rcode))
	}
	switch place {
	case "resp404", "resp403", "resp500":
		code := map[string]int{"resp404": 404, "resp403": 403, "resp500": 500}[place]
		return fmt.Sprintf(`<D:response><D:href>%s</D:href><D:status>HTTP/1.1 %d %s</D:status></D:response>`, href, code, http.StatusText(code))
	case "ps403", "ps500":
		code := map[string]int{"ps403": 403, "ps500": 500}[place]
		if opt != "" {
			return fmt.Sprintf(`<D:response><D:href>%s</D:href>%s%s%s</D:response>`, href, ps(200, mand+extra), ps(code, opt), status)
		}
		return fmt.Sprintf(`<D:response><D:href>%s</D:href>%s</D:response>`, href, ps(code, mand+extra))
	case "opt404":
		if opt != "" {
			return fmt.Sprintf(`<D:response><D:href>%s</D:href>%s%s</D:response>`, href, ps(200, mand+extra), ps(404, emptied(opt)))
		}
	}
	return fmt.Sprintf(`<D:response><D:href>%s</D:href>%s</D:response>`, href, ps(200, mand+opt+extra))
}

// splitProps cuts a concatenation of top-level elements into the single elements
func splitProps(props string) []string {
	var out []string
	depth, start := 0, 0
	for i := 0; i < len(props); i++ {
		if props[i] != '<' {
			continue
		}
		end := strings.IndexByte(props[i:], '>') + i
		tag := props[i : end+1]
		switch {
		case strings.HasPrefix(tag, "</"):
			depth--
		case strings.HasSuffix(tag, "/>"):
		default:
			depth++
		}
		if depth == 0 {
			out = append(out, props[start:end+1])
			start = end + 1
		}
		i = end
	}
	return out
}

// emptied keeps the element names of a property list but drops their content (a 404 propstat carries empty elements)
func emptied(props string) string {
	var b strings.Builder
	for _, part := range strings.Split(props, "<") {
		if part == "" || strings.HasPrefix(part, "/") {
			continue
		}
		name := strings.FieldsFunc(part, func(r rune) bool { return r == ' ' || r == '>' || r == '/' })[0]
		if strings.Count(name, ":") == 1 && !strings.Contains(b.String(), "<"+name+"/>") {
			// only top-level properties: nested elements follow their parent and are skipped by depth tracking below
			b.WriteString("<" + name + "/>")
			break
		}
	}
	return b.String()
}

var fileMore = []string{`<D:getcontenttype>text/plain</D:getcontenttype>`, `<D:getlastmodified>Mon, 01 Mar 2021 12:00:00 GMT</D:getlastmodified>`}
var objMore = []string{`<D:getlastmodified>Mon, 01 Mar 2021 12:00:00 GMT</D:getlastmodified>`, `<D:getcontentlength>120</D:getcontentlength>`}

const nsDecl = `xmlns:D="DAV:" xmlns:C="urn:ietf:params:xml:ns:caldav" xmlns:A="urn:ietf:params:xml:ns:carddav"`

const icalText = "BEGIN:VCALENDAR\r\nVERSION:2.0\r\nPRODID:-//x//y//EN\r\nBEGIN:VEVENT\r\nUID:u1\r\nDTSTAMP:20200101T000000Z\r\nDTSTART:20200101T000000Z\r\nEND:VEVENT\r\nEND:VCALENDAR\r\n"
const vcardText = "BEGIN:VCARD\r\nVERSION:3.0\r\nFN:x\r\nEND:VCARD\r\n"

// validBody is a response body that satisfies the method (the independent writer's document for it)
func validBody(m, place string) (body string, hdr map[string]string) {
	ms := func(inner string) string {
		return `<?xml version="1.0" encoding="utf-8"?><D:multistatus ` + nsDecl + `>` + inner + `</D:multistatus>`
	}
	etag := `<D:getetag>"e1"</D:getetag>`
	switch m {
	case "dav.FindCurrentUserPrincipal":
		return ms(response("/", `<D:current-user-principal><D:href>/p/</D:href></D:current-user-principal>`, "", place)), nil
	case "dav.Stat":
		return ms(response("/f", `<D:resourcetype/><D:getcontentlength>3</D:getcontentlength>`, etag, place, fileMore...)), nil
	case "dav.ReadDir":
		return ms(response("/d/", `<D:resourcetype><D:collection/></D:resourcetype>`, "", "none") +
			response("/d/f", `<D:resourcetype/><D:getcontentlength>3</D:getcontentlength>`, etag, place, fileMore...)), nil
	case "cal.FindCalendarHomeSet":
		return ms(response("/p/", `<C:calendar-home-set><D:href>/p/cal/</D:href></C:calendar-home-set>`, "", place)), nil
	case "card.FindAddressBookHomeSet":
		return ms(response("/p/", `<A:addressbook-home-set><D:href>/p/card/</D:href></A:addressbook-home-set>`, "", place)), nil
	case "cal.FindCalendars":
		return ms(response("/p/cal/c/", `<D:resourcetype><D:collection/><C:calendar/></D:resourcetype>`, `<D:displayname>n</D:displayname>`, place,
			`<C:calendar-description>d</C:calendar-description>`, `<C:max-resource-size>1000</C:max-resource-size>`,
			`<C:supported-calendar-component-set><C:comp name="VEVENT"/></C:supported-calendar-component-set>`)), nil
	case "card.FindAddressBooks":
		return ms(response("/p/card/b/", `<D:resourcetype><D:collection/><A:addressbook/></D:resourcetype>`, `<D:displayname>n</D:displayname>`, place,
			`<A:addressbook-description>d</A:addressbook-description>`, `<A:max-resource-size>1000</A:max-resource-size>`,
			`<A:supported-address-data><A:address-data-type content-type="text/vcard" version="3.0"/></A:supported-address-data>`)), nil
	case "cal.QueryCalendar", "cal.MultiGetCalendar":
		return ms(response("/p/cal/c/o.ics", `<C:calendar-data>`+icalText+`</C:calendar-data>`, etag, place, objMore...)), nil
	case "card.QueryAddressBook", "card.MultiGetAddressBook":
		return ms(response("/p/card/b/o.vcf", `<A:address-data>`+vcardText+`</A:address-data>`, etag, place, objMore...)), nil
	case "card.SyncCollection":
		return ms(response("/p/card/b/o.vcf", etag, "", place) + `<D:sync-token>tok2</D:sync-token>`), nil
	case "cal.GetCalendarObject":
		return icalText, map[string]string{"ETag": `"e1"`}
	case "card.GetAddressObject":
		return vcardText, map[string]string{"ETag": `"e1"`}
	case "card.HasSupport":
		return "", map[string]string{"DAV": "1, 3, addressbook"}
	}
	return "ok", nil
}

func buildResponse(c C14Case, variant int) *scriptHTTP {
	s := &scriptHTTP{st: c.St, hdr: http.Header{}}
	valid, vh := validBody(c.M, c.Place)
	switch c.Body {
	case "badpayload", "badpayload2":
		// a valid document whose object payload cannot be parsed
		bad := "BEGIN:VCALENDAR\r\nthis line has no colon\r\nEND:VCALENDAR\r\n"
		if c.Body == "badpayload2" {
			bad = "BEGIN:VCALENDAR\r\nSUMMARY;LANGUAGE=en\r\nEND:VCALENDAR\r\n"
		}
		if strings.HasPrefix(c.M, "card.") {
			// go-vcard is lenient about malformed lines; what it does refuse: a card without END, a wrong BEGIN value
			bad = "BEGIN:VCARD\r\nVERSION:3.0\r\nFN:x\r\n"
			if c.Body == "badpayload2" {
				bad = "BEGIN:VCALENDAR\r\nEND:VCALENDAR\r\n"
			}
		}
		s.body = []byte(strings.Replace(strings.Replace(valid, icalText, bad, 1), vcardText, bad, 1))
		for k, v := range vh {
			s.hdr.Set(k, v)
		}
	case "valid":
		s.body = []byte(valid)
		for k, v := range vh {
			s.hdr.Set(k, v)
		}
	case "empty":
	case "wrongroot":
		s.body = []byte(`<?xml version="1.0"?><D:prop xmlns:D="DAV:"><D:getetag>"x"</D:getetag></D:prop>`)
	case "truncated":
		cut := len(valid) * (30 + variant%60) / 100
		if len(valid) < 20 {
			valid = `<?xml version="1.0"?><D:multistatus xmlns:D="DAV:"><D:response><D:href>/x</D:href></D:response></D:multistatus>`
			cut = len(valid) * (30 + variant%60) / 100
		}
		s.body = []byte(valid[:cut])
	case "stalled":
		s.stall = true
	case "emptyms":
		s.body = []byte(`<?xml version="1.0" encoding="utf-8"?><D:multistatus xmlns:D="DAV:"></D:multistatus>`)
	case "garbage":
		s.body = []byte("\x00\xff\xfe<<<>>>&&& not xml at all \x1b[0m")
	case "html":
		s.body = []byte("<html><head><title>Error</title></head><body><h1>It broke</h1></body></html>")
	case "daverror":
		s.body = []byte(`<?xml version="1.0"?><D:error xmlns:D="DAV:"><C:` + condName + ` xmlns:C="urn:ietf:params:xml:ns:caldav"/></D:error>`)
	}
	switch c.Ct {
	case "xml":
		s.hdr.Set("Content-Type", "application/xml; charset=utf-8")
	case "textxml":
		s.hdr.Set("Content-Type", "text/xml")
	case "plain":
		s.hdr.Set("Content-Type", "text/plain; charset=utf-8")
	case "other":
		s.hdr.Set("Content-Type", "application/octet-stream")
	case "obj":
		if strings.HasPrefix(c.M, "cal.") {
			s.hdr.Set("Content-Type", "text/calendar; charset=utf-8")
		} else {
			s.hdr.Set("Content-Type", "text/vcard")
		}
	}
	return s
}

// errCode walks the error chain and reads the Code field of the library's HTTP error type (lexically, by reflection:
// the type lives in an internal package).
func errCode(err error) int {
	for e := err; e != nil; e = errors.Unwrap(e) {
		v := reflect.ValueOf(e)
		if v.Kind() == reflect.Ptr && !v.IsNil() {
			v = v.Elem()
		}
		if v.Kind() == reflect.Struct && v.Type().Name() == "HTTPError" {
			if f := v.FieldByName("Code"); f.IsValid() && f.CanInt() {
				return int(f.Int())
			}
		}
	}
	return 0
}

// errCond reports whether the error chain holds the library's DAV:error value (found by type name, the package is
// internal) and that value carries the condition element: the condition must arrive as an element, not as quoted text
func errCond(err error) bool {
	for e := err; e != nil; e = errors.Unwrap(e) {
		v := reflect.ValueOf(e)
		if v.Kind() == reflect.Ptr && !v.IsNil() {
			v = v.Elem()
		}
		if v.Kind() == reflect.Struct && v.Type().Name() == "Error" && strings.HasSuffix(v.Type().PkgPath(), "/internal") && v.FieldByName("Raw").IsValid() {
			return v.FieldByName("Raw").Len() > 0 && strings.Contains(e.Error(), condName)
		}
	}
	return false
}

type swapHTTP struct {
	mu  sync.Mutex
	cur webdav.HTTPClient
}

func (s *swapHTTP) Do(req *http.Request) (*http.Response, error) {
	s.mu.Lock()
	c := s.cur
	s.mu.Unlock()
	return c.Do(req)
}

type sharedSet struct {
	tr   *swapHTTP
	dav  *webdav.Client
	cal  *caldav.Client
	card *carddav.Client
}

func (sh *sharedSet) clients(tr webdav.HTTPClient, shared bool) (*webdav.Client, *caldav.Client, *carddav.Client) {
	if !shared || sh == nil {
		dc, _ := webdav.NewClient(tr, "http://example.com/")
		cc, _ := caldav.NewClient(tr, "http://example.com/")
		ac, _ := carddav.NewClient(tr, "http://example.com/")
		return dc, cc, ac
	}
	sh.tr.mu.Lock()
	sh.tr.cur = tr
	sh.tr.mu.Unlock()
	if sh.dav == nil {
		sh.dav, _ = webdav.NewClient(sh.tr, "http://example.com/")
		sh.cal, _ = caldav.NewClient(sh.tr, "http://example.com/")
		sh.card, _ = carddav.NewClient(sh.tr, "http://example.com/")
	}
	return sh.dav, sh.cal, sh.card
}

func runC14(c C14Case, variant int, sh *sharedSet) map[string]interface{} {
	ev := map[string]interface{}{"k": "c14", "m": c.M, "kind": c.Kind, "st": c.St, "ct": c.Ct, "body": c.Body, "place": c.Place,
		"err": false, "code": 0, "cond": false, "panic": false, "panicin": "", "hang": false, "deleted": 0, "items": 0}
	tr := buildResponse(c, variant)
	type result struct {
		err     error
		items   int
		deleted int
		pan     bool
		panIn   string
	}
	done := make(chan result, 1)
	go func() {
		var r result
		defer func() {
			if recover() != nil {
				r.pan = true
				r.panIn = dav.PanicOrigin(string(debug.Stack()))
			}
			done <- r
		}()
		ctx := context.Background()
		// every other case goes through long-lived clients shared by all cases (a client is meant to be reused: whatever one
		// response leaves behind in it must not change how the next one is read), the rest through fresh ones
		dc, cc, ac := sh.clients(tr, variant%2 == 0)
		switch c.M {
		case "dav.FindCurrentUserPrincipal":
			var p string
			p, r.err = dc.FindCurrentUserPrincipal(ctx)
			if p != "" {
				r.items = 1
			}
		case "dav.Stat":
			var fi *webdav.FileInfo
			fi, r.err = dc.Stat(ctx, "/f")
			if fi != nil {
				r.items = 1
			}
		case "dav.ReadDir":
			var l []webdav.FileInfo
			l, r.err = dc.ReadDir(ctx, "/d/", false)
			if r.err == nil {
				r.items = len(l)
			}
		case "dav.Open":
			var rc io.ReadCloser
			rc, r.err = dc.Open(ctx, "/f")
			if rc != nil {
				io.Copy(io.Discard, rc)
				rc.Close()
				r.items = 1
			}
		case "dav.Create":
			var w io.WriteCloser
			w, r.err = dc.Create(ctx, "/f")
			if r.err == nil {
				w.Write([]byte("abc"))
				r.err = w.Close()
			}
		case "dav.RemoveAll":
			r.err = dc.RemoveAll(ctx, "/f")
		case "dav.Mkdir":
			r.err = dc.Mkdir(ctx, "/d")
		case "dav.Copy":
			r.err = dc.Copy(ctx, "/a", "/b", nil)
		case "dav.Move":
			r.err = dc.Move(ctx, "/a", "/b", nil)
		case "cal.FindCalendarHomeSet":
			var p string
			p, r.err = cc.FindCalendarHomeSet(ctx, "/p/")
			if p != "" {
				r.items = 1
			}
		case "cal.FindCalendars":
			var l []caldav.Calendar
			l, r.err = cc.FindCalendars(ctx, "/p/cal/")
			r.items = len(l)
		case "cal.QueryCalendar":
			var l []caldav.CalendarObject
			l, r.err = cc.QueryCalendar(ctx, "/p/cal/c/", &caldav.CalendarQuery{CompFilter: caldav.CompFilter{Name: "VCALENDAR"}})
			r.items = len(l)
		case "cal.MultiGetCalendar":
			var l []caldav.CalendarObject
			l, r.err = cc.MultiGetCalendar(ctx, "/p/cal/c/", &caldav.CalendarMultiGet{Paths: []string{"/p/cal/c/o.ics"}})
			r.items = len(l)
		case "cal.GetCalendarObject":
			var o *caldav.CalendarObject
			o, r.err = cc.GetCalendarObject(ctx, "/p/cal/c/o.ics")
			if o != nil {
				r.items = 1
			}
		case "cal.PutCalendarObject":
			cal, _ := ical.NewDecoder(strings.NewReader(icalText)).Decode()
			var o *caldav.CalendarObject
			o, r.err = cc.PutCalendarObject(ctx, "/p/cal/c/o.ics", cal)
			_ = o
		case "card.HasSupport":
			r.err = ac.HasSupport(ctx)
		case "card.FindAddressBookHomeSet":
			var p string
			p, r.err = ac.FindAddressBookHomeSet(ctx, "/p/")
			if p != "" {
				r.items = 1
			}
		case "card.FindAddressBooks":
			var l []carddav.AddressBook
			l, r.err = ac.FindAddressBooks(ctx, "/p/card/")
			r.items = len(l)
		case "card.QueryAddressBook":
			var l []carddav.AddressObject
			l, r.err = ac.QueryAddressBook(ctx, "/p/card/b/", &carddav.AddressBookQuery{})
			r.items = len(l)
		case "card.MultiGetAddressBook":
			var l []carddav.AddressObject
			l, r.err = ac.MultiGetAddressBook(ctx, "/p/card/b/", &carddav.AddressBookMultiGet{Paths: []string{"/p/card/b/o.vcf"}})
			r.items = len(l)
		case "card.GetAddressObject":
			var o *carddav.AddressObject
			o, r.err = ac.GetAddressObject(ctx, "/p/card/b/o.vcf")
			if o != nil {
				r.items = 1
			}
		case "card.PutAddressObject":
			card, _ := vcard.NewDecoder(strings.NewReader(vcardText)).Decode()
			_, r.err = ac.PutAddressObject(ctx, "/p/card/b/o.vcf", card)
		case "card.SyncCollection":
			var sr *carddav.SyncResponse
			sr, r.err = ac.SyncCollection(ctx, "/p/card/b/", &carddav.SyncQuery{SyncToken: "tok1"})
			if sr != nil {
				r.items = len(sr.Updated)
				r.deleted = len(sr.Deleted)
			}
		}
	}()
	select {
	case r := <-done:
		ev["panic"] = r.pan
		ev["panicin"] = r.panIn
		ev["err"] = r.err != nil
		if r.err != nil {
			ev["code"] = errCode(r.err)
			ev["cond"] = errCond(r.err)
			ev["items"] = 0
			if r.items > 0 {
				ev["items"] = r.items
			}
		} else {
			ev["items"] = r.items
		}
		ev["deleted"] = r.deleted
	case <-time.After(10 * time.Second):
		ev["hang"] = true
	}
	return ev
}

// uprec binds the Upload specification (C18) to webdav.Client.Create in both directions.
//
//	-mode replay : behaviours of the TLC state graph are stepped through the real Create/Write/Close with a scripted
//	               HTTPClient whose reads, answer, failure and body-close happen only when the script issues that action;
//	               after every action the observable state must be the model's.
//	-mode real   : the real net/http transport against a test server that answers early, stops reading, drops the
//	               connection or stalls until cancellation; the recorded events are validated by the TLC trace spec.
package main

import (
	"bufio"
	"bytes"
	"context"
	"encoding/json"
	"errors"
	"flag"
	"fmt"
	"io"
	"net"
	"net/http"
	"net/http/httptest"
	"os"
	"runtime"
	"runtime/pprof"
	"strings"
	"sync"
	"time"

	webdav "github.com/emersion/go-webdav"
)

type Plan struct {
	ReadK   int    `json:"readK"`
	Fin     string `json:"fin"`
	WantAll bool   `json:"wantAll"`
}
type State struct {
	Cpc     string `json:"cpc"`
	Ci      int    `json:"ci"`
	Wres    string `json:"wres"`
	Cres    string `json:"cres"`
	Pend    int    `json:"pend"`
	Rclosed bool   `json:"rclosed"`
	Wclosed bool   `json:"wclosed"`
	Tpc     string `json:"tpc"`
	Gpc     string `json:"gpc"`
	Tread   int    `json:"tread"`
}
type Step struct {
	A    string `json:"a"`
	Pre  State  `json:"pre"`
	Post State  `json:"post"`
}
type Script struct {
	ID    int    `json:"id"`
	Plan  Plan   `json:"plan"`
	Chunk int    `json:"chunk"` // units per Write
	Steps []Step `json:"steps"`
}
type Result struct {
	K      string `json:"k"`
	ID     int    `json:"id"`
	OK     bool   `json:"ok"`
	Step   int    `json:"step"`
	Action string `json:"action"`
	Why    string `json:"why"`
	Unit   int    `json:"unit"`
}

const watchdog = 10 * time.Second

type ret struct {
	op  string // "write" | "close"
	n   int
	err error
}

type cmd struct {
	op   string
	n    int
	code int
	resp chan cmdResult
}
type cmdResult struct {
	data []byte
	err  error
}

type scripted struct {
	entered chan *http.Request
	cmds    chan cmd
}

func (s *scripted) Do(req *http.Request) (*http.Response, error) {
	s.entered <- req
	for c := range s.cmds {
		switch c.op {
		case "read":
			buf := make([]byte, c.n)
			n, err := io.ReadFull(req.Body, buf)
			c.resp <- cmdResult{buf[:n], err}
		case "eof":
			buf := make([]byte, 1)
			n, err := req.Body.Read(buf)
			c.resp <- cmdResult{buf[:n], err}
		case "answer":
			c.resp <- cmdResult{}
			return &http.Response{StatusCode: c.code, Status: fmt.Sprintf("%d x", c.code), Proto: "HTTP/1.1", ProtoMajor: 1, ProtoMinor: 1,
				Header: http.Header{}, Body: io.NopCloser(strings.NewReader("")), Request: req}, nil
		case "fail":
			c.resp <- cmdResult{}
			return nil, errors.New("scripted transport: connection dropped")
		case "waitcancel":
			<-req.Context().Done()
			c.resp <- cmdResult{}
			return nil, req.Context().Err()
		}
	}
	return nil, errors.New("scripted transport: script ended")
}

func payload(n int) []byte {
	b := make([]byte, n)
	for i := range b {
		b[i] = byte('a' + i%23)
	}
	return b
}

func libGoroutines() int {
	var buf bytes.Buffer
	pprof.Lookup("goroutine").WriteTo(&buf, 1)
	return strings.Count(buf.String(), "go-webdav.(*Client).Create.func")
}

// swapTr lets ONE long-lived client talk to a new scripted transport in every behaviour: a client is meant to be reused, so
// whatever an upload (failed or not) leaves behind in it must not change the next one
type swapTr struct {
	mu  sync.Mutex
	cur *scripted
}

func (s *swapTr) Do(req *http.Request) (*http.Response, error) {
	s.mu.Lock()
	c := s.cur
	s.mu.Unlock()
	return c.Do(req)
}

var (
	sharedTr  = &swapTr{}
	sharedCli *webdav.Client
)

func runScript(sc Script, unit int) (res Result) {
	res = Result{K: "replay", ID: sc.ID, OK: true, Unit: unit}
	fail := func(i int, a, why string) Result {
		return Result{K: "replay", ID: sc.ID, OK: false, Step: i + 1, Action: a, Why: why, Unit: unit}
	}
	tr := &scripted{entered: make(chan *http.Request, 1), cmds: make(chan cmd)}
	defer close(tr.cmds)
	var cli *webdav.Client
	var err error
	if sc.ID%3 != 0 {
		// two behaviours out of three go through the shared client, the third through a fresh one
		sharedTr.mu.Lock()
		sharedTr.cur = tr
		sharedTr.mu.Unlock()
		if sharedCli == nil {
			sharedCli, err = webdav.NewClient(sharedTr, "http://example.com/")
		}
		cli = sharedCli
	} else {
		cli, err = webdav.NewClient(tr, "http://example.com/")
	}
	if err != nil {
		return fail(-1, "NewClient", err.Error())
	}
	ctx, cancel := context.WithCancel(context.Background())
	defer cancel()
	w, err := cli.Create(ctx, "/f")
	if err != nil {
		return fail(-1, "Create", err.Error())
	}
	chunkBytes := sc.Chunk * unit
	all := payload(chunkBytes * 8)
	written := 0 // bytes handed to Write so far
	readOff := 0 // bytes the transport has consumed
	rets := make(chan ret, 8)
	calls := make(chan string, 8)
	go func() {
		off := 0
		for c := range calls {
			switch c {
			case "write":
				n, err := w.Write(all[off : off+chunkBytes])
				off += chunkBytes
				rets <- ret{"write", n, err}
			case "close":
				rets <- ret{"close", 0, w.Close()}
			}
		}
	}()
	defer close(calls)
	var early []ret
	var req *http.Request
	issue := func(c cmd) (cmdResult, bool) {
		c.resp = make(chan cmdResult, 1)
		select {
		case tr.cmds <- c:
		case <-time.After(watchdog):
			return cmdResult{}, false
		}
		select {
		case r := <-c.resp:
			return r, true
		case <-time.After(watchdog):
			return cmdResult{}, false
		}
	}
	// legit reports whether a return that has been observed is enabled in model state st
	legit := func(r ret, st State) string {
		if r.op == "write" && !(st.Cpc == "writing" && (st.Pend == 0 || st.Rclosed)) && st.Cpc != "idle" {
			// Once the transport has answered or failed, closing the body (TCloseBody) is enabled in the model and commutes with every
			// step of the caller and of the library goroutine: a FAILING Write is then a behaviour of the model with TCloseBody taken
			// earlier -- whether the transport or the library itself (after Do has returned) closes the read side is not observable.
			if r.err != nil && (st.Tpc == "answered" || st.Tpc == "failed") {
				return ""
			}
			return "Write returned while its bytes were neither consumed nor the body closed"
		}
		if r.op == "close" && !(st.Tpc == "answered" || st.Tpc == "failed") {
			return "Close returned before the transport had answered or failed"
		}
		return ""
	}
	await := func(op string) (ret, bool) {
		for i, r := range early {
			if r.op == op {
				early = append(early[:i], early[i+1:]...)
				return r, true
			}
		}
		select {
		case r := <-rets:
			if r.op != op {
				early = append(early, r)
				select {
				case r2 := <-rets:
					return r2, r2.op == op
				case <-time.After(watchdog):
					return ret{}, false
				}
			}
			return r, true
		case <-time.After(watchdog):
			return ret{}, false
		}
	}
	for i, st := range sc.Steps {
		switch st.A {
		case "WriteStart":
			written += chunkBytes
			calls <- "write"
			if st.Post.Cpc == "idle" { // the model returns at once: the body is already closed
				r, ok := await("write")
				if !ok {
					return fail(i, st.A, "Write on a closed body did not return within the watchdog")
				}
				if r.err == nil { // the statement does not fix the error a failed Write reports, only that it fails
					return fail(i, st.A, fmt.Sprintf("Write after the body was closed returned n=%d err=nil, model: failure", r.n))
				}
			}
		case "WriteReturnOK":
			r, ok := await("write")
			if !ok {
				return fail(i, st.A, "Write did not return although all its bytes were consumed")
			}
			if r.err != nil || r.n != chunkBytes {
				return fail(i, st.A, fmt.Sprintf("Write returned n=%d err=%v, model: ok", r.n, r.err))
			}
		case "WriteReturnErr":
			r, ok := await("write")
			if !ok {
				return fail(i, st.A, "blocked Write did not return after the body was closed")
			}
			if r.err == nil {
				return fail(i, st.A, fmt.Sprintf("Write returned n=%d err=nil although the body was closed before its bytes were consumed", r.n))
			}
		case "CloseStart":
			calls <- "close"
		case "CloseReturn":
			r, ok := await("close")
			if !ok {
				return fail(i, st.A, "Close did not return although the answer was delivered (hang)")
			}
			if (r.err == nil) != (st.Post.Cres == "nil") {
				return fail(i, st.A, fmt.Sprintf("Close returned %v, model: %s (plan %s)", r.err, st.Post.Cres, sc.Plan.Fin))
			}
		case "GoCallDo":
			select {
			case req = <-tr.entered:
			case <-time.After(watchdog):
				return fail(i, st.A, "the library never called HTTPClient.Do")
			}
			if req.Method != "PUT" || req.URL.Path != "/f" {
				return fail(i, st.A, "unexpected request "+req.Method+" "+req.URL.Path)
			}
		case "TRead":
			r, ok := issue(cmd{op: "read", n: unit})
			if !ok {
				return fail(i, st.A, "transport read did not complete (no data although a Write is in flight)")
			}
			if r.err != nil || !bytes.Equal(r.data, all[readOff:readOff+unit]) {
				return fail(i, st.A, fmt.Sprintf("transport read %d bytes err=%v, not the bytes written at offset %d", len(r.data), r.err, readOff))
			}
			readOff += unit
		case "TFinish":
			if st.Pre.Cpc == "waitdone" {
				// Close is blocked and must stay blocked until the answer exists: give a premature return time to show
				time.Sleep(2 * time.Millisecond)
				select {
				case r := <-rets:
					if why := legit(r, st.Pre); why != "" {
						return fail(i, st.A, why)
					}
					early = append(early, r)
				default:
				}
			}
			if st.Pre.Wclosed && st.Pre.Pend == 0 && (sc.Plan.WantAll || st.Pre.Tread < sc.Plan.ReadK) {
				// the transport wants more than it got: it reads and sees the end of the body
				r, ok := issue(cmd{op: "eof"})
				if !ok {
					return fail(i, st.A, "transport did not see end of body after Close")
				}
				if r.err != io.EOF || len(r.data) != 0 {
					return fail(i, st.A, fmt.Sprintf("transport read n=%d err=%v at end of body, model: EOF", len(r.data), r.err))
				}
			}
			var ok bool
			switch sc.Plan.Fin {
			case "s2xx":
				_, ok = issue(cmd{op: "answer", code: 201})
			case "s4xx":
				_, ok = issue(cmd{op: "answer", code: 403})
			default:
				_, ok = issue(cmd{op: "fail"})
			}
			if !ok {
				return fail(i, st.A, "scripted transport stuck")
			}
		case "TCancelled":
			if _, ok := issue(cmd{op: "waitcancel"}); !ok {
				return fail(i, st.A, "request context was not cancelled")
			}
		case "TCloseBody":
			if req == nil {
				return fail(i, st.A, "no request")
			}
			req.Body.Close()
		case "Cancel":
			cancel()
		case "GoDoReturn", "GoSend":
			// internal steps of the library goroutine: unobservable
		default:
			return fail(i, st.A, "unknown action")
		}
		// anything that has returned by now must be enabled in the model (sound: it did return)
		runtime.Gosched()
	drain:
		for {
			select {
			case r := <-rets:
				if why := legit(r, st.Post); why != "" {
					return fail(i, st.A, why)
				}
				early = append(early, r)
			default:
				break drain
			}
		}
	}
	last := sc.Steps[len(sc.Steps)-1].Post
	if last.Gpc == "exit" {
		deadline := time.Now().Add(3 * time.Second)
		for libGoroutines() > 0 {
			if time.Now().After(deadline) {
				return fail(len(sc.Steps)-1, "end", "a goroutine started by Create is still alive after the model's goroutine exited")
			}
			time.Sleep(2 * time.Millisecond)
		}
	}
	return res
}

// ------------------------------------------------------------------ real transport

type Ev struct {
	Ev  string `json:"ev"`
	Res string `json:"res"`
	N   int    `json:"n"`
}
type Trace struct {
	K       string `json:"k"`
	ID      string `json:"id"`
	Fin     string `json:"fin"`
	Chunks  int    `json:"chunks"`
	Bytes   int    `json:"bytes"`
	Events  []Ev   `json:"events"`
	Hang    bool   `json:"hang"`
	Leak    bool   `json:"leak"`
	CloseMs int64  `json:"closems"`
}

func errClass(err error) string {
	if err == nil {
		return "nil"
	}
	if errors.Is(err, io.ErrClosedPipe) {
		return "errClosed"
	}
	return "err"
}

func realScenario(id, fin string, readBytes int, chunks, chunkBytes int, closeEarly int) Trace {
	tr := Trace{K: "real", ID: id, Fin: fin, Chunks: chunks, Bytes: chunks * chunkBytes, Events: []Ev{}}
	release := make(chan struct{})
	var once sync.Once
	srv := httptest.NewServer(http.HandlerFunc(func(w http.ResponseWriter, r *http.Request) {
		if readBytes < 0 {
			io.Copy(io.Discard, r.Body)
		} else if readBytes > 0 {
			io.CopyN(io.Discard, r.Body, int64(readBytes))
		}
		switch fin {
		case "s2xx":
			w.WriteHeader(201)
		case "s4xx":
			w.WriteHeader(403)
		case "drop":
			if hj, ok := w.(http.Hijacker); ok {
				c, _, err := hj.Hijack()
				if err == nil {
					if tc, ok := c.(*net.TCPConn); ok {
						tc.SetLinger(0)
					}
					c.Close()
				}
			}
		case "stall":
			select {
			case <-release:
			case <-r.Context().Done():
			case <-time.After(30 * time.Second):
			}
		}
	}))
	defer srv.Close()
	defer once.Do(func() { close(release) })
	hc := &http.Client{Transport: &http.Transport{DisableKeepAlives: true}}
	cli, _ := webdav.NewClient(hc, srv.URL)
	ctx, cancel := context.WithCancel(context.Background())
	defer cancel()
	w, err := cli.Create(ctx, "/f")
	if err != nil {
		tr.Events = append(tr.Events, Ev{Ev: "create", Res: "err"})
		return tr
	}
	donech := make(chan struct{})
	go func() {
		defer close(donech)
		data := payload(chunkBytes)
		for i := 0; i < chunks; i++ {
			if closeEarly >= 0 && i == closeEarly {
				break
			}
			n, err := w.Write(data)
			tr.Events = append(tr.Events, Ev{Ev: "write", Res: errClass(err), N: n})
		}
		t0 := time.Now()
		err := w.Close()
		tr.CloseMs = time.Since(t0).Milliseconds()
		tr.Events = append(tr.Events, Ev{Ev: "close", Res: errClass(err)})
	}()
	if fin == "stall" {
		go func() {
			time.Sleep(150 * time.Millisecond)
			cancel()
		}()
	}
	select {
	case <-donech:
	case <-time.After(20 * time.Second):
		tr.Hang = true
		cancel()
		once.Do(func() { close(release) })
		return tr
	}
	deadline := time.Now().Add(3 * time.Second)
	for libGoroutines() > 0 {
		if time.Now().After(deadline) {
			tr.Leak = true
			break
		}
		time.Sleep(5 * time.Millisecond)
	}
	return tr
}

// probeDesign finds out whether the implementation still has the shape Upload.tla describes: the request is in flight as soon as
// Create has returned (HTTPClient.Do is called without waiting for Close), and a Write hands its bytes to the request body
// synchronously (it does not return while the transport has consumed nothing). An implementation that spools the upload and
// sends it at Close, or buffers writes, can satisfy the property all the same; the step-by-step replay of the model's behaviours
// does not apply to it and is skipped (the recorded direction judges it).
type probeTr struct {
	called  chan struct{}
	release chan struct{}
}

func (t *probeTr) Do(req *http.Request) (*http.Response, error) {
	select {
	case t.called <- struct{}{}:
	default:
	}
	<-t.release
	if req.Body != nil {
		io.Copy(io.Discard, req.Body)
		req.Body.Close()
	}
	return &http.Response{StatusCode: 204, Status: "204 No Content", Header: http.Header{}, Body: http.NoBody, Request: req, Proto: "HTTP/1.1", ProtoMajor: 1, ProtoMinor: 1}, nil
}

func probeDesign() map[string]interface{} {
	res := map[string]interface{}{"k": "probe", "do_at_create": false, "write_synchronous": true, "err": ""}
	tr := &probeTr{called: make(chan struct{}, 1), release: make(chan struct{})}
	cli, err := webdav.NewClient(tr, "http://example.com/")
	if err != nil {
		res["err"] = err.Error()
		return res
	}
	ctx, cancel := context.WithCancel(context.Background())
	defer cancel()
	w, err := cli.Create(ctx, "/probe")
	if err != nil {
		res["err"] = err.Error()
		return res
	}
	select {
	case <-tr.called:
		res["do_at_create"] = true
	case <-time.After(2 * time.Second):
	}
	wrote := make(chan struct{})
	go func() {
		w.Write([]byte{1})
		close(wrote)
	}()
	select {
	case <-wrote:
		res["write_synchronous"] = false
	case <-time.After(time.Second):
	}
	close(tr.release)
	closed := make(chan struct{})
	go func() {
		<-wrote
		w.Close()
		close(closed)
	}()
	select {
	case <-closed:
	case <-time.After(10 * time.Second):
	}
	return res
}

func main() {
	mode := flag.String("mode", "replay", "replay | real | probe")
	scriptsF := flag.String("scripts", "", "ndjson of scripts")
	out := flag.String("out", "", "output ndjson")
	unit := flag.Int("unit", 1, "bytes per model unit")
	seed := flag.Int("seed", 1, "")
	only := flag.String("only", "", "run only the real scenario with this id")
	maxfail := flag.Int("maxfail", 4, "stop after this many failing behaviours / scenarios (each costs a watchdog period)")
	flag.Parse()
	fh, err := os.Create(*out)
	if err != nil {
		fmt.Fprintln(os.Stderr, err)
		os.Exit(2)
	}
	w := bufio.NewWriter(fh)
	enc := json.NewEncoder(w)
	n := 0
	if *mode == "probe" {
		enc.Encode(probeDesign())
		n++
	} else if *mode == "replay" {
		in, err := os.Open(*scriptsF)
		if err != nil {
			fmt.Fprintln(os.Stderr, err)
			os.Exit(2)
		}
		sc := bufio.NewScanner(in)
		sc.Buffer(make([]byte, 1<<20), 64<<20)
		for sc.Scan() {
			var s Script
			if err := json.Unmarshal(sc.Bytes(), &s); err != nil {
				fmt.Fprintln(os.Stderr, err)
				os.Exit(2)
			}
			r := runScript(s, *unit)
			enc.Encode(r)
			n++
			if !r.OK {
				*maxfail--
				if *maxfail <= 0 {
					break
				}
			}
		}
	} else {
		_ = seed
		sizes := [][2]int{{0, 0}, {1, 1024}, {4, 256}, {2, 4 << 20}, {8, 1 << 20}}
		for _, fin := range []string{"s2xx", "s4xx", "drop", "stall"} {
			for _, rd := range []int{-1, 0, 700, 3 << 20} {
				for si, sz := range sizes {
					if fin == "stall" && rd == -1 {
						continue
					}
					id := fmt.Sprintf("%s-read%d-size%d", fin, rd, si)
					if *only != "" && *only != id {
						continue
					}
					if *maxfail <= 0 {
						continue
					}
					t := realScenario(id, fin, rd, sz[0], sz[1], -1)
					if t.Hang || t.Leak {
						*maxfail--
					}
					enc.Encode(t)
					n++
				}
			}
		}
	}
	w.Flush()
	fh.Close()
	fmt.Printf("{\"recorded\":%d}\n", n)
}

// cardrec is the F2 recorder for C07: real carddav.Match / carddav.Filter on real vcard.Card values built from the
// abstract cases TLC enumerated. Verdicts: 0 false, 1 true, 2 error, 3 panic. No expectation is computed here.
package main

import (
	"bufio"
	"bytes"
	"encoding/json"
	"flag"
	"fmt"
	"math"
	"os"
	"sort"
	"strings"

	"github.com/emersion/go-vcard"
	"github.com/emersion/go-webdav/carddav"
)

type Field struct {
	N string   `json:"n"`
	V []string `json:"v"`
}
type TM struct {
	Text []string `json:"text"`
	Neg  bool     `json:"neg"`
	Mt   string   `json:"mt"`
}
type PF struct {
	Name string `json:"name"`
	Test string `json:"test"`
	Isnd bool   `json:"isnd"`
	Tms  []TM   `json:"tms"`
}
type Query struct {
	Test    string   `json:"test"`
	Filters []PF     `json:"filters"`
	Limit   int      `json:"limit"`
	Props   []string `json:"props"`
	Allprop bool     `json:"allprop"`
}
type FCase struct {
	Q    Query    `json:"q"`
	List []string `json:"list"`
}
type Kind struct {
	K    string  `json:"k"`
	Card []Field `json:"card"`
}

// letters -> concrete text; the alphabet is a concretisation (equality and sub-string structure are preserved)
var alpha = map[string]string{"a": "a", "b": "b", "f": "f", "3.0": "3.0"}

func text(v []string) string {
	var b strings.Builder
	for _, l := range v {
		if s, ok := alpha[l]; ok {
			b.WriteString(s)
		} else {
			b.WriteString(l)
		}
	}
	return b.String()
}

func buildCard(fs []Field) vcard.Card {
	c := make(vcard.Card)
	for _, f := range fs {
		c.AddValue(f.N, text(f.V)) // a name may occur several times: one field each
	}
	return c
}

func buildQuery(q Query) *carddav.AddressBookQuery {
	lim := q.Limit
	if lim == 2147483647 {
		lim = math.MaxInt // the specification's largest limit stands for the platform's largest int
	}
	out := &carddav.AddressBookQuery{FilterTest: carddav.FilterTest(q.Test), Limit: lim}
	out.DataRequest = carddav.AddressDataRequest{AllProp: q.Allprop, Props: append([]string(nil), q.Props...)}
	for _, p := range q.Filters {
		pf := carddav.PropFilter{Name: p.Name, Test: carddav.FilterTest(p.Test), IsNotDefined: p.Isnd}
		for _, t := range p.Tms {
			pf.TextMatches = append(pf.TextMatches, carddav.TextMatch{Text: text(t.Text), NegateCondition: t.Neg, MatchType: carddav.MatchType(t.Mt)})
		}
		out.PropFilters = append(out.PropFilters, pf)
	}
	return out
}

func verdict(q *carddav.AddressBookQuery, ao *carddav.AddressObject) (v int) {
	defer func() {
		if recover() != nil {
			v = 3
		}
	}()
	ok, err := carddav.Match(q, ao)
	if err != nil {
		return 2
	}
	if ok {
		return 1
	}
	return 0
}

func dumpCard(c vcard.Card) string {
	var names []string
	for n := range c {
		names = append(names, n)
	}
	sort.Strings(names)
	var b bytes.Buffer
	for _, n := range names {
		for _, f := range c[n] {
			fmt.Fprintf(&b, "%s=%q%v;", n, f.Value, f.Params)
		}
	}
	return b.String()
}

func readAll(path string, each func([]byte) error) {
	fh, err := os.Open(path)
	if err != nil {
		fmt.Fprintln(os.Stderr, err)
		os.Exit(2)
	}
	defer fh.Close()
	sc := bufio.NewScanner(fh)
	sc.Buffer(make([]byte, 1<<20), 64<<20)
	for sc.Scan() {
		if len(bytes.TrimSpace(sc.Bytes())) == 0 {
			continue
		}
		if err := each(append([]byte{}, sc.Bytes()...)); err != nil {
			fmt.Fprintln(os.Stderr, err)
			os.Exit(2)
		}
	}
}

func main() {
	mode := flag.String("mode", "match", "match | filter")
	qF := flag.String("queries", "", "")
	cF := flag.String("cards", "", "")
	fcF := flag.String("fcases", "", "")
	kF := flag.String("kinds", "", "")
	out := flag.String("out", "", "output file")
	tag := flag.String("tag", "", "")
	amap := flag.String("alpha", "", "letter concretisation, e.g. a=Ä,b=%")
	flag.Parse()
	if *amap != "" {
		for _, kv := range strings.Split(*amap, ",") {
			p := strings.SplitN(kv, "=", 2)
			if len(p) == 2 {
				alpha[p[0]] = p[1]
			}
		}
	}
	fh, err := os.Create(*out)
	if err != nil {
		fmt.Fprintln(os.Stderr, err)
		os.Exit(2)
	}
	w := bufio.NewWriterSize(fh, 1<<20)
	n := 0
	switch *mode {
	case "match":
		var qs []Query
		var cards [][]Field
		readAll(*qF, func(b []byte) error { var q Query; e := json.Unmarshal(b, &q); qs = append(qs, q); return e })
		readAll(*cF, func(b []byte) error { var c []Field; e := json.Unmarshal(b, &c); cards = append(cards, c); return e })
		objs := make([]carddav.AddressObject, len(cards))
		before := make([]string, len(cards))
		for i, c := range cards {
			objs[i] = carddav.AddressObject{Path: fmt.Sprintf("/o/%d", i), Card: buildCard(c)}
			before[i] = dumpCard(objs[i].Card)
		}
		for qi, q := range qs {
			rq := buildQuery(q)
			snap := fmt.Sprintf("%+v", *rq)
			vs := make([]int, len(objs))
			for i := range objs {
				vs[i] = verdict(rq, &objs[i])
			}
			same := snap == fmt.Sprintf("%+v", *rq)
			for i := range objs {
				if dumpCard(objs[i].Card) != before[i] {
					same = false
				}
			}
			b, _ := json.Marshal(map[string]interface{}{"k": "vec", "q": qi + 1, "vs": vs, "argsame": same, "tag": *tag})
			w.Write(b)
			w.WriteByte('\n')
			n++
		}
		// nil query matches everything
		nilv := []int{}
		for i := range objs {
			nilv = append(nilv, verdict(nil, &objs[i]))
		}
		b, _ := json.Marshal(map[string]interface{}{"k": "nilmatch", "vs": nilv, "tag": *tag})
		w.Write(b)
		w.WriteByte('\n')
		n++
	case "filter":
		kinds := map[string][]Field{}
		readAll(*kF, func(b []byte) error { var k Kind; e := json.Unmarshal(b, &k); kinds[k.K] = k.Card; return e })
		var cases []FCase
		readAll(*fcF, func(b []byte) error { var c FCase; e := json.Unmarshal(b, &c); cases = append(cases, c); return e })
		for ci, fc := range cases {
			objs := make([]carddav.AddressObject, len(fc.List))
			before := make([]string, len(fc.List))
			for i, k := range fc.List {
				objs[i] = carddav.AddressObject{Path: fmt.Sprintf("/o/%d", i+1), ETag: fmt.Sprintf("e%d", i+1), Card: buildCard(kinds[k])}
				before[i] = dumpCard(objs[i].Card)
			}
			rq := buildQuery(fc.Q)
			snap := fmt.Sprintf("%+v", *rq)
			idx := []int{}
			names := [][]string{}
			vals := true
			ferr, fpanic := false, false
			func() {
				defer func() {
					if recover() != nil {
						fpanic = true
					}
				}()
				res, err := carddav.Filter(rq, objs)
				if err != nil {
					ferr = true
					return
				}
				for _, r := range res {
					var ix int
					fmt.Sscanf(r.Path, "/o/%d", &ix)
					idx = append(idx, ix)
					ns := []string{}
					for name, fields := range r.Card {
						ns = append(ns, name)
						// every returned property carries the stored value
						if ix >= 1 && ix <= len(objs) {
							if dumpFields(fields) != dumpFields(objs[ix-1].Card[name]) {
								vals = false
							}
						}
					}
					sort.Strings(ns)
					names = append(names, ns)
					if ix >= 1 && ix <= len(objs) && r.ETag != objs[ix-1].ETag {
						vals = false
					}
				}
			}()
			same := snap == fmt.Sprintf("%+v", *rq)
			for i := range objs {
				if dumpCard(objs[i].Card) != before[i] {
					same = false
				}
			}
			b, _ := json.Marshal(map[string]interface{}{"k": "filter", "c": ci + 1, "idx": idx, "names": names, "vals": vals, "err": ferr, "panic": fpanic, "argsame": same, "tag": *tag})
			w.Write(b)
			w.WriteByte('\n')
			n++
		}
		// nil query returns the list unchanged
		objs := []carddav.AddressObject{{Path: "/o/1", Card: buildCard(kinds["A"])}, {Path: "/o/2", Card: buildCard(kinds["B"])}}
		res, err := carddav.Filter(nil, objs)
		b, _ := json.Marshal(map[string]interface{}{"k": "nilfilter", "n": len(objs), "got": len(res), "err": err != nil, "tag": *tag})
		w.Write(b)
		w.WriteByte('\n')
		n++
	}
	w.Flush()
	fh.Close()
	fmt.Printf("{\"recorded\":%d}\n", n)
}

func dumpFields(fs []*vcard.Field) string {
	var b bytes.Buffer
	for _, f := range fs {
		if f != nil {
			fmt.Fprintf(&b, "%q%v|", f.Value, f.Params)
		}
	}
	return b.String()
}

// Package xmlt is the harness's independent, minimal XML layer: an abstract element tree (namespace, local name,
// attributes, ordered children, text), a writer that renders it in several lexical styles (the "independent RFC-based
// writer" of the properties), and a namespace-aware reader built on encoding/xml's tokenizer. Tokens (opaque names and
// texts of the TLA+ side) are concretised by the caller-supplied maps.
package xmlt

import (
	"bytes"
	"encoding/xml"
	"fmt"
	"io"
	"sort"
	"strings"
)

type Attr struct {
	N string `json:"n"`
	V string `json:"v"`
}
type Node struct {
	Ns    string `json:"ns"`
	Name  string `json:"name"`
	Attrs []Attr `json:"attrs"`
	Kids  []Node `json:"kids"`
	Text  string `json:"text"`
}

func El(ns, name string, attrs []Attr, kids ...Node) Node {
	if attrs == nil {
		attrs = []Attr{}
	}
	if kids == nil {
		kids = []Node{}
	}
	return Node{Ns: ns, Name: name, Attrs: attrs, Kids: kids}
}
func Txt(t string) Node { return Node{Name: "#text", Attrs: []Attr{}, Kids: []Node{}, Text: t} }

// Conc maps tokens to concrete strings and back (injective on the tokens it knows).
type Conc struct {
	Fwd map[string]string
	Rev map[string]string
}

func NewConc(fwd map[string]string) *Conc {
	c := &Conc{Fwd: fwd, Rev: map[string]string{}}
	for k, v := range fwd {
		c.Rev[v] = k
	}
	return c
}
func (c *Conc) C(tok string) string {
	if c == nil {
		return tok
	}
	if v, ok := c.Fwd[tok]; ok {
		return v
	}
	return tok
}
func (c *Conc) A(s string) string {
	if c == nil {
		return s
	}
	if v, ok := c.Rev[s]; ok {
		return v
	}
	if _, clash := c.Fwd[s]; clash {
		return "?" + s
	}
	return s
}

const (
	DAV  = "DAV:"
	CAL  = "urn:ietf:params:xml:ns:caldav"
	CARD = "urn:ietf:params:xml:ns:carddav"
)

// prefix tables per style; style 0 uses default-namespace declarations on every element
var prefixes = []map[string]string{
	nil,
	{DAV: "D", CAL: "C", CARD: "A"},
	{DAV: "x1", CAL: "D", CARD: "DAV"}, // misleading prefixes
	nil,                               // style 3: default namespaces, CDATA for text, redundant declarations
}

func Esc(s string) string {
	var b bytes.Buffer
	xml.EscapeText(&b, []byte(s))
	return b.String()
}

// NStyles is the number of lexical styles Render knows.
const NStyles = 4

// Render writes the tree as a document in the given lexical style.
func Render(n Node, style int, c *Conc) []byte {
	var b bytes.Buffer
	switch style {
	case 1:
		b.WriteString(`<?xml version="1.0" encoding="UTF-8"?>`)
	case 2:
		b.WriteString("<?xml version='1.0'?>\n<!-- generated -->\n")
	case 3:
	default:
		b.WriteString(`<?xml version="1.0" encoding="utf-8"?>` + "\n")
	}
	render(&b, n, style%NStyles, true, "", c)
	return b.Bytes()
}

func render(b *bytes.Buffer, n Node, style int, top bool, parentNs string, c *Conc) {
	if n.Name == "#text" {
		t := c.C(n.Text)
		// (a carriage return can only be written as a character reference: unescaped, every XML reader turns it into a line feed)
		if style == 3 && !strings.Contains(t, "]]>") && !strings.Contains(t, "\r") && t != "" {
			b.WriteString("<![CDATA[" + t + "]]>")
		} else {
			b.WriteString(Esc(t))
		}
		return
	}
	pm := prefixes[style]
	name := n.Name
	decl := ""
	if pm == nil {
		if top || n.Ns != parentNs || style == 3 {
			decl = fmt.Sprintf(` xmlns="%s"`, n.Ns)
		}
	} else {
		p, ok := pm[n.Ns]
		if !ok {
			p = "q"
			decl += fmt.Sprintf(" xmlns:q='%s'", n.Ns)
		}
		name = p + ":" + n.Name
		if top {
			var nss []string
			for ns := range pm {
				nss = append(nss, ns)
			}
			sort.Strings(nss)
			for _, ns := range nss {
				decl += fmt.Sprintf(" xmlns:%s='%s'", pm[ns], ns)
			}
		}
	}
	b.WriteString("<" + name + decl)
	attrs := n.Attrs
	if style == 2 {
		attrs = nil
		for i := len(n.Attrs) - 1; i >= 0; i-- {
			attrs = append(attrs, n.Attrs[i])
		}
	}
	for _, at := range attrs {
		q := `"`
		if style == 2 && !strings.Contains(c.C(at.V), "'") {
			q = "'"
		}
		v := Esc(c.C(at.V))
		b.WriteString(" " + at.N + "=" + q + v + q)
	}
	if len(n.Kids) == 0 {
		if style == 2 {
			b.WriteString("></" + name + ">")
		} else {
			b.WriteString("/>")
		}
		return
	}
	b.WriteString(">")
	onlyEl := true
	for _, k := range n.Kids {
		if k.Name == "#text" {
			onlyEl = false
		}
	}
	for _, k := range n.Kids {
		if onlyEl && style == 2 {
			b.WriteString("\n  ")
		}
		render(b, k, style, false, n.Ns, c)
	}
	if onlyEl && style == 2 {
		b.WriteString("\n")
	}
	b.WriteString("</" + name + ">")
}

// Read parses a document into the namespace-expanded abstract tree. Whitespace-only text between elements is
// dropped; adjacent character data is merged; comments and processing instructions are ignored.
func Read(data []byte, c *Conc) (Node, error) {
	dec := xml.NewDecoder(bytes.NewReader(data))
	dec.Strict = true
	var stack []*Node
	var root *Node
	for {
		tok, err := dec.Token()
		if err == io.EOF {
			break
		}
		if err != nil {
			return Node{}, err
		}
		switch t := tok.(type) {
		case xml.StartElement:
			if root != nil && len(stack) == 0 {
				return Node{}, fmt.Errorf("more than one root element")
			}
			n := &Node{Ns: t.Name.Space, Name: t.Name.Local, Attrs: []Attr{}, Kids: []Node{}}
			seen := map[string]bool{}
			for _, at := range t.Attr {
				if at.Name.Space == "xmlns" || (at.Name.Space == "" && at.Name.Local == "xmlns") {
					continue
				}
				key := at.Name.Space + " " + at.Name.Local
				if seen[key] {
					return Node{}, fmt.Errorf("duplicate attribute %s", key)
				}
				seen[key] = true
				n.Attrs = append(n.Attrs, Attr{at.Name.Local, c.A(at.Value)})
			}
			stack = append(stack, n)
		case xml.EndElement:
			n := stack[len(stack)-1]
			stack = stack[:len(stack)-1]
			// merge adjacent text, drop whitespace-only text next to elements
			var merged []Node
			for _, k := range n.Kids {
				if k.Name == "#text" && len(merged) > 0 && merged[len(merged)-1].Name == "#text" {
					merged[len(merged)-1].Text += k.Text
					continue
				}
				merged = append(merged, k)
			}
			hasEl := false
			for _, k := range merged {
				if k.Name != "#text" {
					hasEl = true
				}
			}
			ks := []Node{}
			for _, k := range merged {
				if k.Name == "#text" {
					if hasEl && strings.TrimSpace(k.Text) == "" {
						continue
					}
					k.Text = c.A(k.Text)
				}
				ks = append(ks, k)
			}
			n.Kids = ks
			if len(stack) == 0 {
				root = n
			} else {
				p := stack[len(stack)-1]
				p.Kids = append(p.Kids, *n)
			}
		case xml.CharData:
			if len(stack) > 0 {
				p := stack[len(stack)-1]
				p.Kids = append(p.Kids, Node{Name: "#text", Attrs: []Attr{}, Kids: []Node{}, Text: string(t)})
			}
		}
	}
	if root == nil || len(stack) != 0 {
		return Node{}, fmt.Errorf("no complete root element")
	}
	return *root, nil
}
